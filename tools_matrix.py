#!/usr/bin/env python3
"""tools_matrix.py [-j N] [--tier quick] <NAME>[:ID,ID,...] ...

For every seeded change /verif/seeded/<NAME>/patch.diff: apply it to a scratch copy of /repo, run the listed checks
(default: the check of the property the change was seeded for, plus the checks of the related family) and record which
of them report a violation in /verif/seeded/<NAME>/detection.json.  Nothing is written to /repo or to /verif/evidence.
"""
from __future__ import annotations

import json
import os
import shutil
import subprocess
import sys
import tempfile
import time
from concurrent.futures import ThreadPoolExecutor

SEEDED = '/verif/seeded'
FAMILY = {
    'C01': ['C01', 'C04', 'C06'], 'C02': ['C02', 'C03'], 'C03': ['C03', 'C02'], 'C04': ['C04', 'C01'],
    'C06': ['C06', 'C01'], 'C07': ['C07'], 'C08': ['C08'], 'C09': ['C09'], 'C10': ['C10'], 'C11': ['C11', 'C02'],
    'C05': ['C05', 'C12', 'C18'], 'C12': ['C12', 'C05'], 'C13': ['C13', 'C17'], 'C14': ['C14'], 'C15': ['C15'],
    'C16': ['C16'], 'C17': ['C17', 'C13'], 'C18': ['C18', 'C05'], 'C19': ['C19'], 'C20': ['C20'],
}


def one(name, ids, tier):
    dest = os.path.join(SEEDED, name)
    prop = json.load(open(os.path.join(dest, 'meta_agent.json'))).get('property', name[:3]) \
        if os.path.exists(os.path.join(dest, 'meta_agent.json')) else name[:3]
    ids = ids or FAMILY.get(prop, [prop])
    s = tempfile.mkdtemp(prefix='matrix_', dir='/tmp')
    out = {'property': prop, 'tier': tier, 'repo_head': subprocess.run(
        ['git', '-C', '/repo', 'rev-parse', '--short', 'HEAD'], capture_output=True, text=True).stdout.strip(),
        'checks': {}}
    try:
        subprocess.run(['rsync', '-a', '--exclude', '.git', '--exclude', '*.log', '--exclude', '__pycache__',
                        '/repo/', s + '/'], check=True)
        subprocess.run(['git', 'init', '-q', '.'], cwd=s, check=True)
        r = subprocess.run(['git', 'apply', '--whitespace=nowarn', os.path.join(dest, 'patch.diff')], cwd=s)
        if r.returncode != 0:
            out['error'] = 'patch does not apply'
            return name, out
        for cid in ids:
            env = dict(os.environ, VERIF_REPO=s, VERIF_EVIDENCE_DIR=s + '/_evidence', VERIF_REPLAY_DIR=s + '/_replays')
            t0 = time.time()
            p = subprocess.run([os.environ.get('VERIF_CHECK', '/verif/check'), cid, '--tier', tier], env=env, capture_output=True, text=True,
                               timeout=3600)
            lines = (p.stdout + p.stderr).splitlines()
            viol = [ln[:300] for ln in lines if ln.startswith('VIOLATION') or 'violation x' in ln]
            clauses = []
            try:
                ev = json.load(open(f'{s}/_evidence/{cid}.json'))
                for v in ev.get('violation_list', ev.get('coverage', {}).get('violation_list', []))[:8]:
                    clauses.append(str(v)[:200])
            except Exception:  # noqa: BLE001
                pass
            out['checks'][cid] = {'rc': p.returncode, 'caught': p.returncode == 1, 'wall_s': round(time.time() - t0, 1),
                                  'reported': viol[:6], 'clauses': clauses}
    finally:
        shutil.rmtree(s, ignore_errors=True)
    json.dump(out, open(os.path.join(dest, 'detection.json'), 'w'), indent=1)
    return name, out


def main():
    args = sys.argv[1:]
    jobs, tier = 2, 'quick'
    while args and args[0].startswith('-'):
        if args[0] == '-j':
            jobs = int(args[1]); args = args[2:]
        elif args[0] == '--tier':
            tier = args[1]; args = args[2:]
    work = []
    for a in args:
        name, _, ids = a.partition(':')
        work.append((name, [i for i in ids.split(',') if i], tier))
    with ThreadPoolExecutor(jobs) as ex:
        for name, out in ex.map(lambda w: one(*w), work):
            print(name, {c: ('CAUGHT' if v['caught'] else f"rc={v['rc']}") for c, v in out.get('checks', {}).items()},
                  out.get('error', ''))
            for c, v in out.get('checks', {}).items():
                for ln in v['reported'][:3]:
                    print('    ', c, ln[:200])


if __name__ == '__main__':
    main()
