#!/venv/bin/python
"""Show a replay file of the MDIB family: operations of the failing transaction and the pre/post difference."""
import json, sys
d = json.load(open(sys.argv[1]))
r = d['replay']; tr = r['trace']; li = r['failing_record']
print(d['what'])
start = li
while start > 0 and tr[start]['act'] != 'Begin':
    start -= 1
pre = tr[start]['post'] if tr[li]['act'] != 'MutateCopy' else tr[li-1]['post']
for rec in tr[max(start,0):li+1]:
    print('  ', {k: v for k, v in rec.items() if k not in ('post',)})
post = tr[li]['post']
for sec in ('D', 'S', 'C'):
    for h in pre[sec]:
        if pre[sec][h] != post[sec][h]:
            print(f'  {sec}[{h}]: {pre[sec][h]}\n      -> {post[sec][h]}')
for k in ('mver', 'rest', 'agree', 'refall'):
    if pre[k] != post[k] or k in ('agree','refall') and not post[k]:
        print(f'  {k}: {pre[k]} -> {post[k]}')
