#!/venv/bin/python
"""Regenerate MANIFEST.json from the table below (keeps it valid at all times)."""
import json
import os

HERE = os.path.dirname(os.path.abspath(__file__))
ALL = [f'C{i:02d}' for i in range(1, 21)]

CHECKS = {
    'C11': dict(
        technique='TLA+ spec MultiKey.tla, TLC exhaustive + simulated behaviours replayed on the real tables, TLC trace validation',
        text='TLC exhaustively checks the table model (3 objects, 2 keys, 4 index kinds: Agree, RejectIsNoop); TLC-generated '
             'behaviours (exhaustive tree + simulation) are replayed on the real MultiKeyLookup and the real MDIB tables and '
             'every recorded step (full table projection) is validated by TLC against the spec actions.',
        note='Trusted: TLC, the projection in verif/checks/c11.py, the bounded domain (3 objects, 2 key values + None).',
        design_ref='6/C11'),
    'C02': dict(
        technique='TLA+ spec Mdib.tla (operational transaction model) model-checked by TLC; TLC-simulated behaviours replayed on the real ProviderMdib; TLC trace validation against the abstract commit obligation (MdibTrace.tla)',
        text='TLC exhaustively checks Gapless/EmptyNoBump/Monotone*/ChangeBumps*/RefConsistent on the operational model '
             '(6 descriptors, 2 context states, <=3 transactions of <=2 calls); simulated behaviours over all transaction kinds '
             'and both interfaces are executed on the real ProviderMdib and every commit is judged by TLC against the abstract '
             'obligation (mver step, footprint-untouched, monotone incl. delete/re-create, bump-on-change, referential consistency).',
        note='Trusted: TLC, projection/canonicalisation in verif/mdibharness.py (content tokens by canonical walk), fixture one_mds.xml; '
             'API precondition: nothing is created below a descriptor deleted in the same transaction.',
        design_ref='6/C02'),
    'C03': dict(
        technique='TLA+ spec Mdib.tla (Abort after every prefix, Rejected calls, MutateCopy) + TLC trace validation of recorded executions (MdibTrace.tla clauses atomic_*/isolated_*/published_unchanged)',
        text='Same behaviours as C02; the MDIB projection is recorded after every API call, so TLC judges: unchanged while a '
             'transaction is open (isolation at every nesting depth the token concretisation reaches), equal to the state at Begin '
             'after Abort / failed commit, unchanged by mutation of getter/entity/result objects, earlier TransactionResults unchanged.',
        note='Trusted: as C02. Commit failures only through inputs that make the real commit raise. Two known findings listed in known_findings.json.',
        design_ref='6/C03'),
    'C01': dict(
        technique='TLA+ specs Mdib.tla (provider histories) + Mirror.tla (in-order case) model-checked by TLC; behaviours executed on a real provider/consumer pair over a loop-back transport; TLC trace validation (MirrorTrace.tla)',
        text='TLC-simulated transaction histories (all transaction kinds, descriptor create/update/delete/re-create, both interfaces) '
             'run on a real SdcProvider + SdcConsumer + ConsumerMdib (sync, async and reference-parameter managers); every message is '
             'serialised, XSD-validated and parsed by the repository code. After every commit TLC compares the canonical projections of '
             'provider and consumer MDIB (descriptors, parents, states, context states, versions, MdibVersion/SequenceId/InstanceId, rest digest) '
             'and the change notifications against the reported/changed entities.',
        note='Trusted: loop-back transport (verif/loopback.py) instead of sockets, synchronous consumer dispatcher, projection/canonicalisation, virtual provider clock.',
        design_ref='6/C01'),
    'C04': dict(
        technique='TLA+ spec Mdib.tla behaviours -> real provider wire messages parsed back -> TLC trace validation (MirrorTrace.tla report_* clauses); write order: Threads.tla interleavings (see C07 engine)',
        text='For every commit of the simulated histories TLC judges the reports put on the wire: version triple = committed triple, '
             'every reported descriptor/state has the version and content token of the commit, only changed entities are reported, every changed '
             'entity is reported, parts are grouped under the owning MDS, every message passed XSD validation (sync and async managers).',
        note='Trusted: as C01. Order under concurrent writers and the periodic store are covered by the scheduled-thread runs.',
        design_ref='6/C04'),
    'C06': dict(
        technique='TLA+ spec Mirror.tla (report log, arbitrary delivery, consumer gates, restart, load with snapshot+buffer) model-checked by TLC; behaviours executed with a holding/duplicating loop-back network; TLC trace validation (MirrorFaultTrace.tla)',
        text='TLC exhaustively checks NoRegress, StaleIsNoop, DupIsNoop, Published, Frozen, LoadNotOlder and the in-order Mirror case '
             '(3 handles, <=4 commits, <=5 deliveries, restart). Simulated delivery schedules (drop, duplicate, reorder, replay, restart with new '
             'SequenceId or InstanceId, reload with traffic before/after the GetMdib snapshot) are executed on a real pair whose notifications are '
             'held by the network; TLC judges every consumer step.',
        note='Trusted: as C01; delivery unit = notifications of one commit; restart emulated on the same provider object.',
        design_ref='6/C06'),
    'C07': dict(
        technique='TLA+ spec Threads.tla: TLC enumerates all interleavings of thread programs recorded from the real handlers; every schedule is executed on real threads by a deterministic scheduler; TLC trace validation (ThreadsTrace.tla)',
        text='Thread programs (lock acquire/release of mdib_lock and the transaction lock, version-group access, MdibVersion write, send) are '
             'recorded from the real GetMdib/GetMdDescription/GetMdState/GetContextStates handlers and from real transactions. TLC enumerates every '
             'interleaving the lock semantics admit; each is replayed on real threads; the responses (parsed by the real consumer client) are judged '
             'against the per-version history of the provider MDIB of the same run: content, counters and selected entity set belong to the stated MdibVersion.',
        note='Trusted: atomic step = traced point to traced point; scheduler (verif/sched.py); loop-back transport.',
        design_ref='6/C07'),
    'C08': dict(
        technique='TLA+ spec Subscription.tla model-checked by TLC; behaviours executed on the real subscription managers (virtual clock, gated housekeeping, scripted delivery failures); TLC trace validation (SubscriptionTrace.tla)',
        text='TLC checks the manager model exhaustively (2 subscribers, 3 subscriptions, 2 actions, max duration 2 ticks) and generates request/tick/report/'
             'housekeeping/stop sequences. They run against a real SdcProvider (sync+async managers, path and reference-parameter dispatch) with real SOAP '
             'requests; TLC judges every step: delivered iff alive and matching, granted <= min(requested, max), status consistent, unknown ids fault and change '
             'nothing, exactly one SubscriptionEnd per live subscription at the right address.',
        note='Trusted: virtual clock patched into subscriptionmgr_base, loop-back transport raising the scripted exceptions, MAX_NOTIFY_ERRORS read at run time.',
        design_ref='6/C08'),
    'C18': dict(
        technique='TLA+ spec Scalars.tla (reference lexical<->value semantics over digit sequences) enumerated by TLC; every case executed on the real converters; results judged by TLC (ScalarsTrace.tla)',
        text='TLC enumerates the abstract domain (ms timestamps incl. dense windows at 2^31/2^40/2^53/1000, decimals with <=18 digits and exponents -18..18, '
             'durations, date/time forms, in- and out-of-type literals), checks the algebraic laws of the reference, and emits every case; the real '
             'converters and the attribute/node properties built on them are called for each case and TLC judges value, lexical form, round trip and rejection.',
        note='Trusted: IEEE-754 arithmetic is executed, not modelled (decided on the enumerated windows and samples); canary records guard the judge.',
        design_ref='6/C18'),
    'C16': dict(
        technique='TLA+ spec Location.tla (reference Scope/Parse/Inside over code-point sequences + foreign scope classes) enumerated by TLC; every case executed on the real location/scopes/discovery code; results judged by TLC (LocationTrace.tla)',
        text='TLC enumerates 64 presence patterns x value classes (reserved URL characters, %, blanks, non-ASCII, non-BMP) and a product of foreign scope '
             'classes (schemes, authorities, 0-5 path segments, malformed queries); the laws Parse(Scope(l))=l, Inside(l, widen), ~Inside(l, change) are '
             'invariants of the reference. Each case runs through SdcLocation, update_from_sdc_location + mk_scopes and the socket-less discovery search; TLC judges round trip, '
             'inside/outside verdicts and totality of filtering.',
        note='Trusted: value classes are representatives; \'\' and None denote the same absent element.',
        design_ref='6/C16'),
    'C10': dict(
        technique='TLA+ spec Context.tla (set_location + SetContextState handler) model-checked by TLC; call sequences executed on a real provider through the real consumer context client; TLC trace validation (ContextTrace.tla)',
        text='TLC checks OneAssoc/UnbindMarked/BindMarked exhaustively (2 context descriptors, 4 state handles, 3 calls with 1-2 proposals: new, update, associate, '
             'disassociate, two associated for one descriptor, unknown handle) and generates call sequences; they are executed on a real SdcProvider with the tutorial role '
             'provider (operation invoked over the loop-back SOAP path, queued processing) and TLC judges the provider context-state projection after every call.',
        note='Trusted: mapping of provider-generated uuid handles to abstract names by order of appearance; virtual provider clock.',
        design_ref='6/C10'),
    'C09': dict(
        technique='TLA+ spec Invocation.tla (provider sequence rules + consumer OperationsManager with all response/report interleavings) checked by TLC; behaviours executed on the real provider and the real OperationsManager; TLC trace validation (InvocationTrace.tla)',
        text='Provider: every sequence of 3 requests (known/unknown operation, direct/queued, handler finishes / finishes with modification / fails / raises) runs on '
             'a real SdcProvider through the real consumer clients (5 operation kinds); TLC judges transaction ids, the response+report state sequence, error information, '
             'no effect of unknown operations. Consumer: every interleaving of the HTTP response with the reports of 2-3 overlapping transactions (exhaustive from TLC) '
             'is replayed on the real OperationsManager with real XSD-valid messages; TLC judges that each result completes once with the final state and all report parts.',
        note='Trusted: scripted handlers; sequential replay is exact because OperationsManager handlers are atomic under its lock.',
        design_ref='6/C09'),
    'C15': dict(
        technique='TLA+ specs UdpRepeat.tla (reference retransmission schedule, every outcome of both random draws) and UdpRepeatLoop.tla (known-id memory) checked by TLC; every case executed on the real senders with stubbed random/time; judged by TLC (UdpRepeatTrace / UdpRepeatLoopTrace)',
        text='TLC enumerates every outcome of the initial-delay and first-gap draws for the unicast and multicast parameter sets (read from the code), checks the laws of the '
             'reference schedule, and emits the cases; each runs through the real _send_* / add_outbound_message paths of a real WSDiscovery + NetworkingThread (threads not started); '
             'TLC judges count, initial delay, first gap, doubling with cap, own-id pre-registration and loop-back suppression.',
        note='Trusted: stubs for the module globals random/time; observation at the send queue (the 10 ms raster of the send loop is not judged).',
        design_ref='6/C15'),
    'C05': dict(
        technique='TLA+ spec XmlStructure.tla (descriptor algebra of xml_structure.py: property kinds x flags x value classes, Write/Read/Canon, laws RT1/RT2/Absent as invariants) enumerated by TLC; every case instantiated on every reflected member of every class; judged by TLC (XmlStructureTrace.tla)',
        text='TLC enumerates 387 abstract cases over 73 well-formed descriptor shapes and checks the round-trip laws of the reference; reflection finds every property of every '
             'class of pm_types, msg_types, eventing/addressing/dpws/mex/wsd types and the descriptor/state containers (an unmapped property kind is a machinery failure); each case '
             'is written with the real as_etree_node, validated with the repository schemas (probe element with xsi:type), read back with from_node and written again; TLC judges '
             'value, rest of the object, __eq__, freshness of defaults, second XML.',
        note='Trusted: value classes are representatives of each simple type (C18 decides scalars); canonical form from verif/mdibharness.canon; explicit None on optional members with default/list is not judged for RT2.',
        design_ref='6/C05'),
    'C12': dict(
        technique='TLA+ spec Defaults.tla (heap model: New/ParseAbsent/ParsePresent/DeepCopy/MkCopy/UpdateFrom/MutateNested/Drop over 3 instances) model-checked by TLC incl. defect switches; histories replayed on every reflected (class, member) pair; TLC trace validation (DefaultsTrace.tla)',
        text='TLC checks NoSharing/DefaultStable/Isolated/DefaultUntouched exhaustively (and that the two seeded defect switches violate them); all histories up to depth 3-5 are '
             'replayed on every class member with an object- or list-valued default found by reflection (330 pairs); canonical value and object identity of every live and of a fresh '
             'instance after every step are judged by TLC.',
        note='Trusted: reflection table kind->abstract value; identical abstract traces of different pairs judged once.',
        design_ref='6/C12'),
    'C17': dict(
        technique='TLA+ specs HttpFraming.tla (chunked coding over byte values, codec and negotiation reference) and ChunkReader.tla (operational reader with liveness) checked by TLC; every case executed on the real mk_chunks / HTTPReader / CompressionHandler / SoapClient(+Async) / request handler; judged by TLC (HttpFramingTrace.tla)',
        text='TLC enumerates bodies x chunk sizes, all byte strings over a framing alphabet up to length 4-6, damage classes of coded bodies and Accept-Encoding headers with q-values; '
             'ChunkReader.tla refines the reference parser and terminates under fairness. Real readers are driven with a read-count watchdog (a spin is observed, not suffered); '
             'TLC judges losslessness, valid HTTP/1.1 framing, termination, negotiation (only acceptable q>0 and locally enabled codings) and rejection of corrupt/unsupported codings.',
        note='Trusted: in-memory sockets/connections; multi-megabyte bodies compared in python against the TLC-checked mirror parser.',
        design_ref='6/C17'),
    'C19': dict(
        technique='TLA+ spec Tls.tla (configuration x phase model with Advertised/Connects reference operators, laws as invariants) enumerated exhaustively by TLC; every configuration executed on a real provider/consumer pair; recorded URLs and connections judged by TLC (TlsTrace.tla)',
        text='Full product of provider TLS x consumer none/optional/enforced x shared/own servers x alternative host name x downgrade environment (x manager flavour in thorough) through the phases '
             'metadata, hosted+WSDL, subscribe, probe, notification, renew/status, operation, unsubscribe, stop; every URL in every serialised message and every client connection (context, netloc) '
             'is recorded and judged; certloader contexts are checked by attributes and by an in-memory mutual handshake.',
        note='Trusted: loop-back transport (no real handshake between the parties); real HttpServerThreadBase with the listening socket replaced.',
        design_ref='6/C19'),
    'C20': dict(
        technique='TLA+ spec Query.tla (SelMdState/SelCtx and localized-text filter semantics with laws as invariants) enumerated by TLC; every request sent through the real consumer service clients to a real provider; results judged by TLC (QueryTrace.tla)',
        text='TLC enumerates every request of <= 3 handles (descriptor, context state, MDS, unknown, duplicate) x MDIB variants and filter combinations x text stores; the harness builds each variant '
             'on a real provider, sends every request over the loop-back transport and TLC judges only-selected / all-selected / at-most-once and the text constraints.',
        note='Trusted: abstraction of the real MDIB/text store read back from the provider tables.',
        design_ref='6/C20'),
    'C13': dict(
        technique='TLA+ spec Pipeline.tla (Read -> Decode -> Route -> Parse -> Validate -> Dispatch -> Handle -> Respond over a finite product of input classes; Total under fairness, Outcome, NoEscape, NoSpin, BoundedRead, NoExpansion, NoFetch, RejectIsNoop) checked by TLC; every abstract request concretised and fed to the real handler and middleware; judged by TLC (PipelineTrace.tla)',
        text='TLC enumerates 31057 abstract requests (path x framing x content coding x XML form incl. DOCTYPE/entity classes x envelope mutations x request type x entry point) and proves termination of the model; '
             'each is concretised into bytes and fed to the real DispatchingRequestHandler on an in-memory socket (read-count watchdog, hard timeout) and to MessageConverterMiddleware.do_post of a real '
             'provider and consumer; socket guard and lxml resolver spy record fetches; MDIB and subscription-table projections before/after. TLC judges status, body class, escapes, spins, expansion, no-op on reject.',
        note='Trusted: finite input classes (no byte-level fuzzing); in-memory socket; only the first response per connection is judged.',
        design_ref='6/C13'),
    'C14': dict(
        technique='TLA+ specs DiscoveryMatch.tla (RFC 3986 / strcmp0 scope matching and filter semantics over an abstract URI domain, laws as invariants) and Discovery.tla (operational node model: Hello/ProbeMatches/ResolveMatches/Bye/Probe/Resolve with repeating message ids, bounded id memory) checked by TLC; cases and behaviours executed on the real matching functions and a socket-less WSDiscovery; judged by TLC (DiscoveryMatchTrace / DiscoveryTrace)',
        text='TLC enumerates URI pairs (case variants, percent-encoded variants, encoded slash, empty segments, trailing slash) and type lists, checks the algebraic laws of the reference, and '
             'exhaustively model-checks the node (InvHighest, ActOnce, ProbeAnswer, ResolveAnswer, Remembered); simulated, tree and long behaviours (real id memory of 200) are replayed on a real '
             'WSDiscovery + NetworkingThread (never started) with real SOAP datagrams; TLC judges every answer and table entry.',
        note='Trusted: only rfc3986/default and strcmp0 rules are judged; announcements always carry AppSequence and EPR.',
        design_ref='6/C14'),
}

NOT_YET = 'check not built yet in this round (see DESIGN.md section 10 build order); no claim made'


def main():
    checks = []
    for pid in ALL:
        if pid not in CHECKS:
            continue
        c = CHECKS[pid]
        checks.append({
            'property_id': pid,
            'quick_cmd': f'./check {pid} --tier quick',
            'thorough_cmd': f'./check {pid} --tier thorough',
            'evidence_file': f'/verif/evidence/{pid}.json',
            'replay_cmd_template': f'./check {pid} --replay {{path}}',
            'engine': 'tlc',
            'level_claimed': {'category': 'model_checking', 'text': c['text'], 'design_ref': c['design_ref']},
            'level_note': c['note'],
            'technique': c['technique'],
        })
    manifest = {
        'version': 1,
        'setup_cmd': 'cd /verif && ./setup.sh',
        'hooks': {
            'guard': 'SDC11073_VERIF',
            'enable': 'no source hooks: all instrumentation is applied from outside on instances/module globals by the harness; '
                      './check exports SDC11073_VERIF=1 for uniformity',
            'baseline_off_cmd': 'cd /repo && /venv/bin/python -m pytest -ra -q -p no:cacheprovider --timeout=900 '
                                '--continue-on-collection-errors',
            'source_commits': [],
            'add_only': True,
        },
        'engines': [
            {'name': 'tlc', 'path': '/verif/verif/tlc.py', 'serves_properties': sorted(CHECKS),
             'kind_free_text': 'TLA+ specifications under /verif/specs checked by TLC 1.8 (exhaustive, simulation, batch '
                               'trace validation) + python conformance harnesses under /verif/verif/checks'},
        ],
        'checks': checks,
        'notes': 'See DESIGN.md. exit 2 = machinery failure (never used to hide a violation).',
        'not_applicable': [{'property_id': p, 'reason': NOT_YET} for p in ALL if p not in CHECKS],
    }
    with open(os.path.join(HERE, 'MANIFEST.json'), 'w') as f:
        json.dump(manifest, f, indent=1)


if __name__ == '__main__':
    main()
