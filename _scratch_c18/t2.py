from verif.common import Run
from verif.checks import c18
run = Run('C18','quick',1)
c18.check_canaries(run)
print('ok', run.coverage)
import shutil; shutil.rmtree(run.tmp)
