import sys
from verif.tlc import run_tlc, json_lines
for part in sys.argv[1:]:
    res = run_tlc('Scalars', f'_gen_c18_t_{part}.cfg', workers=1, env={'SAMPLES_FILE':'/verif/_scratch_c18/samples.json'}, expect_ok=False)
    print(part, res.ok, res.distinct, round(res.wall_s,1))
    if not res.ok:
        i=res.stdout.find('rror')
        print(res.stdout[max(0,i-500):i+3000]); continue
    cases = json_lines(res.stdout,'CASE')
    print(len(cases), cases[0], cases[-1])
