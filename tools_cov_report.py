#!/usr/bin/env python3
"""tools_cov_report.py [ID ...] : union of the coverage of the given quick checks (default: all /tmp/cov/*.json);
prints, per source file, the lines no check executes, grouped into ranges (blind spots of the conformance harnesses)."""
import glob, json, os, sys
ids = sys.argv[1:] or [os.path.basename(f)[:-5] for f in sorted(glob.glob('/tmp/cov/C*.json'))]
files = {}
for i in ids:
    d = json.load(open(f'/tmp/cov/{i}.json'))
    for f, v in d['files'].items():
        e = files.setdefault(f, {'exec': set(), 'all': set()})
        e['exec'] |= set(v['executed_lines']); e['all'] |= set(v['executed_lines']) | set(v['missing_lines'])
def ranges(s):
    s = sorted(s); out = []; 
    for x in s:
        if out and x == out[-1][1] + 1: out[-1][1] = x
        else: out.append([x, x])
    return ','.join(f'{a}-{b}' if a != b else str(a) for a, b in out)
tot_a = tot_e = 0
for f in sorted(files):
    e = files[f]; miss = e['all'] - e['exec']; tot_a += len(e['all']); tot_e += len(e['exec'])
    pct = 100 * len(e['exec']) / max(1, len(e['all']))
    print(f"{pct:5.1f}% {len(miss):4d} {f.replace('/repo/','')}  {ranges(miss)[:600]}")
print('TOTAL', tot_e, '/', tot_a, f'{100*tot_e/max(1,tot_a):.1f}%', 'checks:', ids)
