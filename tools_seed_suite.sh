#!/bin/bash
# tools_seed_suite.sh <NAME> [<NAME> ...] : run the complete existing test-suite (command of /root/.vp/BASELINE.json) on a scratch
# copy of /repo HEAD with the seeded change applied; writes /verif/seeded/<NAME>/suite.json. Strictly sequential (the suite
# binds fixed multicast ports).
set -u
for NAME in "$@"; do
  DEST=/verif/seeded/$NAME
  [ -f "$DEST/suite.json" ] && [ "${FORCE:-0}" != 1 ] && { echo "$NAME: suite.json exists"; continue; }
  S=$(mktemp -d /tmp/suiterepo_XXXX)
  rsync -a --exclude .git --exclude '*.log' --exclude __pycache__ /repo/ "$S/"
  ( cd "$S" && git init -q . && git apply --whitespace=nowarn "$DEST/patch.diff" ) || { echo "$NAME: patch does not apply"; rm -rf "$S"; continue; }
  if [ "${NETNS:-0}" = 1 ]; then
    # private network namespace (loopback + multicast route): several suites can run side by side
    unshare -n bash -c "ip link set lo up; ip route add 224.0.0.0/4 dev lo 2>/dev/null; cd '$S' && PYTHONPATH='$S/src:$S' timeout 3000 /venv/bin/python -m pytest -ra -q -p no:cacheprovider --timeout=900 --continue-on-collection-errors > '$S/suite.log' 2>&1"
  else
    ( cd "$S" && PYTHONPATH="$S/src:$S" timeout 3000 /venv/bin/python -m pytest -ra -q -p no:cacheprovider --timeout=900 --continue-on-collection-errors > "$S/suite.log" 2>&1 )
  fi
  RC=$?
  SUMMARY=$(grep -E "^[0-9]+ (passed|failed)|passed|failed" "$S/suite.log" | tail -1 | sed 's/"/\\"/g' | cut -c1-200)
  FAILED=$(grep -E "^(FAILED|ERROR) tests/" "$S/suite.log" | cut -c1-160 | head -10 | python3 -c "import sys,json; print(json.dumps([l.strip() for l in sys.stdin]))")
  echo "{\"suite_rc\": $RC, \"summary\": \"$SUMMARY\", \"failed\": $FAILED, \"repo_head\": \"$(git -C /repo rev-parse --short HEAD)\"}" > "$DEST/suite.json"
  echo "$NAME: rc=$RC $SUMMARY"
  rm -rf "$S"
done
