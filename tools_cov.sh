#!/bin/bash
# tools_cov.sh <ID> [...] : run the quick tier of a check under coverage.py (branch coverage of /repo/src/sdc11073) to find code of
# the anchored modules that the conformance harness never executes (blind spots). Output: /tmp/cov/<ID>.txt (+ .json)
set -u
mkdir -p /tmp/cov
for ID in "$@"; do
  export PYTHONHASHSEED=0 SDC11073_VERIF=1 PYTHONPATH=/repo/src:/repo:/verif PYTHONDONTWRITEBYTECODE=1
  export VERIF_EVIDENCE_DIR=/tmp/cov/ev VERIF_REPLAY_DIR=/tmp/cov/rp COVERAGE_FILE=/tmp/cov/$ID.cov
  cat > /tmp/cov/$ID.rc <<R
[run]
branch = True
concurrency = thread
source = /repo/src/sdc11073
  /repo/tutorial
R
  ( cd /verif && /venv/bin/python -m coverage run --rcfile=/tmp/cov/$ID.rc -m verif.run $ID --tier ${TIER:-quick} > /tmp/cov/$ID.log 2>&1 ; echo "$ID rc=$?" )
  /venv/bin/python -m coverage report --rcfile=/tmp/cov/$ID.rc -m > /tmp/cov/$ID.txt 2>&1
  /venv/bin/python -m coverage json --rcfile=/tmp/cov/$ID.rc -o /tmp/cov/$ID.json >/dev/null 2>&1
done
