------------------------ MODULE EventingClientTrace ------------------------
(***************************************************************************)
(* Recorded executions of the real consumer subscription client (real       *)
(* SdcConsumer + ConsumerSubscriptionManager against the real subscription  *)
(* manager of a real SdcProvider, common virtual clock, scripted transport  *)
(* fates) judged step by step: Effect of EventingClient.tla is evaluated on *)
(* the recorded state before the step and compared with the recorded state  *)
(* after it, component by component (one named clause each).                *)
(***************************************************************************)
EXTENDS EventingClient, IOUtils
VARIABLES tid, l
Data == JsonDeserialize(IOEnv.TRACE_FILE)
Traces == Data.traces
Total == Data.total
Clause(name, cond) == IF cond THEN TRUE ELSE PrintT(<<"REJECT", tid, l + 1, name>>)
Rng(s) == {s[k] : k \in DOMAIN s}
TrSubs == <<"s1", "s2">>

StateOf(post) == [now |-> post.now,
                  P |-> [i \in Ids |-> [known |-> post.P[i].known, exp |-> post.P[i].exp, unsubAt |-> post.P[i].unsubAt]],
                  C |-> [i \in Ids |-> [sub |-> post.C[i].sub, exp |-> post.C[i].exp, granted |-> post.C[i].granted]],
                  tab |-> Rng(post.tab)]
ActionOf(rec) ==
  CASE rec.act \in {"Subscribe", "Renew"} -> [act |-> rec.act, i |-> rec.i, d |-> rec.d, fate |-> rec.fate]
    [] rec.act \in {"GetStatus", "Unsubscribe"} -> [act |-> rec.act, i |-> rec.i, fate |-> rec.fate]
    [] rec.act \in {"Round", "UnsubscribeAll"} -> [act |-> rec.act, fates |-> [i \in Ids |-> rec.fates[i]]]
    [] rec.act = "EndAll" -> [act |-> rec.act, delivered |-> Rng(rec.delivered)]
    [] OTHER -> [act |-> rec.act]

Step(pre, rec) ==
  LET s == StateOf(pre.post)
      e == Effect(s, ActionOf(rec))
      q == StateOf(rec.post) IN
  /\ Clause("clock", q.now = e.now)
  \* ---- the client (what this specification is about)
  /\ Clause("client_subscribed_flag", \A i \in Ids : q.C[i].sub = e.C[i].sub)
  /\ Clause("client_expiry", \A i \in Ids : e.C[i].sub => q.C[i].exp = e.C[i].exp)
  /\ Clause("client_granted", \A i \in Ids : e.C[i].sub => q.C[i].granted = e.C[i].granted)
  /\ Clause("client_manager_table", q.tab = e.tab)
  \* (the manager visits its subscriptions in the order they were filed; the effects on different subscriptions commute)
  /\ Clause("client_requests_sent", Rng(rec.sent) = Rng(e.sent) /\ Len(rec.sent) = Len(e.sent))
  /\ Clause("client_return_value", rec.ret = e.ret)
  /\ Clause("client_raises", rec.raised = e.raised)
  /\ Clause("client_belief_not_longer_than_grant",
            \A i \in Ids : (q.C[i].sub /\ q.P[i].known /\ q.P[i].unsubAt < 0) => q.C[i].exp <= q.P[i].exp)
  /\ Clause("client_times_on_the_tick_grid", rec.exact)
  \* ---- the source as this model abstracts it (C08 decides the provider; a difference here means the model's
  \*      picture of the provider is off, which would make the client clauses above meaningless)
  /\ Clause("source_table", \A i \in Ids : q.P[i].known = e.P[i].known)
  /\ Clause("source_expiry", \A i \in Ids : e.P[i].known => q.P[i].exp = e.P[i].exp)
  /\ Clause("source_unsubscribed_mark", \A i \in Ids : e.P[i].known => (q.P[i].unsubAt >= 0) = (e.P[i].unsubAt >= 0))

TraceInit == /\ tid \in 1..Len(Traces) /\ l = 1
             /\ now = 0 /\ P = [i \in Ids |-> NoP] /\ C = [i \in Ids |-> NoC] /\ tab = {} /\ hist = <<>>
TraceNext == /\ l < Len(Traces[tid])
             /\ Step(Traces[tid][l], Traces[tid][l + 1])
             /\ l' = l + 1 /\ UNCHANGED <<tid, now, P, C, tab, hist>>
TraceSpec == TraceInit /\ [][TraceNext]_<<tid, l, now, P, C, tab, hist>>
View == <<tid, l>>
AllConsumed == TLCGet("distinct") = Total
=============================================================================
