---- MODULE ContextSim ----
EXTENDS ContextMC
\* simulation with a fair mix of the two kinds of call (TLC's simulator picks uniformly among successor STATES, and one
\* SetLocation stands against hundreds of proposals): first the kind of the next call is chosen, then the call
VARIABLE turn
SimInit == Init /\ turn = "choose"
SimNext == \/ turn = "choose" /\ calls < MaxCalls /\ turn' \in {"loc", "ctx"} /\ UNCHANGED vars
           \/ turn = "choose" /\ calls = MaxCalls /\ turn' = "done" /\ UNCHANGED vars
           \/ turn = "loc" /\ SetLocation("lc") /\ turn' = "choose"
           \/ turn = "ctx" /\ turn' = "choose"
                /\ (\/ \E p \in Proposal : SetContextState(<<p>>)
                    \/ \E p, q \in Proposal : SetContextState(<<p, q>>))
SimSpec == SimInit /\ [][SimNext]_<<vars, turn>>
EmitMixed == (turn = "done") => PrintT(<<"BEH", ToJson(hist)>>)
====
