SPECIFICATION Spec
CONSTANTS
  ReqHandles <- AllReqHandles
  MaxLen = 3
  N1 = {0, 1, 2}
  N2 = {0, 1, 2}
  S3 = {TRUE, FALSE}
  StoreIds <- AllStoreIds
  FRefs <- AllFRefs
  FVers <- AllFVers
  FLangs <- AllFLangs
  FWidths <- AllFWidths
  FLines <- AllFLines
INVARIANT LawH
INVARIANT LawS
INVARIANT LawT
CONSTRAINT EmitCase
