SPECIFICATION Spec
CONSTANTS
  H <- CpH
  CH <- McCH
  Kind <- CpKind
  InitParent <- CpInitParent
  Parents <- CpParents
  CtxOf <- McCtxOf
  Removable = {}
  OtherMds <- McOtherMds
  BeginKinds = {"context", "descriptor"}
  KeepH = {}
  TrackH = "none"
  Tok = {1}
  MaxTx = 3
  MaxOps = 2
VIEW view
CONSTRAINT EmitCPurpose
CHECK_DEADLOCK FALSE
