SPECIFICATION Spec
CONSTANTS
  Descr <- McDescr
  CH <- SimCH
  MaxCalls = 6
CONSTRAINT EmitSim
