SPECIFICATION SimSpec
CONSTANTS
  Descr <- McDescr
  CH <- SimCH
  MaxCalls = 6
CONSTRAINT EmitMixed
