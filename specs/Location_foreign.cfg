SPECIFICATION SpecForeign
CONSTANTS
  Classes <- AllClasses
  Shapes = {"solo", "mid", "rot"}
  AbsentModes = {"none", "empty"}
  Schemes <- AllSchemes
  Auths <- AllAuths
  Frags <- AllFrags
INVARIANT ForeignLaw
INVARIANT GoodLaw
CONSTRAINT EmitForeign
