SPECIFICATION Spec
CONSTANTS
  Hs <- McHs
  Dyn <- McDyn
  MaxCommits = 7
  MaxDeliver = 14
  MaxEpoch = 1
CONSTRAINT EmitSim
