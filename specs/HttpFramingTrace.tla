---------------------------- MODULE HttpFramingTrace ----------------------------
(* Judges recorded executions of the real sdc11073 code (mk_chunks,              *)
(* HTTPReader._read_dechunk / read_request_body / read_response_body,            *)
(* CompressionHandler, DispatchingRequestHandler, SoapClient, SoapClientAsync,   *)
(* subscription managers) with the operators of HttpFraming.tla.                 *)
(* A trace is the list of real calls made for one abstract case; every record is *)
(* judged on its own.  A failing clause is printed as <<"REJECT", tid, l, name>>. *)
(* Fields computed by the harness in python (byte equality of bodies that may be *)
(* megabytes long): `same`, `delivered`, `returned`, `actual`, `valid`.          *)
EXTENDS HttpFraming, TLC, Json, IOUtils

VARIABLES tid, l

Data == JsonDeserialize(IOEnv.TRACE_FILE)
Traces == Data.traces
Registered == Rng(Data.registered)

Clause(name, cond) == IF cond THEN TRUE ELSE PrintT(<<"REJECT", tid, l + 1, name>>)
Clause1(name, cond) == IF cond THEN TRUE ELSE PrintT(<<"REJECT", tid, 1, name>>)

\* the python mirror of Parse (used alone for megabyte bodies) agrees with Parse on this stream
PyAgrees(rec, P) == /\ rec.pyok = (P.ok /\ ~P.lenient)
                    /\ rec.pyok => rec.pyused = P.used

\* list of <<clause name, condition>> for one record
Judge(rec) ==
  CASE rec.kind = "mkchunks" ->
         LET P == Parse(rec.stream) IN
         << <<"valid_framing", ValidChunked(rec.stream)>>,
            <<"lossless", P.ok /\ P.body = Body(rec.n, rec.pat)>>,
            <<"harness_parser_agrees", PyAgrees(rec, P)>> >>
    [] rec.kind = "dechunk" ->
         LET P == Parse(rec.stream) IN
         << <<"terminates:" \o (IF P.ok THEN "valid" ELSE P.why), rec.res # "spin">>,
            <<"valid_decoded", (P.ok /\ ~P.lenient) => (rec.res = "spin" \/ (rec.res = "body" /\ rec.body = P.body))>>,
            <<"lenient_consistent", (P.ok /\ P.lenient) => (rec.res # "body" \/ rec.body = P.body)>>,
            <<"rejects:" \o P.why, ~P.ok => rec.res # "body">>,
            <<"harness_parser_agrees", PyAgrees(rec, P)>> >>
    [] rec.kind = "exchange" ->
         \* streams with more chunks than is practical for TLC are judged by the python mirror of Parse
         LET reqv == IF rec.req_judge = "tlc" THEN ValidChunked(rec.req_stream) ELSE rec.req_pyvalid
             respv == IF rec.resp_judge = "tlc" THEN ValidChunked(rec.resp_stream) ELSE rec.resp_pyvalid
         IN
         << <<"exchange_completes", rec.res = "ok">>,
            <<"request_lossless", rec.res = "ok" => rec.delivered = "same">>,
            <<"response_lossless", rec.res = "ok" => rec.returned = "same">>,
            <<"request_framing_headers", FramingHeadersOK(rec.req_te, rec.req_cl, rec.req_len)>>,
            <<"response_framing_headers", rec.res = "ok" => FramingHeadersOK(rec.resp_te, rec.resp_cl, rec.resp_len)>>,
            <<"request_framing_valid", rec.req_te => reqv>>,
            <<"response_framing_valid", rec.resp_te => respv>>,
            <<"harness_parser_agrees", (rec.req_te => (rec.req_pyvalid = reqv)) /\ (rec.resp_te => (rec.resp_pyvalid = respv))>> >>
    [] rec.kind = "coding" ->
         << <<"coding:" \o rec.damage \o ":" \o ExpectedCoding(rec, Registered),
              CodingOutcomeOK(ExpectedCoding(rec, Registered), rec.actual)>> >>
    [] rec.kind = "nego" ->
         << <<"only_acceptable:" \o WhyNot(rec.hdr, Rng(rec.enabled), rec.chosen),
              ChoiceOK(rec.hdr, Rng(rec.enabled), rec.chosen)>>,
            <<"lossless", rec.same>> >>
    [] rec.kind = "big" ->
         << <<"valid_framing", rec.valid>>,
            <<"lossless", rec.same>>,
            <<"terminates", rec.res # "spin">> >>

JudgeInit(rec) == LET J == Judge(rec) IN \A i \in DOMAIN J : Clause1(J[i][1], J[i][2])
JudgeNext(rec) == LET J == Judge(rec) IN \A i \in DOMAIN J : Clause(J[i][1], J[i][2])

TraceInit == /\ tid \in 1..Len(Traces)
             /\ l = 1
             /\ JudgeInit(Traces[tid][1])

TraceNext == /\ l < Len(Traces[tid])
             /\ JudgeNext(Traces[tid][l + 1])
             /\ l' = l + 1 /\ tid' = tid

TraceSpec == TraceInit /\ [][TraceNext]_<<tid, l>>

Total == Data.total
AllConsumed == TLCGet("distinct") = Total
=============================================================================
