--------------------------- MODULE XmlStructureTrace ---------------------------
(* Judges the recorded results of real XML round trips of the sdc11073 data types      *)
(* (verif/checks/c05.py) against XmlStructure.tla.                                      *)
(* A "trace" is a batch: record 1 is a header, every further record is                  *)
(*   [c |-> case as emitted by XmlStructure (descriptor p, value class vc),             *)
(*    o |-> what the real code did for one concrete member of one concrete class]       *)
(* Canonical values and canonical XML documents are passed as tokens (small integers,   *)
(* equal token = equal canonical form, computed by verif/mdibharness.canon / c14n):     *)
(*   tin   the value that was written,          tout  the value read back (getter),     *)
(*   tnone "no value",  testr the empty string, tdflt / timpl the declared default /    *)
(*   implied value of the member, tnow the (frozen) clock.                              *)
(* Which of them the value read back has to equal is decided HERE with Canon / Val of   *)
(* the specification; python decides nothing.                                           *)
(*   w / r / w2   first write, read, second write: "ok" | "raise" | "na"                *)
(*   rest         all other members of the object are unchanged by the round trip       *)
(*   eq           the repository's __eq__ (original, read back): "true"|"false"|"na"    *)
(*   x12          canonical XML of second and first write: "same" | "diff" | "na"       *)
(*   valid        verdict of the bundled XSD (schema_resolver.mk_schema_validator):     *)
(*                "valid" | "struct" (the document has a shape the schema forbids)      *)
(*                | "value" (a value outside the schema value space was chosen)         *)
(*                | "na" (no validation context for this class)                         *)
(*   pure         writing left the value unchanged and a second write of the same object   *)
(*                gave the same XML (whole-object records)                                *)
(*   shared       the object read for the member is an object that also belongs to      *)
(*                another instance / to the class                                       *)
(* value classes "base" / "full" / "pair" are whole-object records (no single member).  *)
EXTENDS XmlStructure, IOUtils

VARIABLES tid, l

Data == JsonDeserialize(IOEnv.TRACE_FILE)
Traces == Data.traces

Clause(name, cond) == IF cond THEN TRUE ELSE PrintT(<<"REJECT", tid, l + 1, name>>)

Whole(c) == c.vc \in {"base", "full", "pair"}
AbsentCase(c) == c.vc \in {"absent", "stripped"}
\* "reading XML in which OPTIONAL parts are absent": optional as the schema sees it - the document without the part
\* is schema-valid (for a class without validation context: as the declaration says)
AbsentJudged(c, o) == o.valid = "valid" \/ (o.valid = "na" /\ c.p.opt)
ValueJudged(c, o) == ~AbsentCase(c) \/ AbsentJudged(c, o)

ExpVal(c) == Canon(c.p, Val(c.p, c.vc))
ExpTok(c, o) ==
  LET ev == ExpVal(c) IN
  CASE ev.t = "none" -> o.tnone
    [] ev.t = "list" /\ ev.items = <<>> -> o.tnone
    [] ev.id = "h" /\ ev.items = <<>> -> o.tdflt
    [] ev.id = "d" -> o.tdflt
    [] ev.id = "i" -> o.timpl
    [] ev.id = "e" -> o.testr
    [] ev.id = "now" -> o.tnow
    [] OTHER -> o.tin
\* the written value is its own canonical form: then the repository's __eq__ has to hold as well
Fix(c) == c.vc # "stripped" /\ ExpVal(c) = Get(c.p, Val(c.p, c.vc))

JudgeTail(c, o) ==
  /\ Clause("rt1_rest", o.rest)
  /\ Clause("fresh", ~o.shared)
  /\ Clause("rt2_write", o.w2 # "raise")
  \* not demanded for an explicit None on a member whose absent XML part reads back as the declared default object or
  \* as an empty list: the library documents None as "omit the element" there, and the read-back value (default / [])
  \* legitimately writes the element (acceptance decision, DESIGN 11.2)
  /\ (o.w2 = "ok" /\ ~(c.vc = "absent" /\ ExpVal(c).t # "none")) => Clause("rt2_xml", o.x12 # "diff")

JudgeProp(c, o) ==
  /\ Clause("write_ok", o.w = "ok")
  /\ o.w = "ok" =>
       /\ Clause("valid", o.valid # "struct")
       /\ Clause("read_ok", o.r = "ok")
       /\ o.r = "ok" =>
            /\ ValueJudged(c, o) =>
                 /\ Clause(IF c.vc = "stripped" THEN "absent_value" ELSE "rt1_value", o.tout = ExpTok(c, o))
                 /\ Fix(c) => Clause("rt1_eq", o.eq # "false")
                 /\ JudgeTail(c, o)
            /\ ~ValueJudged(c, o) => Clause("rt1_rest", o.rest)

JudgeWhole(c, o) ==
  /\ Clause("write_ok", o.w = "ok")
  /\ o.w = "ok" =>
       \* writing observes: it neither changes the value (nor the elements the value was built from) nor does a second
       \* write of the same object say something else
       /\ Clause("write_pure", o.pure)
       /\ Clause("valid", o.valid # "struct")
       /\ Clause("read_ok", o.r = "ok")
       /\ o.r = "ok" =>
            /\ Clause("rt1_value", o.tout = o.tin)
            /\ Clause("rt1_eq", o.eq # "false")
            /\ JudgeTail(c, o)

Judge(rec) ==
  IF rec.c.vc = "hdr" THEN TRUE
  ELSE IF Whole(rec.c) THEN JudgeWhole(rec.c, rec.o)
  ELSE IF rec.c \notin Cases THEN Clause("unknown_case", FALSE)
  ELSE JudgeProp(rec.c, rec.o)

Idle == [p |-> "none", vc |-> "none"]

TraceInit == /\ tid \in 1..Len(Traces)
             /\ l = 1
             /\ case = Idle
             /\ Judge(Traces[tid][1])

TraceNext == /\ l < Len(Traces[tid])
             /\ Judge(Traces[tid][l + 1])
             /\ l' = l + 1 /\ tid' = tid /\ case' = Idle

TraceSpec == TraceInit /\ [][TraceNext]_<<case, tid, l>>

Total == Data.total
AllConsumed == TLCGet("distinct") = Total
=============================================================================
