\* defect model: ParseAbsent hands out the class default itself - TLC must report a violation
SPECIFICATION Spec
CONSTANTS
  N = 3
  NVals = 2
  Ops = {"New", "ParseAbsent", "ParsePresent", "DeepCopy", "MkCopy", "UpdateFrom", "MutateNested", "Drop"}
  MaxOps = 0
  ShareAbsent = TRUE
  ShallowCopy = FALSE
VIEW view
INVARIANT TypeOK
INVARIANT NoSharing
INVARIANT DefaultStable
PROPERTY Isolated
PROPERTY DefaultUntouched
PROPERTY ObsSound
