--------------------------- MODULE MultiKeyTrace ---------------------------
(* Batch validation of recorded executions of the real MultiKeyLookup tables *)
(* against MultiKey.tla.  Every record carries the complete projected table, *)
(* so each step is a deterministic check; a failing clause is named in a     *)
(* REJECT line and validation goes on with the logged state.                 *)
EXTENDS MultiKeyMC, IOUtils

VARIABLES tid, l

Data == JsonDeserialize(IOEnv.TRACE_FILE)
Traces == Data.traces

Rng(s) == {s[i] : i \in DOMAIN s}
AttrOf(a) == [o \in DOMAIN a |-> [u |-> a[o].u, g |-> a[o].g, c |-> a[o].c, m |-> Rng(a[o].m)]]
IdxOf(ix) == [i \in DOMAIN ix |-> [k \in DOMAIN ix[i] |-> Rng(ix[i][k])]]

Clause(name, cond) == IF cond THEN TRUE ELSE PrintT(<<"REJECT", tid, l + 1, name>>)

Bind(rec) == /\ objs' = Rng(rec.post.objs)
             /\ attr' = AttrOf(rec.post.attr)
             /\ idx' = IdxOf(rec.post.idx)

TraceInit == /\ tid \in 1..Len(Traces)
             /\ l = 1
             /\ hist = <<>>
             /\ LET rec == Traces[tid][1] IN
                  /\ objs = Rng(rec.post.objs) /\ attr = AttrOf(rec.post.attr) /\ idx = IdxOf(rec.post.idx)
                  /\ IF Agree THEN TRUE ELSE PrintT(<<"REJECT", tid, 1, "agree">>)

StepOK(rec) ==
  CASE rec.act = "Add" /\ rec.res = "ok" -> AddCore(rec.o) \/ AddAgainCore(rec.o)
    [] rec.act = "Add" /\ rec.res = "rejected" -> AddRejectedCore(rec.o)
    [] rec.act = "Remove" -> RemoveCore(rec.o) \/ RemoveAbsentCore(rec.o)
    [] rec.act = "Update" /\ rec.res = "ok" ->
          LET a == [u |-> rec.a.u, g |-> rec.a.g, c |-> rec.a.c, m |-> Rng(rec.a.m)] IN UpdateCore(rec.o, a)
    \* a refused update (unique key of another stored object): the object is kept or given up, nothing else changes
    [] rec.act = "Update" /\ rec.res = "rejected" ->
          LET a == [u |-> rec.a.u, g |-> rec.a.g, c |-> rec.a.c, m |-> Rng(rec.a.m)]
          IN /\ rec.o \in objs /\ ~UFree(rec.o, a.u)
             /\ attr' = [attr EXCEPT ![rec.o] = a]
             /\ objs' \in {objs, objs \ {rec.o}}
    [] rec.act = "Clear" -> ClearCore \/ (objs = {} /\ UNCHANGED <<objs, attr, idx>>)
    [] OTHER -> FALSE

TraceNext == /\ l < Len(Traces[tid])
             /\ LET rec == Traces[tid][l + 1] IN
                  /\ Bind(rec)
                  /\ Clause("step:" \o rec.act \o ":" \o rec.res, StepOK(rec))
                  /\ Clause("agree", Agree')
                  /\ Clause("uniqueU", UniqueU')
             /\ l' = l + 1 /\ tid' = tid /\ hist' = hist

TraceSpec == TraceInit /\ [][TraceNext]_<<vars, tid, l>>

Total == Data.total
AllConsumed == TLCGet("distinct") = Total
=============================================================================
