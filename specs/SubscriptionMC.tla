---- MODULE SubscriptionMC ----
EXTENDS Subscription
McClients == {"A", "B"}
McActions == {"metric", "alert"}
McIds == 1..3
McFilters == {{"metric"}, {"metric", "alert"}}
EmitSim == (TLCGet("level") = 16 \/ stopped) => PrintT(<<"BEH", ToJson(hist)>>)
\* test purposes (breadth-first run over tiny constants): the shortest histories in which an endpoint is notified
\* again after an earlier delivery to it failed (per failure kind, before and after housekeeping removed the victim)
PurposeFilters == {{"metric"}}
PurposeActions == {"metric"}
ASSUME TLCSet(7, {})
\* breadth-first, one worker: the first (= a shortest) history for every label is printed
EmitPurpose == (hist # <<>> /\ hist[Len(hist)].act \in {"Report", "Housekeeping"})
               => LET fresh == hist[Len(hist)].sit \ TLCGet(7)
                  IN fresh # {} => (PrintT(<<"BEH", ToJson(hist)>>) /\ TLCSet(7, TLCGet(7) \cup fresh))
====
