---- MODULE SubscriptionMC ----
EXTENDS Subscription
McClients == {"A", "B"}
McActions == {"metric", "alert"}
McIds == 1..3
McFilters == {{"metric"}, {"metric", "alert"}}
EmitSim == (TLCGet("level") = 16 \/ stopped) => PrintT(<<"BEH", ToJson(hist)>>)
====
