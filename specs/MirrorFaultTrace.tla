-------------------------- MODULE MirrorFaultTrace --------------------------
(***************************************************************************)
(* Abstract obligations of C06 on recorded executions of a real consumer   *)
(* MDIB that receives the provider's reports dropped, duplicated,          *)
(* reordered, replayed, across provider restarts and while (re)loading.    *)
(* Records: act \in {Init, Commit*, Restart, Deliver, Load}; each carries  *)
(* the projected consumer MDIB after the step (cpost), its phase, and for  *)
(* Deliver the version triple of the delivered report group.               *)
(***************************************************************************)
EXTENDS Integers, Sequences, FiniteSets, TLC, Json, IOUtils

VARIABLES tid, l

Data == JsonDeserialize(IOEnv.TRACE_FILE)
Traces == Data.traces
Total == Data.total

Clause(name, cond) == IF cond THEN TRUE ELSE PrintT(<<"REJECT", tid, l + 1, name>>)
Rng(s) == {s[i] : i \in DOMAIN s}
H(p) == DOMAIN p.D
CH(p) == DOMAIN p.C

Tables(p) == <<p.mver, p.seq, p.inst, p.D, p.S, p.C, p.rest>>
SameEpoch(p, q) == p.seq = q.seq /\ p.inst = q.inst

NoRegress(pre, post) ==
  SameEpoch(pre, post) =>
    /\ post.mver >= pre.mver
    /\ \A h \in H(post) : (pre.S[h].present /\ post.S[h].present) => post.S[h].sver >= pre.S[h].sver
    /\ \A c \in CH(post) : (pre.C[c].present /\ post.C[c].present) => post.C[c].sver >= pre.C[c].sver
    /\ \A h \in H(post) : (pre.D[h].present /\ post.D[h].present) => post.D[h].ver >= pre.D[h].ver

\* every state the consumer holds was published by the provider for that handle (version and content)
PublishedOK(rec) ==
  /\ \A h \in H(rec.cpost) : rec.cpost.S[h].present =>
        \E i \in DOMAIN rec.pubs.S[h] : rec.pubs.S[h][i] = <<rec.cpost.S[h].sver, rec.cpost.S[h].dver, rec.cpost.S[h].tok>>
  /\ \A c \in CH(rec.cpost) : rec.cpost.C[c].present =>
        \E i \in DOMAIN rec.pubs.C[c] : rec.pubs.C[c][i] = <<rec.cpost.C[c].sver, rec.cpost.C[c].dver, rec.cpost.C[c].tok>>
  /\ \A h \in H(rec.cpost) : rec.cpost.D[h].present =>
        \E i \in DOMAIN rec.pubs.D[h] : rec.pubs.D[h][i] = <<rec.cpost.D[h].ver, rec.cpost.D[h].tok>>

Sane(rec) == /\ Clause("lookups_agree", rec.cpost.agree)
             /\ Clause("published", rec.phase # "initialized" \/ PublishedOK(rec))

Step(prev, rec) ==
  CASE rec.act = "Deliver" ->
         LET pre == prev.cpost
             post == rec.cpost IN
         /\ Clause("no_regress", (prev.phase = "initialized" /\ rec.phase = "initialized") => NoRegress(pre, post))
         /\ Clause("stale_is_noop", (prev.phase = "initialized" /\ rec.same_epoch /\ rec.rmver < pre.mver)
                                       => Tables(post) = Tables(pre))
         /\ Clause("duplicate_is_noop", (prev.phase = "initialized" /\ rec.dup) => Tables(post) = Tables(pre))
         /\ Clause("epoch_change_freezes", (prev.phase = "initialized" /\ ~rec.same_epoch)
                                       => (rec.phase = "invalid" /\ Tables(post) = Tables(pre)))
         /\ Clause("frozen", prev.phase = "invalid" => (rec.phase = "invalid" /\ Tables(post) = Tables(pre)))
         /\ Clause("in_order_mirror", rec.clean => (Tables(post) = Tables(rec.post)))
         /\ Sane(rec)
    [] rec.act = "Load" ->
         \* clean_load: the reports of the commits after the snapshot arrived during the load in order, each once,
         \* none missing up to the last one delivered; then the load completes and mirrors that version exactly
         /\ Clause("load_total", rec.clean_load => (rec.res = "ok" /\ rec.phase = "initialized"))
         /\ Clause("load_exact", rec.clean_load => Tables(rec.cpost) = Tables(rec.expect))
         \* no report that arrived during the load (buffered or while the buffer was replayed) is lost: the consumer
         \* ends at least at the highest MdibVersion that arrived for its epoch
         /\ Clause("load_loses_no_arrived_report",
                   (rec.res = "ok" /\ rec.phase = "initialized" /\ SameEpoch(rec.cpost, rec.snap))
                      => rec.cpost.mver >= rec.max_arrived_mver)
         \* a load ends in the epoch of the snapshot it took, whatever was buffered meanwhile
         /\ Clause("load_ends_in_the_epoch_of_its_snapshot", rec.res = "ok" => SameEpoch(rec.cpost, rec.snap))
         /\ Clause("load_not_older", (rec.phase = "initialized" /\ SameEpoch(rec.cpost, rec.snap))
                                        => rec.cpost.mver >= rec.snap.mver)
         /\ Sane(rec)
    [] OTHER ->   \* provider-side actions: nothing is delivered, the consumer does not change
         Clause("consumer_quiet", Tables(rec.cpost) = Tables(prev.cpost) /\ rec.phase = prev.phase)

TraceInit == tid \in 1..Len(Traces) /\ l = 1
TraceNext == /\ l < Len(Traces[tid])
             /\ Step(Traces[tid][l], Traces[tid][l + 1])
             /\ l' = l + 1 /\ tid' = tid
TraceSpec == TraceInit /\ [][TraceNext]_<<tid, l>>
AllConsumed == TLCGet("distinct") = Total
=============================================================================
