SPECIFICATION Spec
CONSTANTS
  Part = "lex"
  Big = FALSE
  TsDense = 50
  TsWin = 10
  Ts2Dense = 20
  DecCoMax = 12
INVARIANT Law
