------------------------------ MODULE TlsTrace ------------------------------
(* Judges the recorded executions of the real sdc11073 code (verif/checks/c19.py) with the  *)
(* operators of Tls.tla.                                                                     *)
(*   configuration traces: record 1 = the configuration, then one record per phase in the    *)
(*   order of Tls!Phases (only "metadata" if no session came about), then an "end" record.   *)
(*   A phase record carries                                                                  *)
(*     adv  every http(s) URL of a party's own server that this party put into a serialised  *)
(*          message (or handed to WS-Discovery): [party, kind, scheme]                       *)
(*     ev   every soap client created, every connect attempt and every request sent, in      *)
(*          order: [party, ev, ctx, out]; ctx names the ssl context given to the client      *)
(*          ("none", "<party>.client", "<party>.server", "foreign")                          *)
(*     srv  own http servers (the real HttpServerThreadBase) that came up: the context the   *)
(*          listening socket was wrapped with and the scheme of base_url                     *)
(*     reached  "ok" if the phase did what it is for, else "fail"                            *)
(*   A record "retry" (after a failed first connect) or "restart" (after "subscribe", the    *)
(*   environment has become the downgrade environment) carries the whole second start_all    *)
(*   of the same consumer object after stop_all; then the "end" record follows.              *)
(*   certloader / soap client traces: one record [c, a] (case and actual).                   *)
(* Clauses that start with "SANITY:" compare the harness with the model (reachability,       *)
(* vacuity); they are machinery failures, never violations of the code.                      *)
EXTENDS Tls, IOUtils

VARIABLES tid, l

Data == JsonDeserialize(IOEnv.TRACE_FILE)
Traces == Data.traces

Clause(name, cond) == IF cond THEN TRUE ELSE PrintT(<<"REJECT", tid, l + 1, name>>)
Clause1(name, cond) == IF cond THEN TRUE ELSE PrintT(<<"REJECT", tid, 1, name>>)

(* ------------------------------------------------------------------ observed consumer mode *)
NextMode(m, e) ==
  IF e.party # "consumer" \/ e.ev # "connect" THEN m
  ELSE CASE m = "init" /\ e.ctx # "none" ->
                 (IF e.out = "ok" THEN "tls" ELSE IF e.out = "ssl" THEN "fallback" ELSE "failed")
         [] m \in {"init", "fallback"} /\ e.ctx = "none" -> (IF e.out = "ok" THEN "plain" ELSE "failed")
         [] OTHER -> m

RECURSIVE ModeBefore(_, _, _)
ModeBefore(m0, evs, i) == IF i = 1 THEN m0 ELSE NextMode(ModeBefore(m0, evs, i - 1), evs[i - 1])
ModeAfter(m0, evs) == ModeBefore(m0, evs, Len(evs) + 1)
\* "fallback" left open at the end of a record (SSL error, no plaintext attempt made): an optional consumer gave up
Settled(m) == IF m = "fallback" THEN "failed" ELSE m

SslErrorBefore(evs, i, party) == \E j \in 1..(i - 1) : evs[j].party = party /\ evs[j].out = "ssl"

(* ------------------------------------------------------------------ property clauses of a phase record *)
AdvOK(c, adv) ==
  \A i \in 1..Len(adv) :
     ReqScheme(c, adv[i].party) = "https" =>
        Clause("advertised_https:" \o adv[i].party \o ":" \o adv[i].kind, adv[i].scheme = "https")

EvName(c, evs, i) ==
  IF evs[i].party = "consumer" /\ c.ctls = "optional" THEN "optional_plaintext_only_after_sslerror"
  ELSE IF SslErrorBefore(evs, i, evs[i].party) /\ evs[i].ctx = "none" THEN "no_plaintext_retry:" \o evs[i].party
  ELSE "connection_uses_client_context:" \o evs[i].party

EvOK(c, m0, evs) ==
  \A i \in 1..Len(evs) :
     Clause(EvName(c, evs, i), evs[i].ctx \in AllowedCtx(c, evs[i].party, ModeBefore(m0, evs, i)))

SrvOK(c, srv) ==
  \A i \in 1..Len(srv) :
     Bound(c, srv[i].party) =>
        Clause("own_server_tls:" \o srv[i].party,
               srv[i].ctx = ServerCtx(srv[i].party) /\ srv[i].scheme = "https")

(* ------------------------------------------------------------------ sanity clauses (harness against model) *)
HasAdv(adv, x) == \E i \in 1..Len(adv) : adv[i].party = x[1] /\ adv[i].kind = x[2]
Active(evs, party) == \E i \in 1..Len(evs) : evs[i].party = party

\* "ok" / "fail" / "any"
ExpReach(c, ph, mAfter, dl) ==
  CASE ph = "metadata" -> IF mAfter \in {"tls", "plain"} THEN "ok" ELSE "fail"
    [] ph \in {"hosted", "subscribe", "probe"} -> "ok"
    [] ph \in {"notification", "operation", "stop"} -> IF dl THEN "ok" ELSE "fail"
    [] OTHER -> IF dl THEN "ok" ELSE "any"

SanityOK(c, rec, mAfter) ==
  LET ph == rec.phase
      dl == Delivers(c, mAfter)
      exp == ExpReach(c, ph, mAfter, dl)
  IN /\ Clause("SANITY:phase_order:" \o ph, pi < NPhases /\ Phases[pi + 1] = ph)
     /\ ph = "metadata" => Clause("SANITY:mode", mAfter = ModeAfterConnect(c))
     /\ ph # "metadata" => Clause("SANITY:mode_stable", mAfter = mode)
     /\ exp # "any" => Clause("SANITY:reached:" \o ph, (rec.reached = "ok") = (exp = "ok"))
     /\ rec.reached = "ok" =>
           \A x \in Advertised(c, ph, dl) : Clause("SANITY:adv_present:" \o x[1] \o ":" \o x[2], HasAdv(rec.adv, x))
     /\ \A p \in Connects(c, ph, dl) : Clause("SANITY:active:" \o ph \o ":" \o p, Active(rec.ev, p))

JudgePhase(c, rec, mAfter) ==
  /\ AdvOK(c, rec.adv)
  /\ EvOK(c, mode, rec.ev)
  /\ SrvOK(c, rec.srv)
  /\ SanityOK(c, rec, mAfter)

\* second life of the consumer object (stop_all + start_all): the whole start_all is one record; the connection mode
\* starts from "init" again and every obligation is the one of the first life (c2: the configuration in the
\* environment of the second life)
JudgeAgain(c, c2, rec, mAfter) ==
  /\ AdvOK(c, rec.adv)
  \* (an optional consumer is not bound by the property; it may remember that it fell back to plaintext)
  /\ EvOK(c, IF c.ctls = "optional" THEN "fallback" ELSE "init", rec.ev)
  /\ SrvOK(c, rec.srv)
  \* (what an optional consumer remembers of its first life is its own business: no expectation)
  /\ c.ctls # "optional" => Clause("SANITY:mode_second_life", mAfter = ModeAfterConnect(c2))
  /\ Clause("SANITY:active:" \o rec.phase, Active(rec.ev, "consumer"))

JudgeEnd(c, rec) ==
  /\ SrvOK(c, rec.srv)
  /\ EvOK(c, mode, rec.ev)
  /\ AdvOK(c, rec.adv)
  /\ Clause("SANITY:complete", round = 1 \/ pi = (IF mode \in {"tls", "plain"} THEN NPhases ELSE 1))
  /\ (c.psrv = "own") => Clause("SANITY:own_server_seen:provider", \E i \in 1..Len(rec.srv) : rec.srv[i].party = "provider")
  /\ (c.csrv = "own" /\ mode \in {"tls", "plain"}) =>
        Clause("SANITY:own_server_seen:consumer", \E i \in 1..Len(rec.srv) : rec.srv[i].party = "consumer")

(* ------------------------------------------------------------------ certloader and soap client records *)
\* a = [client, server: [verify, side, cas], distinct, hs: [mutual, nocert_client, untrusted_client, untrusted_server]]
JudgeCert(k, a) ==
  /\ Clause1("certloader_total", a.exc = "")
  /\ (a.exc = "" /\ CertRequired(k)) =>
       /\ Clause1("client_context_cert_required", a.client.verify = "CERT_REQUIRED" /\ a.client.cas >= 1)
       /\ Clause1("server_context_cert_required", a.server.verify = "CERT_REQUIRED" /\ a.server.cas >= 1)
       /\ Clause1("context_sides", a.client.side = "client" /\ a.server.side = "server" /\ a.distinct)
       \* behaviour of the contexts in an in-memory handshake (no sockets)
       /\ Clause1("mutual_handshake_verifies_both", a.hs.mutual = "ok:both_certs")
       /\ Clause1("server_rejects_client_without_certificate", a.hs.nocert_client = "rejected:server")
       /\ Clause1("server_rejects_untrusted_client", a.hs.untrusted_client = "rejected:server")
       /\ Clause1("client_rejects_untrusted_server", a.hs.untrusted_server = "rejected:client")

JudgeClient(k, a) ==
  /\ Clause1("soapclient_total", a.exc = "")
  /\ a.exc = "" => Clause1("soapclient_scheme_follows_context", a.scheme = ClientScheme(k) /\ a.same_ctx)

\* a = [exc, contacts : Seq([what, tls, ctx, scheme]), attempts]: every connection the provider opened (or tried to open)
\* towards the subscriber's sinks while a report and the SubscriptionEnd were due
JudgeSink(k, a) ==
  /\ Clause1("sink_case_total", a.exc = "")
  /\ a.exc = "" =>
       /\ Clause1("SANITY:sink_was_contacted", a.attempts >= 1)
       /\ Clause1("no_plaintext_to_subscriber_sink:provider",
                  \A i \in 1..Len(a.contacts) : SinkContactOK(a.contacts[i]))

\* a = [exc, events : Seq([ev, netloc_kind, ctx, out])]: what the enforcing consumer did while it started
JudgeSecond(k, a) ==
  /\ Clause1("SANITY:second_location_contacted",
             k.what = "hostile_second" => \E i \in 1..Len(a.events) : a.events[i].second)
  /\ Clause1("no_plaintext_to_second_location:consumer",
             \A i \in 1..Len(a.events) : a.events[i].ctx = ClientCtx("consumer"))

(* ------------------------------------------------------------------ one state per record *)
CaseOf(j) ==
  CASE j.kind = "cfg" -> [kind |-> "cfg", ptls |-> j.ptls, ctls |-> j.ctls, psrv |-> j.psrv, csrv |-> j.csrv,
                          alt |-> j.alt, peer |-> j.peer, mgr |-> j.mgr]
    [] j.kind = "cert" -> [kind |-> "cert", entry |-> j.entry, ca |-> j.ca, cyphers |-> j.cyphers]
    [] j.kind = "client" -> [kind |-> "client", cls |-> j.cls, ctx |-> j.ctx]
    [] j.kind = "sink" -> [kind |-> "sink", mgr |-> j.mgr, notify |-> j.notify, endto |-> j.endto]
    [] j.kind = "second" -> [kind |-> "second", mgr |-> j.mgr, psrv |-> j.psrv, what |-> j.what]

InDomain(c) == CASE c.kind = "cfg" -> c \in Configs
                 [] c.kind = "cert" -> c \in CertCases
                 [] c.kind = "client" -> c \in ClientCases
                 [] c.kind = "sink" -> c \in SinkCases
                 [] c.kind = "second" -> c \in SecondCases

JudgeFirst(c, rec) ==
  /\ Clause1("SANITY:case_in_domain", InDomain(c))
  /\ InDomain(c) => CASE c.kind = "cert" -> JudgeCert(c, rec.a)
                      [] c.kind = "client" -> JudgeClient(c, rec.a)
                      [] c.kind = "sink" -> JudgeSink(c, rec.a)
                      [] c.kind = "second" -> JudgeSecond(c, rec.a)
                      [] OTHER -> TRUE

TraceInit == /\ tid \in 1..Len(Traces)
             /\ l = 1
             /\ cfg = CaseOf(Traces[tid][1].c)
             /\ pi = 0 /\ mode = "init" /\ sub = "none" /\ round = 0
             /\ env = (IF Traces[tid][1].c.kind = "cfg" THEN Traces[tid][1].c.peer ELSE "yes")
             /\ JudgeFirst(CaseOf(Traces[tid][1].c), Traces[tid][1])

TraceNext == /\ l < Len(Traces[tid])
             /\ LET rec == Traces[tid][l + 1]
                    mAfter == Settled(ModeAfter(mode, rec.ev))
                    mAgain == Settled(ModeAfter("init", rec.ev))
                IN CASE rec.phase = "end" ->
                          /\ JudgeEnd(cfg, rec)
                          /\ mode' = mAfter /\ pi' = pi /\ UNCHANGED <<env, round>>
                     [] rec.phase = "retry" ->
                          /\ Clause("SANITY:retry_after_failed_connect", mode = "failed" /\ round = 0)
                          /\ JudgeAgain(cfg, C, rec, mAgain)
                          /\ mode' = mAgain /\ pi' = pi /\ round' = 1 /\ env' = env
                     [] rec.phase = "restart" ->
                          /\ Clause("SANITY:restart_in_session", mode \in {"tls", "plain"} /\ round = 0 /\ pi = 3)
                          /\ JudgeAgain(cfg, [cfg EXCEPT !.peer = "no"], rec, mAgain)
                          /\ mode' = mAgain /\ pi' = pi /\ round' = 1 /\ env' = "no"
                     [] OTHER ->
                          /\ JudgePhase(cfg, rec, mAfter)
                          /\ mode' = mAfter /\ pi' = pi + 1 /\ UNCHANGED <<env, round>>
             /\ l' = l + 1 /\ UNCHANGED <<tid, cfg, sub>>

TraceSpec == TraceInit /\ [][TraceNext]_<<vars, tid, l>>

Total == Data.total
AllConsumed == TLCGet("distinct") = Total
=============================================================================
