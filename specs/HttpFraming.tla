------------------------------ MODULE HttpFraming ------------------------------
(* Reference semantics for property C17 of sdc11073:                          *)
(*   "HTTP body framing and content coding are lossless and honour negotiation" *)
(*                                                                            *)
(* Three constant-free groups of operators:                                   *)
(*   1. chunked transfer coding over real byte values (0..255):               *)
(*      writer Chunked(b, c, style), grammar/decoder Parse(s)                 *)
(*   2. content codings as an abstract codec with damage classes:             *)
(*      ExpectedCoding(case, registered)                                      *)
(*   3. Accept-Encoding negotiation over abstract headers:                    *)
(*      Acceptable(h, e), Allowed(h, enabled), ChoiceOK(h, enabled, chosen)   *)
(* The domains that are enumerated live in HttpFramingDomains.tla, the laws   *)
(* in HttpFramingMC.tla, the operational reader in ChunkReader.tla and the    *)
(* judgement of recorded executions of the real code in HttpFramingTrace.tla. *)
EXTENDS Naturals, Sequences, FiniteSets

Min(a, b) == IF a < b THEN a ELSE b
MinOf(S) == CHOOSE x \in S : \A y \in S : x <= y
MaxOf(S) == CHOOSE x \in S : \A y \in S : x >= y
Rng(s) == {s[i] : i \in DOMAIN s}

\* ------------------------------------------------------------------ bytes
CR == 13
LF == 10
SP == 32
HT == 9
SEMI == 59
MINUS == 45
ZERO == 48
Ws == {CR, LF, SP, HT}

HexChars == <<48, 49, 50, 51, 52, 53, 54, 55, 56, 57, 97, 98, 99, 100, 101, 102>>
IsHex(b) == b \in (48..57) \cup (97..102) \cup (65..70)
HexVal(b) == IF b \in 48..57 THEN b - 48 ELSE IF b \in 97..102 THEN b - 87 ELSE b - 55
Upper(b) == IF b \in 97..102 THEN b - 32 ELSE b

RECURSIVE HexOf(_)
HexOf(k) == IF k < 16 THEN <<HexChars[k + 1]>> ELSE HexOf(k \div 16) \o <<HexChars[(k % 16) + 1]>>

\* number of hex digits of k (closed form, k < 2^31)
HexLen(k) == IF k < 16 THEN 1 ELSE IF k < 256 THEN 2 ELSE IF k < 4096 THEN 3 ELSE IF k < 65536 THEN 4
             ELSE IF k < 1048576 THEN 5 ELSE IF k < 16777216 THEN 6 ELSE IF k < 268435456 THEN 7 ELSE 8

RECURSIVE HexValue(_)
HexValue(d) == IF d = <<>> THEN 0 ELSE 16 * HexValue(SubSeq(d, 1, Len(d) - 1)) + HexVal(d[Len(d)])

\* ------------------------------------------------------------------ bodies
\* "distinct": position is recognisable; "framing": the data imitates chunk framing (CR LF 0 CR LF CR LF 1 ;);
\* "hexish": the data imitates size lines (0 a F - ; SP 1 x)
Patterns == {"distinct", "framing", "hexish"}
FramingCycle == <<13, 10, 48, 13, 10, 13, 10, 49, 59>>
HexishCycle == <<48, 97, 70, 45, 59, 32, 49, 120>>
PatByte(pat, i) == CASE pat = "distinct" -> 128 + ((i - 1) % 128)
                     [] pat = "framing" -> FramingCycle[((i - 1) % 9) + 1]
                     [] pat = "hexish" -> HexishCycle[((i - 1) % 8) + 1]
Body(n, pat) == IF n = 0 THEN <<>> ELSE [i \in 1..n |-> PatByte(pat, i)]

\* ------------------------------------------------------------------ chunk writer (reference)
NumChunks(n, c) == ((n + c - 1) \div c) + 1
\* lengths of the chunks incl. the terminating 0-chunk
ChunkLens(n, c) == [i \in 1..NumChunks(n, c) |-> IF i < NumChunks(n, c) THEN Min(c, n - ((i - 1) * c)) ELSE 0]
\* length of the chunked stream (closed form; used for bodies too large to build in TLC)
FramedLen(n, c) == ((n \div c) * (HexLen(c) + c + 4))
                   + (IF n % c > 0 THEN HexLen(n % c) + (n % c) + 4 ELSE 0) + 5

\* equivalent spellings of a chunk-size line that every HTTP/1.1 reader has to accept
Styles == {"plain", "upper", "lead0", "ext"}
ExtBytes == <<59, 97, 61, 49>>   \* ;a=1
SizeTok(k, style) == CASE style = "plain" -> HexOf(k)
                       [] style = "upper" -> [i \in 1..Len(HexOf(k)) |-> Upper(HexOf(k)[i])]
                       [] style = "lead0" -> <<48>> \o HexOf(k)
                       [] style = "ext" -> HexOf(k) \o ExtBytes

\* concatenation f[lo] \o ... \o f[hi] by halving (recursion depth log2, TLC's stack is small)
RECURSIVE Concat(_, _, _)
Concat(f, lo, hi) == IF lo > hi THEN <<>>
                     ELSE IF lo = hi THEN f[lo]
                     ELSE LET mid == (lo + hi) \div 2 IN Concat(f, lo, mid) \o Concat(f, mid + 1, hi)

\* chunk i of body b: size line, CR LF, data, CR LF (the last one has size 0 and no data)
ChunkFrame(b, c, style, i) ==
  LET k == ChunkLens(Len(b), c)[i]
      from == ((i - 1) * c) + 1
  IN SizeTok(k, style) \o <<CR, LF>> \o (IF k = 0 THEN <<>> ELSE SubSeq(b, from, from + k - 1)) \o <<CR, LF>>

Chunked(b, c, style) ==
  LET m == NumChunks(Len(b), c) IN Concat([i \in 1..m |-> ChunkFrame(b, c, style, i)], 1, m)

\* ------------------------------------------------------------------ chunk grammar / decoder
\* position of the CR of the first CR LF at or after p; 0 if there is none
\* (no recursion: first a window that covers every sane size line, then the rest of the stream)
CrLfAt(s, q) == s[q] = CR /\ s[q + 1] = LF
FindCrLf(s, p) == LET near == {q \in p..Min(Len(s) - 1, p + 15) : CrLfAt(s, q)} IN
                  IF near # {} THEN MinOf(near)
                  ELSE LET far == {q \in (p + 16)..(Len(s) - 1) : CrLfAt(s, q)} IN
                       IF far = {} THEN 0 ELSE MinOf(far)

FirstIdx(s, b) == IF \E i \in 1..Len(s) : s[i] = b THEN MinOf({i \in 1..Len(s) : s[i] = b}) ELSE 0

Strip(t) == LET keep == {i \in 1..Len(t) : t[i] \notin Ws} IN
            IF keep = {} THEN <<>> ELSE SubSeq(t, MinOf(keep), MaxOf(keep))

\* Value of a chunk-size token (the part of the size line before the first ';').
\* strict grammar: 1*HEXDIG.  Sloppy spellings that have exactly one sensible reading are marked `lenient`
\* (surrounding white space, a "0x" prefix, "-0"): a reader may reject them or read them that way.
\* A size with a minus sign and a non-zero value has no reading at all.
SizeOf(tok) ==
  LET core == Strip(tok)
      neg == Len(core) > 0 /\ core[1] = MINUS
      mag == IF neg THEN Tail(core) ELSE core
      pre == Len(mag) > 2 /\ mag[1] = ZERO /\ mag[2] \in {120, 88}
      digs == IF pre THEN SubSeq(mag, 3, Len(mag)) ELSE mag
      allhex == Len(digs) > 0 /\ Len(digs) <= 6 /\ \A i \in 1..Len(digs) : IsHex(digs[i])
      v == IF allhex THEN HexValue(digs) ELSE 0
  IN IF ~allhex THEN [ok |-> FALSE, why |-> "bad_size", val |-> 0, lenient |-> FALSE]
     ELSE IF neg /\ v > 0 THEN [ok |-> FALSE, why |-> "negative_size", val |-> 0, lenient |-> FALSE]
     ELSE [ok |-> TRUE, why |-> "", val |-> v, lenient |-> (neg \/ pre \/ core # tok)]

SizeLineTok(line) == LET semi == FirstIdx(line, SEMI) IN IF semi = 0 THEN line ELSE SubSeq(line, 1, semi - 1)

\* the rest of a stream is a zero chunk-size whose line end was cut off ("0", "00", "0" CR): every data byte has
\* arrived, only the terminator is incomplete
CutLastChunk(rest) == LET t == Strip(SizeLineTok(rest)) IN Len(t) > 0 /\ Len(t) <= 6 /\ \A i \in 1..Len(t) : t[i] = ZERO

\* Decoding state: status "run" (next chunk starts at p), "ok", "err"
PRun(p, acc, len) == [status |-> "run", p |-> p, body |-> acc, lenient |-> len, why |-> "", used |-> 0]
PDone(acc, used, len) == [status |-> "ok", p |-> 0, body |-> acc, lenient |-> len, why |-> "", used |-> used]
PFail(why) == [status |-> "err", p |-> 0, body |-> <<>>, lenient |-> FALSE, why |-> why, used |-> 0]

\* Decode one chunk.  Trailer fields are not modelled (the last chunk must be followed directly by CR LF);
\* bytes after the end of the body are left alone (`used` = bytes consumed).
\* A stream that ends inside the terminator (after the "0" of the last chunk) carries the complete data: a reader
\* may reject it as truncated or return the body (`lenient`).  A stream that ends anywhere earlier is an error.
ParseStep(s, x) ==
  IF x.status # "run" THEN x
  ELSE LET e == FindCrLf(s, x.p) IN
       IF e = 0 THEN (IF CutLastChunk(SubSeq(s, x.p, Len(s))) THEN PDone(x.body, Len(s), TRUE)
                      ELSE PFail("eof_in_size"))
       ELSE LET sz == SizeOf(SizeLineTok(SubSeq(s, x.p, e - 1)))
                d == e + 2
            IN IF ~sz.ok THEN PFail(sz.why)
               ELSE IF d + sz.val - 1 > Len(s) THEN PFail("eof_in_data")
               ELSE IF d + sz.val + 1 > Len(s)
                    THEN (IF sz.val = 0 THEN PDone(x.body, Len(s), TRUE) ELSE PFail("eof_in_crlf"))
               ELSE IF ~(s[d + sz.val] = CR /\ s[d + sz.val + 1] = LF) THEN PFail("no_crlf")
               ELSE IF sz.val = 0 THEN PDone(x.body, d + 1, x.lenient \/ sz.lenient)
               ELSE PRun(d + sz.val + 2, x.body \o SubSeq(s, d, d + sz.val - 1), x.lenient \/ sz.lenient)

\* k-fold application of ParseStep by halving (recursion depth log2 k; finished states are absorbing)
RECURSIVE ParseIter(_, _, _)
ParseIter(s, x, k) == IF x.status # "run" THEN x
                      ELSE IF k <= 1 THEN ParseStep(s, x)
                      ELSE ParseIter(s, ParseIter(s, x, k \div 2), k - (k \div 2))

\* every chunk takes at least 5 bytes, so Len \div 5 + 1 steps always reach "ok" or "err"
Parse(s) == LET r == ParseIter(s, PRun(1, <<>>, FALSE), (Len(s) \div 5) + 1) IN
            [ok |-> r.status = "ok", finished |-> r.status # "run", why |-> r.why, body |-> r.body,
             used |-> r.used, lenient |-> r.lenient]

\* the stream is exactly one strictly valid chunked body
ValidChunked(s) == LET P == Parse(s) IN P.ok /\ ~P.lenient /\ P.used = Len(s)

\* RFC 7230 3.3.2 / 3.3.3: a message must not carry both "Transfer-Encoding: chunked" and Content-Length, and a
\* message with a body needs one of them (te, cl: header present; len: length of the framed body)
FramingHeadersOK(te, cl, len) == ~(te /\ cl) /\ (te \/ cl \/ len = 0)

\* ------------------------------------------------------------------ content codings (abstract codec)
\* A coded message is [enc: the coding the sender applied, label: the Content-Encoding it declared,
\* damage: what happened to the coded bytes].  `registered` is the set of coding names the receiver knows.
FamilyOf(name) == IF name \in {"lz4", "x-lz4"} THEN "lz4" ELSE name
\* whether a coded message of this family carries a checksum over its content, as produced by the sender:
\* gzip always (CRC32 + ISIZE); lz4 frame format only when the writer asks for it - the statement demands that
\* corruption is rejected, so the model says TRUE for every family
Checksummed(fam) == TRUE
Structural == {"trunc", "empty", "magic", "plain", "garbage"}
Damages == {"none", "flip", "trailing"} \cup Structural

\* "same": must return exactly the original body; "reject": must not return any body;
\* "reject_or_same": must not return a different body; "free": anything that terminates
ExpectedCoding(cs, registered) ==
  IF cs.label \notin registered THEN "reject"
  ELSE IF FamilyOf(cs.label) # FamilyOf(cs.enc) THEN "reject"
  ELSE IF cs.damage = "none" THEN "same"
  ELSE IF cs.damage \in Structural THEN "reject"
  ELSE IF cs.damage = "flip" THEN (IF Checksummed(FamilyOf(cs.enc)) THEN "reject_or_same" ELSE "free")
  ELSE "reject_or_same"   \* trailing bytes after a complete coded message: ignoring them is no misinterpretation

CodingOutcomeOK(expected, actual) ==
  CASE expected = "same" -> actual = "same"
    [] expected = "reject" -> actual = "reject"
    [] expected = "reject_or_same" -> actual \in {"reject", "same"}
    [] OTHER -> actual \in {"reject", "same", "other"}

\* ------------------------------------------------------------------ Accept-Encoding negotiation
\* abstract header: sequence of entries [tok, q]; tok is a coding name, "*" or "identity";
\* q classes: absent (= 1), zero (0, 0.0, 0.000), half (0 < q < 1), one, malformed (sloppy: any reading allowed)
QClasses == {"absent", "zero", "half", "one", "malformed"}
Positive(q) == q \in {"absent", "half", "one", "malformed"}
Explicit(h, e) == {i \in DOMAIN h : h[i].tok = e}
\* RFC 7231 5.3.4: an explicitly listed coding has the listed quality (contradictory duplicates: any of them);
\* a coding that is not listed has the quality of "*", and without "*" it is not acceptable.
\* No header, an empty header: nothing was declared acceptable.
Acceptable(h, e) == IF Explicit(h, e) # {} THEN \E i \in Explicit(h, e) : Positive(h[i].q)
                    ELSE \E i \in DOMAIN h : h[i].tok = "*" /\ Positive(h[i].q)
Allowed(h, enabled) == {e \in enabled : Acceptable(h, e)}
\* sending no coding is always fine
ChoiceOK(h, enabled, chosen) == chosen = "none" \/ chosen \in Allowed(h, enabled)
WhyNot(h, enabled, chosen) ==
  IF chosen \notin enabled THEN "not_enabled"
  ELSE IF Explicit(h, chosen) # {} THEN "explicit_q0"
  ELSE IF \E i \in DOMAIN h : h[i].tok = "*" THEN "wildcard_q0"
  ELSE "not_listed"
=============================================================================
