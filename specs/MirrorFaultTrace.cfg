SPECIFICATION TraceSpec
POSTCONDITION AllConsumed
