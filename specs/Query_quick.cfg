SPECIFICATION Spec
CONSTANTS
  ReqHandles <- QuickReqHandles
  MaxLen = 3
  N1 = {0, 2}
  N2 = {1}
  S3 = {TRUE, FALSE}
  StoreIds <- QuickStoreIds
  FRefs <- QuickFRefs
  FVers <- QuickFVers
  FLangs <- QuickFLangs
  FWidths <- QuickFWidths
  FLines <- QuickFLines
INVARIANT LawH
INVARIANT LawS
INVARIANT LawT
CONSTRAINT EmitCase
