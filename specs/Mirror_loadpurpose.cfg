SPECIFICATION Spec
CONSTANTS
  Hs <- PurposeHs
  Dyn <- McDyn
  MaxCommits = 3
  MaxDeliver = 4
  MaxEpoch = 1
VIEW view
CONSTRAINT EmitLoadPurpose
CHECK_DEADLOCK FALSE
