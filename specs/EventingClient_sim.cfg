SPECIFICATION Spec
CONSTANTS
  Subs <- McSubs
  ReqVals = {1, 2, 3}
  MaxDur = 2
  MaxSteps = 12
CONSTRAINT Emit
CHECK_DEADLOCK FALSE
