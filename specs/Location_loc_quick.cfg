SPECIFICATION SpecLoc
CONSTANTS
  Classes <- QuickClasses
  Shapes = {"solo", "mid", "rot"}
  AbsentModes = {"none"}
  Schemes <- AllSchemes
  Auths <- AllAuths
  Frags <- AllFrags
INVARIANT RoundTripLaw
INVARIANT WidenLaw
INVARIANT ChangeLaw
INVARIANT PresenceLaw
CONSTRAINT EmitLoc
