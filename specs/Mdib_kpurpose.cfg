SPECIFICATION Spec
CONSTANTS
  H <- KpH
  CH <- McCH
  Kind <- KpKind
  InitParent <- KpInitParent
  Parents <- KpParents
  CtxOf <- McCtxOf
  Removable = {}
  OtherMds <- McOtherMds
  BeginKinds <- AllKinds
  KeepH <- KpH
  TrackH = "none"
  Tok = {1}
  MaxTx = 2
  MaxOps = 1
VIEW view
CONSTRAINT EmitKPurpose
CHECK_DEADLOCK FALSE
