SPECIFICATION Spec
CONSTANTS
  MaxN = 64
  MaxC = 17
  MutN = 6
  MutC = 3
  ShortLen = 6
  MaxEntries = 3
  Registered = {"gzip", "x-lz4", "lz4"}
  StreamDomain = "tiny"
INVARIANT ReadBound
INVARIANT TypeOK
PROPERTY Terminates
