------------------------------ MODULE Location ------------------------------
(* C16 - location scopes round-trip; location filtering tolerates foreign scopes.        *)
(*                                                                                       *)
(* Reference semantics of the SDC location scope ("sdc.ctxt.loc:/<root>/<ext>?<query>")  *)
(* over texts that are sequences of Unicode code points:                                 *)
(*   Scope(l, v)   rendering of a location (percent-encoding variant v)                  *)
(*   Parse(s, p)   generic URI split + query decoding (p: "+" in the query is a space)   *)
(*   Inside(a, b)  a (published) lies inside b (filter location)                         *)
(* The EMPTY TEXT IS THE ABSENT ELEMENT (acceptance decision: '' and None are the same). *)
(* Three enumerated domains (Init-only behaviours, one state per case):                  *)
(*   LocCases      64 presence patterns x value classes x shapes x absent modes          *)
(*   ForeignCases  scheme x authority x path shape x query class x fragment              *)
(*   IdentCases    the Identification shapes a provider can put into its own state       *)
(* Every state prints one CASE line (spec -> code); the laws of the property are         *)
(* invariants of the reference itself.                                                   *)
EXTENDS Naturals, Sequences, FiniteSets, TLC, Json

CONSTANTS Classes,        \* value classes enumerated (subset of DOMAIN ClassChars)
          Shapes,         \* subset of {"solo", "mid", "rot"}
          AbsentModes,    \* subset of {"none", "empty"}: how the harness passes an absent element
          Schemes, Auths, Frags   \* bounds of the foreign domain

VARIABLES case,   \* the abstract case (a record of class names / small numbers)
          loc     \* its location (derived once; AllAbsent where the case has none)

(* ------------------------------------------------------------------ generic text *)
RECURSIVE CatFrom(_, _)
CatFrom(ss, i) == IF i > Len(ss) THEN <<>> ELSE ss[i] \o CatFrom(ss, i + 1)
\* ("\o <<>>" turns a lazily applied function constructor into an evaluated tuple)
Cat(ss) == CatFrom(ss \o <<>>, 1)

Join(ss, sep) == Cat([i \in 1..Len(ss) |-> IF i = 1 THEN ss[i] ELSE sep \o ss[i]])

MinOr0(I) == IF I = {} THEN 0 ELSE CHOOSE i \in I : \A j \in I : i <= j
Find(s, c) == MinOr0({i \in 1..Len(s) : s[i] = c})       \* index of the first c in s, 0 if there is none

\* (intermediate results are passed on as operator arguments instead of LET chains: TLC may evaluate a LET
\* definition again at every use)
RECURSIVE Split(_, _)
SplitAt(s, c, i) == IF i = 0 THEN <<s>> ELSE <<SubSeq(s, 1, i - 1)>> \o Split(SubSeq(s, i + 1, Len(s)), c)
Split(s, c) == SplitAt(s, c, Find(s, c))      \* like str.split: Split("", c) = <<"">>

SetMax(S) == CHOOSE x \in S : \A y \in S : y <= x

Upper == 65..90
LowerC == 97..122
Digit == 48..57
Lower(s) == [i \in 1..Len(s) |-> IF s[i] \in Upper THEN s[i] + 32 ELSE s[i]]
SwapCase(s) == [i \in 1..Len(s) |-> IF s[i] \in Upper THEN s[i] + 32
                                    ELSE IF s[i] \in LowerC THEN s[i] - 32 ELSE s[i]]

(* ------------------------------------------------------------------ UTF-8 and percent-encoding (RFC 3986 2.1-2.3) *)
Utf8(c) == IF c < 128 THEN <<c>>
           ELSE IF c < 2048 THEN <<192 + c \div 64, 128 + (c % 64)>>
           ELSE IF c < 65536 THEN <<224 + c \div 4096, 128 + ((c \div 64) % 64), 128 + (c % 64)>>
           ELSE <<240 + c \div 262144, 128 + ((c \div 4096) % 64), 128 + ((c \div 64) % 64), 128 + (c % 64)>>

Unreserved == Upper \cup LowerC \cup Digit \cup {45, 46, 95, 126}     \* ALPHA DIGIT - . _ ~

Hex(n, lower) == IF n < 10 THEN 48 + n ELSE (IF lower THEN 87 ELSE 55) + n
HexVal(c) == IF c \in Digit THEN c - 48
             ELSE IF c \in 65..70 THEN c - 55
             ELSE IF c \in 97..102 THEN c - 87 ELSE 99
EncByte(b, lower) == <<37, Hex(b \div 16, lower), Hex(b % 16, lower)>>
EncBytes(u, lower) == Cat([i \in 1..Len(u) |-> EncByte(u[i], lower)])
EncChar(c, lower) == IF c \in Unreserved THEN <<c>> ELSE EncBytes(Utf8(c), lower)
Enc(s, lower) == Cat([i \in 1..Len(s) |-> EncChar(s[i], lower)])
\* application/x-www-form-urlencoded flavour: a space is written "+"
EncForm(s, lower) == Cat([i \in 1..Len(s) |-> IF s[i] = 32 THEN <<43>> ELSE EncChar(s[i], lower)])

RECURSIVE BytesFrom(_, _, _)
BytesFrom(s, plus, i) ==
  IF i > Len(s) THEN <<>>
  ELSE IF s[i] = 37 /\ Len(s) >= i + 2 /\ HexVal(s[i + 1]) < 16 /\ HexVal(s[i + 2]) < 16
       THEN <<HexVal(s[i + 1]) * 16 + HexVal(s[i + 2])>> \o BytesFrom(s, plus, i + 3)
  ELSE IF s[i] = 43 /\ plus THEN <<32>> \o BytesFrom(s, plus, i + 1)
  ELSE Utf8(s[i]) \o BytesFrom(s, plus, i + 1)
ToBytes(s, plus) == BytesFrom(s, plus, 1)     \* an invalid escape stays literal

Cont(b) == b \in 128..191
RECURSIVE Utf8From(_, _)
Utf8From(b, i) ==
  IF i > Len(b) THEN <<>>
  ELSE LET h == b[i]
           n == Len(b) - i + 1 IN
    IF h < 128 THEN <<h>> \o Utf8From(b, i + 1)
    ELSE IF h \in 194..223 /\ n >= 2 /\ Cont(b[i + 1])
         THEN <<(h - 192) * 64 + (b[i + 1] - 128)>> \o Utf8From(b, i + 2)
    ELSE IF h \in 224..239 /\ n >= 3 /\ Cont(b[i + 1]) /\ Cont(b[i + 2])
         THEN <<(h - 224) * 4096 + (b[i + 1] - 128) * 64 + (b[i + 2] - 128)>> \o Utf8From(b, i + 3)
    ELSE IF h \in 240..244 /\ n >= 4 /\ Cont(b[i + 1]) /\ Cont(b[i + 2]) /\ Cont(b[i + 3])
         THEN <<(h - 240) * 262144 + (b[i + 1] - 128) * 4096 + (b[i + 2] - 128) * 64 + (b[i + 3] - 128)>>
              \o Utf8From(b, i + 4)
    ELSE <<65533>> \o Utf8From(b, i + 1)          \* malformed: replacement character
FromUtf8(b) == Utf8From(b, 1)
Dec(s, plus) == FromUtf8(ToBytes(s, plus))

(* ------------------------------------------------------------------ locations *)
Elements == <<"fac", "bldng", "flr", "poc", "rm", "bed">>      \* hierarchy order
ElemSet == {Elements[i] : i \in 1..6}
KeyCP == [fac |-> <<102, 97, 99>>, bldng |-> <<98, 108, 100, 110, 103>>, flr |-> <<102, 108, 114>>,
          poc |-> <<112, 111, 99>>, rm |-> <<114, 109>>, bed |-> <<98, 101, 100>>]
SchemeCP == <<115, 100, 99, 46, 99, 116, 120, 116, 46, 108, 111, 99>>                       \* sdc.ctxt.loc
RootCP == <<115, 100, 99, 46, 99, 116, 120, 116, 46, 108, 111, 99, 46, 100, 101, 116, 97, 105, 108>>  \* sdc.ctxt.loc.detail
AllAbsent == [e \in ElemSet |-> <<>>]

Bit(m, i) == ((m \div (2 ^ (i - 1))) % 2) = 1
MaskSets == [m \in 0..63 |-> {Elements[i] : i \in {j \in 1..6 : Bit(m, j)}}]
MaskSet(m) == MaskSets[m]
Widen(l, S) == [e \in ElemSet |-> IF e \in S THEN <<>> ELSE l[e]]

\* a (the location a device published) is inside b (the location searched for)
Inside(a, b) == \A e \in ElemSet : b[e] = <<>> \/ b[e] = a[e]

(* rendering; v = [plus : BOOLEAN (query written form-encoded), lower : BOOLEAN (hex digits a-f)] *)
Variants == [plus : BOOLEAN, lower : BOOLEAN]
Ext(l, lower) == Enc(Join([i \in 1..6 |-> Enc(l[Elements[i]], lower)], <<47>>), lower)   \* GLUE 9.4.1.1 fallback
PresentSeq(l) == SelectSeq(Elements, LAMBDA e : l[e] # <<>>)
QPair(l, e, v) == KeyCP[e] \o <<61>> \o (IF v.plus THEN EncForm(l[e], v.lower) ELSE Enc(l[e], v.lower))
QueryOf(l, v, ps) == Join([i \in 1..Len(ps) |-> QPair(l, ps[i], v)], <<38>>)
Query(l, v) == QueryOf(l, v, PresentSeq(l))
WithQuery(head, q) == head \o (IF q = <<>> THEN <<>> ELSE <<63>> \o q)
Scope(l, v) == WithQuery(SchemeCP \o <<58, 47>> \o Enc(RootCP, v.lower) \o <<47>> \o Ext(l, v.lower), Query(l, v))

(* parsing: RFC 3986 appendix B split, then the location reading of path and query *)
SchemeChars == Upper \cup LowerC \cup Digit \cup {43, 45, 46}
HasScheme(s, colon) == colon > 1 /\ s[1] \in (Upper \cup LowerC) /\ \A i \in 1..(colon - 1) : s[i] \in SchemeChars
UrlPathB(a, sl) == IF sl = 0 THEN <<>> ELSE SubSeq(a, sl, Len(a))
UrlPathA(a) == UrlPathB(a, Find(a, 47))
UrlPath(hier, hasAuth) == IF ~hasAuth THEN hier ELSE UrlPathA(SubSeq(hier, 3, Len(hier)))
UrlE(scheme, hier, query, hasAuth) == [scheme |-> scheme, auth |-> hasAuth, path |-> UrlPath(hier, hasAuth), query |-> query]
UrlD(scheme, r2, qm) == IF qm = 0 THEN UrlE(scheme, r2, <<>>, Len(r2) >= 2 /\ r2[1] = 47 /\ r2[2] = 47)
                        ELSE UrlE(scheme, SubSeq(r2, 1, qm - 1), SubSeq(r2, qm + 1, Len(r2)),
                                  qm >= 3 /\ r2[1] = 47 /\ r2[2] = 47)
UrlC(scheme, r2) == UrlD(scheme, r2, Find(r2, 63))
UrlB(scheme, r1, hash) == UrlC(scheme, IF hash = 0 THEN r1 ELSE SubSeq(r1, 1, hash - 1))      \* fragment removed
UrlA(s, colon, hasScheme) == IF hasScheme
                             THEN UrlB(Lower(SubSeq(s, 1, colon - 1)), SubSeq(s, colon + 1, Len(s)),
                                       Find(SubSeq(s, colon + 1, Len(s)), 35))
                             ELSE UrlB(<<>>, s, Find(s, 35))
SplitUrlAt(s, colon) == UrlA(s, colon, HasScheme(s, colon))
SplitUrl(s) == SplitUrlAt(s, Find(s, 58))     \* [scheme (lower case), auth (has "//authority"), path, query]

QPairAt(p, plus, i) == IF i = 0 THEN [ok |-> FALSE, k |-> <<>>, v |-> <<>>]
                       ELSE [ok |-> TRUE, k |-> Dec(SubSeq(p, 1, i - 1), plus), v |-> Dec(SubSeq(p, i + 1, Len(p)), plus)]
QPairs(pieces, plus) == [i \in 1..Len(pieces) |-> QPairAt(pieces[i], plus, Find(pieces[i], 61))] \o <<>>
\* a pair without "=" or with an empty value says nothing; of repeated keys the last one counts
LastOf(pairs, idx) == IF idx = {} THEN <<>> ELSE pairs[SetMax(idx)].v
ValueOf(pairs, e) == LastOf(pairs, {i \in 1..Len(pairs) : pairs[i].ok /\ pairs[i].k = KeyCP[e] /\ pairs[i].v # <<>>})
LocOfPairs(pairs) == [e \in ElemSet |-> ValueOf(pairs, e)]
QueryLoc(q, plus) == LocOfPairs(QPairs(Split(q, 38), plus))

\* kind: "other" (not a location scope), "malformed" (location scheme, not /root/ext), "loc"
ParseSegs(u, segs, plus) ==
  IF u.auth \/ Len(segs) # 3 \/ segs[1] # <<>> THEN [kind |-> "malformed", root |-> <<>>, loc |-> AllAbsent]
  ELSE [kind |-> "loc", root |-> Dec(segs[2], FALSE), loc |-> QueryLoc(u.query, plus)]
ParseUrl(u, plus) == IF u.scheme # SchemeCP THEN [kind |-> "other", root |-> <<>>, loc |-> AllAbsent]
                     ELSE ParseSegs(u, Split(u.path, 47), plus)
Parse(s, plus) == ParseUrl(SplitUrl(s), plus)

IsLoc(p, l) == p.kind = "loc" /\ p.root = RootCP /\ p.loc = l

(* ------------------------------------------------------------------ domain 1: locations *)
ClassChars == [
  alnum |-> <<81, 55>>, marks |-> <<45, 46, 95, 126>>,
  colon |-> <<58>>, slash |-> <<47>>, qmark |-> <<63>>, hash |-> <<35>>, lbrack |-> <<91>>, rbrack |-> <<93>>,
  at |-> <<64>>, excl |-> <<33>>, dollar |-> <<36>>, amp |-> <<38>>, apos |-> <<39>>, lpar |-> <<40>>,
  rpar |-> <<41>>, star |-> <<42>>, plus |-> <<43>>, comma |-> <<44>>, semi |-> <<59>>, eq |-> <<61>>,
  pct |-> <<37>>, pctseq |-> <<37, 52, 49>>, pct2f |-> <<37, 50, 102>>,
  space |-> <<32>>, tab |-> <<9>>, lf |-> <<10>>,
  unsafe |-> <<34, 60, 62, 92, 94, 96, 123, 124, 125>>,
  latin |-> <<233>>, bmp |-> <<8364, 20013>>, nonbmp |-> <<128512>>,
  \* text that is not in a Unicode normal form: letter + combining mark, a compatibility singleton (OHM SIGN) - the
  \* location is these code points, nothing may "normalise" it on the way
  decomposed |-> <<117, 776, 97>>, singleton |-> <<8486, 8491>>,
  mixed |-> <<32, 43, 37, 47, 38, 61, 63, 35, 233, 128512, 32>>]
ClassSeq == <<"alnum", "marks", "colon", "slash", "qmark", "hash", "lbrack", "rbrack", "at", "excl", "dollar",
              "amp", "apos", "lpar", "rpar", "star", "plus", "comma", "semi", "eq", "pct", "pctseq", "pct2f",
              "space", "tab", "lf", "unsafe", "latin", "bmp", "nonbmp", "decomposed", "singleton", "mixed">>
AllClasses == {ClassSeq[i] : i \in 1..Len(ClassSeq)}
QuickClasses == {"alnum", "slash", "amp", "plus", "space", "decomposed", "mixed"}
ClassIdx(c) == CHOOSE i \in 1..Len(ClassSeq) : ClassSeq[i] = c
RotClass(c, i) == ClassSeq[((ClassIdx(c) + i - 1) % Len(ClassSeq)) + 1]

\* absent = "empty" (the harness passes '' instead of None) is enumerated for the "mid" shape only
LocCases == {c \in [kind : {"loc"}, pat : 0..63, cls : Classes, shape : Shapes, absent : AbsentModes] :
               c.absent = "empty" => c.shape = "mid"}

Value(c, i) == IF ~Bit(c.pat, i) THEN <<>>
               ELSE CASE c.shape = "solo" -> ClassChars[c.cls]
                      [] c.shape = "mid" -> <<96 + i>> \o ClassChars[c.cls] \o <<122>>
                      [] c.shape = "rot" -> ClassChars[RotClass(c.cls, i)]
ElemIdx(e) == CHOOSE i \in 1..6 : Elements[i] = e
LocOf(c) == [e \in ElemSet |-> Value(c, ElemIdx(e))]

(* the filter locations a published location is tested against *)
NW == 64     \* widenings: every subset of elements set to absent
NC == 96     \* changes: element i (6) x other value k (4) x surrounding mask j (4)
Other(x, k) == CASE k = 1 -> x \o <<120>>
                 [] k = 2 -> IF x = <<90, 90>> THEN <<90>> ELSE <<90, 90>>
                 [] k = 3 -> IF SwapCase(x) # x THEN SwapCase(x) ELSE <<120>> \o x
                 [] k = 4 -> IF Len(x) >= 2 THEN SubSeq(x, 1, Len(x) - 1) ELSE x \o <<113>>
ChangeMask(i, j) == CASE j = 1 -> 0
                      [] j = 2 -> 63 - 2 ^ (i - 1)
                      [] j = 3 -> 2 ^ (i - 1) - 1
                      [] j = 4 -> 64 - 2 ^ i
ChgI(n) == (n - 1) \div 16 + 1
ChgK(n) == (((n - 1) \div 4) % 4) + 1
ChgJ(n) == ((n - 1) % 4) + 1
WidenQ(l, n) == Widen(l, MaskSet(n - 1))
ChangeQ(l, n) == LET e == Elements[ChgI(n)] IN
                 [Widen(l, MaskSet(ChangeMask(ChgI(n), ChgJ(n))) \ {e}) EXCEPT ![e] = Other(l[e], ChgK(n))]
(* a neighbourhood: the device itself and sibling devices that differ from it in ONE specified element (another value, *)
(* or the same value in the other letter case); every member is used as the published location AND as the filter       *)
(* location over the scopes of the whole neighbourhood (one service per member, absent element: sibling = the device)   *)
NP == 13
PopLoc(l, s) == IF s = 1 THEN l
                ELSE LET i == (s - 2) \div 2 + 1
                         k == IF (s - 2) % 2 = 0 THEN 1 ELSE 3
                         e == Elements[i]
                     IN IF l[e] = <<>> THEN l ELSE [l EXCEPT ![e] = Other(l[e], k)]
\* plan as data for the harness: <<mask, element index, other-value index>>
ChangePlan == [n \in 1..NC |-> <<ChangeMask(ChgI(n), ChgJ(n)), ChgI(n), ChgK(n)>>]
Others(l) == [i \in 1..6 |-> [k \in 1..4 |-> Other(l[Elements[i]], k)]]

RefVariants == {v \in Variants : ~v.plus}     \* renderings every URI reader must understand
LocPayload(c, l) ==
  [c |-> c, loc |-> l, others |-> Others(l),
   refs |-> [lower |-> Scope(l, [plus |-> FALSE, lower |-> TRUE]), upper |-> Scope(l, [plus |-> FALSE, lower |-> FALSE])]]

(* laws of the reference (checked by TLC over the whole domain) *)
RoundTripLaw == \A v \in Variants : LET s == Scope(loc, v) IN
                                     /\ IsLoc(Parse(s, TRUE), loc)
                                     /\ (~v.plus => IsLoc(Parse(s, FALSE), loc))
                                     \* the reference scope is plain ASCII without blanks or control characters
                                     /\ {s[i] : i \in 1..Len(s)} \subseteq 33..126
WidenLaw == \A n \in 1..NW : Inside(loc, WidenQ(loc, n))
ChangeLaw == \A n \in 1..NC : ~Inside(loc, ChangeQ(loc, n))
                /\ \A s, t \in 1..NP : Inside(PopLoc(loc, t), PopLoc(loc, s)) = (PopLoc(loc, t) = PopLoc(loc, s))
PresenceLaw == \A i \in 1..6 : (loc[Elements[i]] # <<>>) = Bit(case.pat, i)

(* ------------------------------------------------------------------ domain 2: foreign scopes *)
SchemeText == [loc |-> SchemeCP,
               upper |-> <<83, 68, 67, 46, 67, 84, 88, 84, 46, 76, 79, 67>>,
               opr |-> <<115, 100, 99, 46, 99, 116, 120, 116, 46, 111, 112, 114>>,
               pkp |-> <<115, 100, 99, 46, 109, 100, 115, 46, 112, 107, 112>>,
               http |-> <<104, 116, 116, 112>>,
               digit |-> <<49, 120>>,          \* "1x:" is not a scheme
               colon |-> <<>>,                 \* ":" first
               none |-> <<>>]                  \* no "scheme:" part at all
AllSchemes == DOMAIN SchemeText
AuthText == [none |-> <<>>, host |-> <<47, 47, 104, 111, 115, 116>>, empty |-> <<47, 47>>,
             badv6 |-> <<47, 47, 91, 120>>]     \* "//[x": unbalanced IPv6 bracket
AllAuths == DOMAIN AuthText
PathSegs == <<RootCP, <<101, 120, 116>>, <<109, 111, 114, 101>>, <<109, 111, 114, 101>>, <<120>>>>
PathText == [p0 |-> <<>>,
             p1 |-> <<47>> \o Join(SubSeq(PathSegs, 1, 1), <<47>>),
             p2 |-> <<47>> \o Join(SubSeq(PathSegs, 1, 2), <<47>>),        \* the well-formed /root/ext
             p3 |-> <<47>> \o Join(SubSeq(PathSegs, 1, 3), <<47>>),
             p4 |-> <<47>> \o Join(SubSeq(PathSegs, 1, 4), <<47>>),
             p5 |-> <<47>> \o Join(SubSeq(PathSegs, 1, 5), <<47>>),
             slash |-> <<47>>,
             rel2 |-> Join(SubSeq(PathSegs, 1, 2), <<47>>),
             rel3 |-> <<120, 47>> \o Join(SubSeq(PathSegs, 1, 2), <<47>>),
             trail |-> <<47>> \o Join(SubSeq(PathSegs, 1, 2), <<47>>) \o <<47>>,
             dbl |-> <<47>> \o RootCP \o <<47, 47, 101, 120, 116>>]
Paths == DOMAIN PathText
QueryText == [
  none |-> <<>>, empty |-> <<>>,
  inside |-> <<102, 97, 99, 61, 70, 38, 112, 111, 99, 61, 80, 38, 98, 101, 100, 61, 66, 49>>,       \* fac=F&poc=P&bed=B1
  outside |-> <<102, 97, 99, 61, 71, 38, 112, 111, 99, 61, 80>>,                                   \* fac=G&poc=P
  unknown |-> <<102, 97, 99, 61, 70, 38, 112, 111, 99, 61, 80, 38, 122, 122, 61, 49, 38, 114, 111, 111, 116, 61,
                101, 118, 105, 108>>,                                                              \* fac=F&poc=P&zz=1&root=evil
  noeq |-> <<102, 97, 99>>,                                                                        \* fac
  noeq2 |-> <<102, 97, 99, 61, 70, 38, 112, 111, 99>>,                                             \* fac=F&poc
  repeat |-> <<102, 97, 99, 61, 70, 38, 102, 97, 99, 61, 71>>,                                     \* fac=F&fac=G
  badpct |-> <<102, 97, 99, 61, 37, 90, 90, 38, 112, 111, 99, 61, 37>>,                            \* fac=%ZZ&poc=%
  badutf |-> <<102, 97, 99, 61, 37, 70, 70, 37, 70, 69, 38, 112, 111, 99, 61, 80>>,                \* fac=%FF%FE&poc=P
  amps |-> <<38, 38, 102, 97, 99, 61, 70, 38, 38, 112, 111, 99, 61, 80, 38>>,                      \* &&fac=F&&poc=P&
  eqonly |-> <<61>>,                                                                               \* =
  semi |-> <<102, 97, 99, 61, 70, 59, 112, 111, 99, 61, 80>>,                                      \* fac=F;poc=P
  rawspace |-> <<102, 97, 99, 61, 70, 32, 71>>,                                                    \* fac=F G
  rawuni |-> <<102, 97, 99, 61, 233, 128512>>,                                                     \* fac= e-acute, emoji (raw)
  emptyval |-> <<102, 97, 99, 61, 38, 112, 111, 99, 61, 80>>,                                      \* fac=&poc=P
  dupeq |-> <<102, 97, 99, 61, 70, 61, 71>>]                                                       \* fac=F=G
Queries == DOMAIN QueryText
FragText == [no |-> <<>>, plain |-> <<35, 102, 114, 97, 103>>, tricky |-> <<35, 97, 47, 98, 63, 99, 61, 100>>]
AllFrags == DOMAIN FragText

ForeignCases == [kind : {"foreign"}, scheme : Schemes, auth : Auths, path : Paths, query : Queries, frag : Frags]

Render(c) == (IF c.scheme = "none" THEN <<>> ELSE SchemeText[c.scheme] \o <<58>>)
             \o AuthText[c.auth] \o PathText[c.path]
             \o (IF c.query = "none" THEN <<>> ELSE <<63>> \o QueryText[c.query])
             \o FragText[c.frag]

\* the location searched for and the location of the well-behaved neighbour device in every foreign case
Q0 == [AllAbsent EXCEPT !["fac"] = <<70>>, !["poc"] = <<80>>]
Good == [AllAbsent EXCEPT !["fac"] = <<70>>, !["bldng"] = <<66>>, !["poc"] = <<80>>, !["bed"] = <<66, 49>>]
GoodScope == Scope(Good, [plus |-> FALSE, lower |-> FALSE])

\* foreign scopes whose verdict the statement fixes: well-formed location scopes
Judged(c) == c.scheme = "loc" /\ c.auth = "none" /\ c.path = "p2" /\ c.query \in {"inside", "outside", "unknown"}
ForeignInside(c) == LET p == Parse(Render(c), TRUE) IN p.kind = "loc" /\ p.root = RootCP /\ Inside(p.loc, Q0)

ForeignPayload(c) == [c |-> c, scope |-> Render(c), good |-> GoodScope, q |-> Q0]

\* laws: the reference parser is total on the whole foreign domain and classifies it as designed
ForeignLaw == LET p == Parse(Render(case), TRUE) IN
  /\ p.kind \in {"other", "malformed", "loc"}
  /\ (case.scheme \notin {"loc", "upper"}) => p.kind = "other"
  /\ (case.scheme = "loc" /\ case.auth = "none" /\ case.path \in {"p0", "p1", "p3", "p4", "p5", "slash", "rel2", "trail", "dbl"})
        => p.kind = "malformed"
  /\ Judged(case) => (p.kind = "loc" /\ ForeignInside(case) = (case.query # "outside"))
GoodLaw == IsLoc(Parse(GoodScope, TRUE), Good) /\ Inside(Good, Q0)

(* ------------------------------------------------------------------ domain 3: identifications of the own state *)
\* fallback: what update_from_sdc_location sets; the others are set by the application afterwards
IdClasses == {"fallback", "noext", "defaultroot_noext", "noroot", "two", "extslash"}
IdentCases == [kind : {"ident"}, id : IdClasses, pat : {1, 9, 41, 63}]
IdentLoc(c) == LocOf([kind |-> "loc", pat |-> c.pat, cls |-> "alnum", shape |-> "mid", absent |-> "none"])
IdentPayload(c) == [c |-> c, loc |-> IdentLoc(c)]
IdentLaw == loc # AllAbsent
\* inside its own location is demanded where the published scope carries the fallback identifier
IdentJudged(c) == c.id \in {"fallback", "two"}

(* ------------------------------------------------------------------ behaviours: one state per case *)
Emit(payload) == PrintT(<<"CASE", ToJson(payload)>>)

Init == \/ case \in LocCases /\ loc = LocOf(case)
        \/ case \in ForeignCases /\ loc = AllAbsent
        \/ case \in IdentCases /\ loc = IdentLoc(case)
InitIdent == case \in IdentCases /\ loc = IdentLoc(case)      \* small run (replay mode: only the PLAN is needed)
Next == FALSE /\ UNCHANGED <<case, loc>>
Spec == Init /\ [][Next]_<<case, loc>>
SpecIdent == InitIdent /\ [][Next]_<<case, loc>>

EmitCase == CASE case.kind = "loc" -> Emit(LocPayload(case, loc))
              [] case.kind = "foreign" -> Emit(ForeignPayload(case))
              [] case.kind = "ident" -> Emit(IdentPayload(case))

\* the laws, each on its own domain
LawRoundTrip == case.kind = "loc" => RoundTripLaw
LawWiden == case.kind = "loc" => WidenLaw
LawChange == case.kind = "loc" => ChangeLaw
LawPresence == case.kind = "loc" => PresenceLaw
LawForeign == case.kind = "foreign" => (ForeignLaw /\ GoodLaw)
LawIdent == case.kind = "ident" => IdentLaw

ASSUME PrintT(<<"PLAN", ToJson([nw |-> NW, nc |-> NC, change |-> ChangePlan])>>)
=============================================================================
