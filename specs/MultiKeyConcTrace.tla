------------------------- MODULE MultiKeyConcTrace -------------------------
(* MultiKey.tla takes every table operation as one atomic action - a lookup   *)
(* sees the table before or after an update, never in between.  Recorded      *)
(* executions of lookups racing with a re-indexing update of the same object  *)
(* on real threads (all interleavings at the granularity of the table lock    *)
(* plus the step between un-filing and re-filing, Threads.tla) are judged:    *)
(* whatever the schedule, the lookup returns what a scan returns (the update  *)
(* changes no key, so the scan is the same before and after).                 *)
EXTENDS Integers, Sequences, FiniteSets, TLC, Json, IOUtils
VARIABLES tid, l
Data == JsonDeserialize(IOEnv.TRACE_FILE)
Traces == Data.traces
Total == Data.total
Clause(name, cond) == IF cond THEN TRUE ELSE PrintT(<<"REJECT", tid, l + 1, name>>)
Rng(s) == {s[i] : i \in DOMAIN s}

Step(rec) ==
  /\ Clause("lookup_never_fails_for_a_stored_object", \A i \in DOMAIN rec.lookups : rec.lookups[i].exc = "")
  /\ Clause("lookup_agrees_with_scan_during_update",
            \A i \in DOMAIN rec.lookups : rec.lookups[i].exc = "" => Rng(rec.lookups[i].got) = Rng(rec.lookups[i].scan))
  /\ Clause("writer_completes", rec.errors = <<>>)
  /\ Clause("lookups_agree_afterwards", rec.agree)

TraceInit == tid \in 1..Len(Traces) /\ l = 1
TraceNext == /\ l < Len(Traces[tid]) /\ Step(Traces[tid][l + 1]) /\ l' = l + 1 /\ tid' = tid
TraceSpec == TraceInit /\ [][TraceNext]_<<tid, l>>
AllConsumed == TLCGet("distinct") = Total
=============================================================================
