-------------------------------- MODULE Tls --------------------------------
(* C19 - with TLS configured no endpoint is advertised or contacted in plaintext.         *)
(*                                                                                         *)
(* A configuration / phase model of one provider and one consumer.                         *)
(*   configuration  provider TLS {off,on} x consumer TLS {none,optional,enforced}          *)
(*                  x provider http server {shared,own} x consumer http server {shared,own} *)
(*                  x alternative host name {none,set} x peer answers TLS {yes,no}          *)
(*                  x subscription manager flavour (harness dimension, constant Mgrs)       *)
(*   phases         metadata, hosted (metadata + WSDL), subscribe, probe (directed Probe,   *)
(*                  part of "metadata" in the property text), notification, renew (Renew +  *)
(*                  GetStatus), operation, unsubscribe, stop (provider stop, SubscriptionEnd)*)
(* Environment.  A server "has TLS" when its owner wrapped it with a server context (own    *)
(* server) or when the application supplied a matching shared server.  peer = "yes": a      *)
(* server answers exactly the kind of connection it was built for.  peer = "no" is the      *)
(* downgrade environment: every TLS handshake fails with an SSL error and every server      *)
(* answers plaintext requests - a party that falls back to plaintext would succeed.         *)
(*                                                                                         *)
(* Advertised(c, ph) / Connects(c, ph, m) are the reference: which addresses a party must   *)
(* put on the wire in a phase and with which scheme, which party opens connections and with *)
(* which ssl context.  The behaviour walks every configuration through the phases (one      *)
(* action per phase and outcome); the laws of the property are invariants of the model.     *)
(* The same operators judge the recorded executions of the real code (TlsTrace.tla).        *)
(* Second life of the consumer (stop_all + start_all on the same object): Retry after a     *)
(* failed first connect (same environment) and RestartHostile in the middle of a session    *)
(* (the environment has turned into the downgrade environment meanwhile).  The obligations  *)
(* of a bound party are the same in every life: nothing it learnt or forgot in the first    *)
(* one may open the door to plaintext in the second.                                        *)
(* Three further enumerated domains (Init-only): certloader cases, soap client cases.       *)
EXTENDS Naturals, Sequences, FiniteSets, TLC, Json

CONSTANTS Mgrs          \* subset of {"sync", "async", "sync_ref", "async_ref"}: subscription manager flavour

VARIABLES cfg,    \* the case: a configuration, a certloader case or a soap client case (field kind)
          pi,     \* number of phases done (0: nothing yet)
          mode,   \* consumer connection mode: "init", "tls", "plain", "failed"
          sub,    \* the consumer's StateEvent subscription as seen by the provider: "none", "live", "broken", "ended"
          env,    \* does the peer answer TLS NOW ("yes" / "no"): starts as cfg.peer, may turn hostile at a restart
          round   \* 0: first life of the consumer, 1: after SdcConsumer.stop_all + start_all

vars == <<cfg, pi, mode, sub, env, round>>

Phases == <<"metadata", "hosted", "subscribe", "probe", "notification", "renew", "operation", "unsubscribe", "stop">>
NPhases == Len(Phases)
PhaseSet == {Phases[i] : i \in 1..NPhases}

\* psrv = "mismatch": the application handed a TLS provider a shared http server that does NOT do TLS (a misconfiguration;
\* what the provider advertises is still bound by the property).  Enumerated for the enforcing consumer only: its first
\* connect fails, so the trace consists of the announcement, the failed connect and the retry.
Configs == [kind : {"cfg"}, ptls : {"off", "on"}, ctls : {"none", "optional", "enforced"},
            psrv : {"shared", "own"}, csrv : {"shared", "own"}, alt : {"none", "set"},
            peer : {"yes", "no"}, mgr : Mgrs]
           \cup [kind : {"cfg"}, ptls : {"on"}, ctls : {"enforced"}, psrv : {"mismatch"}, csrv : {"shared", "own"},
                 alt : {"none", "set"}, peer : {"yes"}, mgr : Mgrs]

CertCases == [kind : {"cert"}, entry : {"mk_ssl_contexts", "from_folder"}, ca : {"absent", "given"},
              cyphers : {"absent", "given"}]

ClientCases == [kind : {"client"}, cls : {"SoapClient", "SoapClientAsync"}, ctx : {"none", "client"}]

\* A subscriber names its event sinks itself: a TLS provider is sent a Subscribe (over TLS) whose NotifyTo / EndTo
\* address is written with the given scheme.  Whatever the subscriber wrote, the provider is bound: it contacts the
\* sink with its client context, never in plaintext (the delivery may fail - that is the subscriber's problem).
SinkCases == [kind : {"sink"}, mgr : {"sync", "async", "sync_ref", "async_ref"}, notify : {"https", "http"},
              endto : {"none", "https", "http"}]
\* The provider names endpoints under another network location than the one the consumer connected to first (the
\* x_addr carries the alternative host name, hosted services and subscription managers the numeric address) and that
\* second location does not answer TLS (a downgrade on that path only).  An enforcing consumer contacts it under its
\* client context or not at all.
\* what = "hostile_second": as described; what = "wsdl_elsewhere": every location answers TLS, but a hosted service
\* announces its WSDL under a network location of its own - fetched under the client context or not at all
SecondCases == [kind : {"second"}, mgr : {"sync", "async", "sync_ref", "async_ref"}, psrv : {"shared", "own"},
                what : {"hostile_second", "wsdl_elsewhere"}]
\* how a bound provider may contact a sink: [tls, ctx]
SinkContactOK(contact) == contact.tls /\ contact.ctx

(* ------------------------------------------------------------------ environment *)
AnswersTls(hasTls, c) == hasTls /\ c.peer = "yes"
AnswersPlain(hasTls, c) == ~hasTls \/ c.peer = "no"
\* exactly one kind of connection is answered by a server
ASSUME \A h \in BOOLEAN, p \in {"yes", "no"} : AnswersTls(h, [peer |-> p]) # AnswersPlain(h, [peer |-> p])

ProviderServerTls(c) == c.ptls = "on" /\ c.psrv # "mismatch"
\* the consumer's event sink: a shared server matches the consumer's configuration, an own server is built
\* when the connection mode is known
SinkTls(c, m) == IF c.csrv = "shared" THEN c.ctls # "none" ELSE m = "tls"

(* ------------------------------------------------------------------ the parties' obligations *)
Parties == {"provider", "consumer"}

\* TLS is configured (for the consumer: enforced) - the antecedent of the property
Bound(c, party) == IF party = "provider" THEN c.ptls = "on" ELSE c.ctls = "enforced"

\* scheme a party must use in every address it advertises ("any": the property demands nothing)
ReqScheme(c, party) == IF Bound(c, party) THEN "https" ELSE "any"

ClientCtx(party) == party \o ".client"
ServerCtx(party) == party \o ".server"

\* ssl contexts a party may give to an outgoing connection, m = consumer mode before the connection
\* ("fallback": the very first connect was tried with TLS and failed with an SSL error)
AllowedCtx(c, party, m) ==
  IF party = "provider" THEN (IF c.ptls = "on" THEN {ClientCtx(party)} ELSE {"none"})
  ELSE CASE c.ctls = "none" -> {"none"}
         [] c.ctls = "enforced" -> {ClientCtx(party)}
         [] c.ctls = "optional" -> IF m \in {"fallback", "plain"} THEN {ClientCtx(party), "none"}
                                   ELSE {ClientCtx(party)}

\* the consumer's first connect and what follows from it
FirstCtx(c) == IF c.ctls = "none" THEN "none" ELSE ClientCtx("consumer")
ModeAfterConnect(c) ==
  CASE c.ctls = "none" -> IF AnswersPlain(ProviderServerTls(c), c) THEN "plain" ELSE "failed"
    [] c.ctls = "enforced" -> IF AnswersTls(ProviderServerTls(c), c) THEN "tls" ELSE "failed"
    [] c.ctls = "optional" -> IF AnswersTls(ProviderServerTls(c), c) THEN "tls"
                              ELSE IF AnswersPlain(ProviderServerTls(c), c) THEN "plain" ELSE "failed"

\* a notification / SubscriptionEnd of the provider reaches the consumer's event sink
Delivers(c, m) == IF c.ptls = "on" THEN AnswersTls(SinkTls(c, m), c) ELSE AnswersPlain(SinkTls(c, m), c)

(* ------------------------------------------------------------------ Advertised / Connects *)
\* addresses a party puts on the wire in a phase that is carried out: <<party, kind>>
Adv(party, kind) == <<party, kind>>
Advertised(c, ph, live) ==
  CASE ph = "metadata" -> {Adv("provider", "xaddr"), Adv("provider", "hosted_epr")}
    [] ph = "hosted" -> {Adv("provider", "hosted_epr"), Adv("provider", "wsdl")}
    [] ph = "subscribe" -> {Adv("provider", "submgr"), Adv("consumer", "notify_to"), Adv("consumer", "end_to")}
    [] ph = "probe" -> {Adv("provider", "xaddr")}
    [] ph = "stop" -> IF live THEN {Adv("provider", "end_submgr")} ELSE {}
    [] OTHER -> {}

\* parties that open or use connections in a phase that is carried out
Connects(c, ph, live) ==
  CASE ph \in {"metadata", "hosted", "subscribe", "probe", "renew", "unsubscribe"} -> {"consumer"}
    [] ph = "notification" -> {"provider"}
    [] ph = "operation" -> {"provider", "consumer"}
    [] ph = "stop" -> IF live THEN {"provider"} ELSE {}

\* the http server a party builds itself must be wrapped with its server context
OwnServerCtx(c, party, m) ==
  IF party = "provider" THEN (IF c.ptls = "on" THEN ServerCtx(party) ELSE "none")
  ELSE IF c.ctls # "none" /\ m = "tls" THEN ServerCtx(party) ELSE "none"

(* ------------------------------------------------------------------ certloader / soap client reference *)
\* contexts built from a CA file require and verify the peer certificate in both directions
CertRequired(k) == k.ca = "given"
ClientScheme(k) == IF k.ctx = "none" THEN "http" ELSE "https"

(* ------------------------------------------------------------------ behaviour *)
IsCfg == cfg.kind = "cfg"
\* the configuration in the environment of the moment
C == IF IsCfg THEN [cfg EXCEPT !.peer = env] ELSE cfg

Init == /\ (cfg \in Configs \/ cfg \in CertCases \/ cfg \in ClientCases \/ cfg \in SinkCases \/ cfg \in SecondCases)
        /\ pi = 0 /\ mode = "init" /\ sub = "none"
        /\ env = (IF IsCfg THEN cfg.peer ELSE "yes") /\ round = 0

\* first connect of the consumer (phase metadata)
ConnectTls == /\ IsCfg /\ pi = 0 /\ mode = "init" /\ ModeAfterConnect(C) = "tls"
              /\ mode' = "tls" /\ pi' = 1 /\ UNCHANGED <<cfg, sub, env, round>>
ConnectPlain == /\ IsCfg /\ pi = 0 /\ mode = "init" /\ cfg.ctls = "none" /\ ModeAfterConnect(C) = "plain"
                /\ mode' = "plain" /\ pi' = 1 /\ UNCHANGED <<cfg, sub, env, round>>
Fallback == /\ IsCfg /\ pi = 0 /\ mode = "init" /\ cfg.ctls = "optional" /\ ModeAfterConnect(C) = "plain"
            /\ mode' = "plain" /\ pi' = 1 /\ UNCHANGED <<cfg, sub, env, round>>
ConnectFails == /\ IsCfg /\ pi = 0 /\ mode = "init" /\ ModeAfterConnect(C) = "failed"
                /\ mode' = "failed" /\ UNCHANGED <<cfg, pi, sub, env, round>>

Established == IsCfg /\ mode \in {"tls", "plain"}
At(ph) == Established /\ pi < NPhases /\ Phases[pi + 1] = ph
Done == pi' = pi + 1 /\ UNCHANGED <<cfg, mode, env, round>>

Hosted == At("hosted") /\ Done /\ UNCHANGED sub
Subscribe == At("subscribe") /\ Done /\ sub' = "live"
Probe == At("probe") /\ Done /\ UNCHANGED sub
NotifyDelivered == At("notification") /\ Delivers(C, mode) /\ Done /\ UNCHANGED sub
NotifyFails == At("notification") /\ ~Delivers(C, mode) /\ Done /\ sub' = "broken"
Renew == At("renew") /\ Done /\ UNCHANGED sub
Operate == At("operation") /\ Done /\ UNCHANGED sub
Unsubscribe == At("unsubscribe") /\ Done /\ UNCHANGED sub      \* the Set subscription; StateEvent stays
StopWithEnd == At("stop") /\ sub = "live" /\ Done /\ sub' = "ended"
StopSilent == At("stop") /\ sub = "broken" /\ Done /\ UNCHANGED sub

\* second life of the consumer object: stop_all, then start_all again
Retry == /\ IsCfg /\ mode = "failed" /\ round = 0
         /\ mode' = "init" /\ round' = 1 /\ UNCHANGED <<cfg, pi, sub, env>>
RestartHostile == /\ Established /\ round = 0 /\ pi = 3 /\ env = "yes"
                  /\ env' = "no" /\ mode' = "init" /\ pi' = 0 /\ sub' = "none" /\ round' = 1 /\ UNCHANGED cfg

Next == \/ ConnectTls \/ ConnectPlain \/ Fallback \/ ConnectFails \/ Retry \/ RestartHostile
        \/ Hosted \/ Subscribe \/ Probe \/ NotifyDelivered \/ NotifyFails \/ Renew \/ Operate \/ Unsubscribe
        \/ StopWithEnd \/ StopSilent

Spec == Init /\ [][Next]_vars

(* ------------------------------------------------------------------ laws (invariants of the reference) *)
TypeOK == /\ pi \in 0..NPhases
          /\ mode \in {"init", "tls", "plain", "failed"}
          /\ sub \in {"none", "live", "broken", "ended"}
          /\ env \in {"yes", "no"} /\ round \in {0, 1}

\* a party bound by the property advertises https only and connects with its client context only, in every mode
LawBound == IsCfg => \A party \in Parties : Bound(cfg, party) =>
               /\ ReqScheme(cfg, party) = "https"
               /\ \A m \in {"init", "tls", "fallback", "plain", "failed"} : AllowedCtx(cfg, party, m) = {ClientCtx(party)}

\* an enforcing consumer never reaches the plaintext mode; a plaintext session of an optional consumer exists only
\* where the provider's server did not answer the TLS handshake
LawNoPlain == IsCfg => /\ (cfg.ctls = "enforced" => mode # "plain")
                       /\ (cfg.ctls = "optional" /\ mode = "plain" => ~AnswersTls(ProviderServerTls(C), C))
                       /\ (cfg.ctls = "optional" /\ mode \in {"init", "tls"}
                              => "none" \notin AllowedCtx(cfg, "consumer", mode))

\* the session mode is one the provider's server answers; a TLS provider never delivers to a sink without TLS
LawMode == IsCfg => /\ (mode = "tls" => AnswersTls(ProviderServerTls(C), C) /\ FirstCtx(cfg) # "none")
                    /\ (mode = "plain" => AnswersPlain(ProviderServerTls(C), C))
                    /\ (Established /\ cfg.ptls = "on" /\ Delivers(C, mode) => SinkTls(cfg, mode) /\ env = "yes")
                    /\ (sub \in {"live", "ended"} /\ pi >= 5 => Delivers(C, mode))

\* an own server of a bound party that is in a session is a TLS server
LawOwnServer == IsCfg /\ Established => \A party \in Parties :
                   Bound(cfg, party) => OwnServerCtx(cfg, party, mode) = ServerCtx(party)

\* in the downgrade environment nothing a bound party does succeeds in plaintext: it has no session / no delivery
LawDowngrade == IsCfg /\ env = "no" =>
                   /\ (cfg.ctls = "enforced" => mode \in {"init", "failed"})
                   /\ (cfg.ptls = "on" /\ Established => ~Delivers(C, mode))

(* ------------------------------------------------------------------ emission of the cases (spec -> code) *)
EmitCase ==
  IF pi = 0 /\ mode = "init" /\ round = 0
  THEN IF cfg.kind = "cfg"
       THEN PrintT(<<"CASE", ToJson([c |-> cfg, mode |-> ModeAfterConnect(cfg),
                                     delivers |-> Delivers(cfg, ModeAfterConnect(cfg)),
                                     hostile |-> ModeAfterConnect([cfg EXCEPT !.peer = "no"])])>>)
       ELSE PrintT(<<"CASE", ToJson([c |-> cfg])>>)
  ELSE TRUE
=============================================================================
