SPECIFICATION Spec
CONSTANTS
  Hs <- McHs
  Dyn <- McDyn
  MaxCommits = 3
  MaxDeliver = 2
  MaxEpoch = 0
CONSTRAINT EmitPurpose
