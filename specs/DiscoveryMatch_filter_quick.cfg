SPECIFICATION FilterSpec
CONSTANTS
  Which = "filter"
  DeepAlpha <- Alpha4
  DeepMax = 2
  WideAlpha <- AlphaAll
  WideMax = 1
  HeadMax = 1
  StrMax = 2
  ListMax = 2
  ScopeListMax = 1
INVARIANT LawFilterAgree
INVARIANT LawEmptyFilter
INVARIANT LawWeaker
INVARIANT LawStrStronger
