---------------------------- MODULE ThreadsTrace ----------------------------
(***************************************************************************)
(* Judges recorded executions of real provider threads under a controlled  *)
(* schedule (C07 snapshot consistency of Get responses, C04 delivery order)*)
(* A record is one scheduled run: the Get responses (label = MdibVersion   *)
(* stated in the answer, entries = what it contained), phist = projected   *)
(* provider MDIB at every MdibVersion that existed during the run, wire =  *)
(* MdibVersions of the notifications in the order they were put on wire.   *)
(***************************************************************************)
EXTENDS Integers, Sequences, FiniteSets, TLC, Json, IOUtils

VARIABLES tid, l
Data == JsonDeserialize(IOEnv.TRACE_FILE)
Traces == Data.traces
Total == Data.total
Clause(name, cond) == IF cond THEN TRUE ELSE PrintT(<<"REJECT", tid, l + 1, name>>)
Rng(s) == {s[i] : i \in DOMAIN s}

Key(n) == ToString(n)
EntryOK(p, e) ==
  CASE e.k = "S" -> p.S[e.h].present /\ p.S[e.h].sver = e.ver /\ p.S[e.h].dver = e.dver /\ p.S[e.h].tok = e.tok
    [] e.k = "C" -> p.C[e.h].present /\ p.C[e.h].sver = e.ver /\ p.C[e.h].dver = e.dver /\ p.C[e.h].tok = e.tok
    [] e.k = "D" -> p.D[e.h].present /\ p.D[e.h].ver = e.ver /\ p.D[e.h].tok = e.tok

Got(r, k) == {e.h : e \in {x \in Rng(r.entries) : x.k = k}}
PresentS(p) == {h \in DOMAIN p.S : p.S[h].present}
PresentC(p) == {c \in DOMAIN p.C : p.C[c].present}
PresentD(p) == {h \in DOMAIN p.D : p.D[h].present}

SelectedOK(p, r) ==
  CASE r.kind = "GetMdState[]" -> Got(r, "S") = PresentS(p) /\ Got(r, "C") = PresentC(p)
    [] r.kind = "GetMdib" -> Got(r, "S") = PresentS(p) /\ Got(r, "C") = PresentC(p) /\ Got(r, "D") = PresentD(p)
    [] r.kind = "GetMdDescription" -> Got(r, "D") = PresentD(p)
    [] r.kind = "GetContextStates" -> Got(r, "C") = PresentC(p)
    [] r.kind = "GetMdState[m1]" -> Got(r, "S") = (PresentS(p) \cap {"m1"})
    [] r.kind = "GetMdState[req]" -> Got(r, "S") = (PresentS(p) \cap Rng(r.requested))
    \* requested descriptors: what is returned beyond the requested ones is the service's rule (the code returns the whole
    \* description if any requested handle exists); version consistency demands that the requested descriptors that exist
    \* at the stated version are there, and that nothing is returned if none of them exists at that version
    [] r.kind = "GetMdDescription[req]" ->
         LET req == Rng(r.requested) \cap PresentD(p)
         IN /\ Got(r, "D") \subseteq PresentD(p) /\ req \subseteq Got(r, "D") /\ (req = {} => Got(r, "D") = {})
    [] OTHER -> TRUE

NoDupEntries(r) == \A i, j \in DOMAIN r.entries : (i # j) => (r.entries[i].k # r.entries[j].k \/ r.entries[i].h # r.entries[j].h)

\* ---- context association under concurrency (C10): judged on the history of ALL context states of the real MDIB
CtxOf(snap) == snap.st
AssocIn(snap, d) == {c \in DOMAIN CtxOf(snap) : CtxOf(snap)[c].d = d /\ CtxOf(snap)[c].assoc = "Assoc"}
OneAssocIn(snap) == \A c \in DOMAIN CtxOf(snap) : Cardinality(AssocIn(snap, CtxOf(snap)[c].d)) <= 1
\* between two consecutive recorded versions: a state that stopped being associated carries the version at which that
\* became visible as UnbindingMdibVersion (+ end time); a state that became associated carries it as BindingMdibVersion
MarksOK(a, b) ==
  \A c \in DOMAIN CtxOf(b) :
    LET was == c \in DOMAIN CtxOf(a) /\ CtxOf(a)[c].assoc = "Assoc"
        is == CtxOf(b)[c].assoc = "Assoc"
    IN /\ (was /\ ~is) => (CtxOf(b)[c].assoc = "Dis" /\ CtxOf(b)[c].unbind > a.v /\ CtxOf(b)[c].unbind <= b.v /\ CtxOf(b)[c]["end"])
       /\ (~was /\ is) => (CtxOf(b)[c].bind > a.v /\ CtxOf(b)[c].bind <= b.v /\ CtxOf(b)[c].start)

RunOK(rec) ==
  /\ Clause("request_answered", rec.errors = <<>>)     \* no operation (Get request, transaction) died with an exception
  /\ \A i \in DOMAIN rec.reads :
       LET r == rec.reads[i] IN
       /\ Clause("label_is_a_version_that_existed", Key(r.label) \in DOMAIN rec.phist)
       /\ (Key(r.label) \in DOMAIN rec.phist) =>
            /\ Clause("snapshot_content", \A e \in Rng(r.entries) : EntryOK(rec.phist[Key(r.label)], e))
            /\ Clause("snapshot_selection", SelectedOK(rec.phist[Key(r.label)], r))
       /\ Clause("each_at_most_once", NoDupEntries(r))
  \* transaction ids handed out to concurrent operation requests: pairwise different, all newer than every id issued before
  /\ Clause("transaction_ids_unique", \A i, j \in DOMAIN rec.txids : i # j => rec.txids[i] # rec.txids[j])
  /\ Clause("transaction_ids_increase", \A i \in DOMAIN rec.txids : rec.txids[i] > rec.txid0)
  \* every commit that wrote the MdibVersion raised it by exactly one (concurrent writers included)
  \* what the MDIB holds at one MdibVersion never changes (every snapshot taken at that version is the same)
  /\ Clause("mdib_changes_only_with_a_new_version", rec.conflicts = <<>>)
  /\ Clause("one_version_per_commit", rec.mver_end = rec.mver0 + rec.nwv)
  /\ Clause("ctx_at_most_one_associated", \A i \in DOMAIN rec.ctxhist : OneAssocIn(rec.ctxhist[i]))
  /\ Clause("ctx_binding_marks", \A i \in 1..(Len(rec.ctxhist) - 1) : MarksOK(rec.ctxhist[i], rec.ctxhist[i + 1]))
  \* (the consumer of the lab subscribes to everything: every commit shows up on the wire under its own version)
  /\ Clause("every_commit_reported_under_its_version",
            \A v \in (rec.mver0 + 1)..rec.mver_end : \E i \in DOMAIN rec.wire : rec.wire[i] = v)
  /\ Clause("wire_in_version_order", \A i \in 1..(Len(rec.wire) - 1) : rec.wire[i] <= rec.wire[i + 1])

TraceInit == tid \in 1..Len(Traces) /\ l = 0
TraceNext == /\ l < Len(Traces[tid])
             /\ RunOK(Traces[tid][l + 1])
             /\ l' = l + 1 /\ tid' = tid
TraceSpec == TraceInit /\ [][TraceNext]_<<tid, l>>
AllConsumed == TLCGet("distinct") = Total + Len(Traces)
=============================================================================
