\* exhaustive check of the design: 3 objects, 2 keys; history hidden by VIEW
SPECIFICATION Spec
CONSTANTS
  O = {"o1", "o2", "o3"}
  K = {"k1", "k2"}
  CDom <- McCDom
  MDom <- McMDom
  Indices = {"by_u", "by_g", "by_c", "by_m"}
  MaxOps = 0
VIEW view
INVARIANT Agree
INVARIANT UniqueU
PROPERTY RejectIsNoop
