------------------------------ MODULE Context ------------------------------
(***************************************************************************)
(* Context association handling of the provider (C10):                     *)
(*  - set_location (ProviderMdibMethods.set_location)                      *)
(*  - SetContextState operation handler of the tutorial role provider      *)
(*    (GenericContextProvider._set_context_state), written like the code   *)
(*    is MEANT to work: marks are set at the MdibVersion of the commit.    *)
(***************************************************************************)
EXTENDS Integers, Sequences, FiniteSets, TLC, Json, SequencesExt

CONSTANTS Descr,      \* context descriptors, e.g. {"pc", "lc"}
          CH,         \* pool of context state handles
          MaxCalls

VARIABLES ctx, mver, calls, hist,
          ord        \* table order of the context states: a commit removes the states it writes and re-adds them at the
                     \* end (observation only - it feeds the situation labels, no action depends on it)
vars == <<ctx, mver, calls, hist, ord>>
pview == <<ctx, mver, calls, ord>>     \* view of the test-purpose run (the labels depend on ord)
view == <<ctx, mver, calls>>

NoC == [present |-> FALSE, d |-> "none", assoc |-> "No", bind |-> -1, unbind |-> -1]
Init == ctx = [c \in CH |-> NoC] /\ mver = 0 /\ calls = 0 /\ hist = <<>> /\ ord = <<>>
\* (written: first the states the call disassociated, then the states it names / creates, in the order of the proposals)
Reorder(cx, others, named) ==
  LET all == others \cup {named[k] : k \in DOMAIN named} IN
  SelectSeq(ord, LAMBDA c : c \notin all /\ cx[c].present)
    \o SetToSeq({c \in others : cx[c].present /\ \A k \in DOMAIN named : named[k] # c}) \o named
Pos(c) == IF \E k \in DOMAIN ord : ord[k] = c THEN CHOOSE k \in DOMAIN ord : ord[k] = c ELSE 0
\* a completely disassociated state of d stands behind the associated one (it was updated after the association)
DisBehindAssoc(d) == \E a \in CH, x \in CH : /\ ctx[a].present /\ ctx[a].d = d /\ ctx[a].assoc = "Assoc"
                                              /\ ctx[x].present /\ ctx[x].d = d /\ ctx[x].assoc = "Dis" /\ ctx[x].unbind # -1
                                              /\ Pos(x) > Pos(a)

Free == {c \in CH : ~ctx[c].present}
Of(d) == {c \in CH : ctx[c].present /\ ctx[c].d = d}
Assoc(cx, d) == {c \in CH : cx[c].present /\ cx[c].d = d /\ cx[c].assoc = "Assoc"}
Log(rec) == hist' = Append(hist, rec) /\ calls' = calls + 1

\* disassociate every state of d that is associated (or disassociated without unbinding version), except `keep`
DisAll(cx, d, keep, v) ==
  [c \in CH |-> IF cx[c].present /\ cx[c].d = d /\ c # keep /\ cx[c].assoc # "No"
                   /\ (cx[c].assoc # "Dis" \/ cx[c].unbind = -1)
                THEN [cx[c] EXCEPT !.assoc = "Dis", !.unbind = IF @ = -1 THEN v ELSE @]
                ELSE cx[c]]

SetLocation(d) ==
  /\ calls < MaxCalls /\ Free # {}
  /\ LET c == CHOOSE x \in Free : TRUE
         v == mver + 1
         \* set_location disassociates through the transaction: every state that is not yet fully disassociated
         cx == [x \in CH |-> IF ctx[x].present /\ ctx[x].d = d /\ (ctx[x].assoc # "Dis" \/ ctx[x].unbind = -1)
                             THEN [ctx[x] EXCEPT !.assoc = "Dis", !.unbind = IF @ = -1 THEN v ELSE @] ELSE ctx[x]]
         nx == [cx EXCEPT ![c] = [present |-> TRUE, d |-> d, assoc |-> "Assoc", bind |-> v, unbind |-> -1]]
     IN /\ ctx' = nx
        /\ mver' = v
        /\ ord' = Reorder(nx, {x \in CH : nx[x] # ctx[x]}, <<c>>)
  /\ Log([act |-> "SetLocation", d |-> d, res |-> "ok",
          sit |-> {"L:" \o ToString(Cardinality(Assoc(ctx, d))) \o ":" \o ToString(Cardinality(Of(d)) > 1) \o ":"
                   \o (IF \E c \in Of(d) : ctx[c].assoc = "Assoc" /\ ctx[c].unbind # -1 THEN "reassociated" ELSE "-")}])

\* one proposal: [d, tgt, assoc]; tgt = "new" or an existing handle
RECURSIVE Apply(_, _, _, _)
Apply(cx, props, i, v) ==
  IF i > Len(props) THEN cx
  ELSE LET p == props[i] IN
       IF p.tgt = "new"
       THEN LET c == CHOOSE x \in {y \in CH : ~cx[y].present} : TRUE
                c1 == IF p.assoc = "Assoc" THEN DisAll(cx, p.d, "none", v) ELSE cx
            IN Apply([c1 EXCEPT ![c] = [present |-> TRUE, d |-> p.d, assoc |-> p.assoc,
                                        bind |-> IF p.assoc = "Assoc" THEN v ELSE -1, unbind |-> -1]], props, i + 1, v)
       ELSE LET old == cx[p.tgt]
                c1 == IF old.assoc # "Assoc" /\ p.assoc = "Assoc" THEN DisAll(cx, p.d, p.tgt, v) ELSE cx
                new == IF old.assoc = "Assoc" /\ p.assoc # "Assoc"
                       THEN [old EXCEPT !.assoc = p.assoc, !.unbind = v]
                       ELSE IF old.assoc # "Assoc" /\ p.assoc = "Assoc"
                       THEN [old EXCEPT !.assoc = "Assoc", !.bind = v]
                       ELSE [old EXCEPT !.assoc = p.assoc]
            IN Apply([c1 EXCEPT ![p.tgt] = new], props, i + 1, v)

Proposal == [d : Descr, tgt : CH \cup {"new", "unknown"}, assoc : {"Assoc", "Dis", "No"}]
WellFormed(p) == /\ (p.tgt \in CH => (ctx[p.tgt].present /\ ctx[p.tgt].d = p.d /\ p.assoc \in {"Assoc", "Dis"}))
                 /\ (p.tgt = "new" => p.assoc \in {"Assoc", "No"})
Rejected(props) == \/ \E i \in 1..Len(props) : props[i].tgt = "unknown"
                   \/ \E d \in Descr : Cardinality({i \in 1..Len(props) : props[i].d = d /\ props[i].assoc = "Assoc"}) > 1
\* situation labels of a call (coverage-directed selection of the behaviours that are replayed)
PropSit(p, rej) == "P:" \o p.d \o ":"
              \o (IF p.tgt \in CH THEN "existing-" \o ctx[p.tgt].assoc \o (IF ctx[p.tgt].unbind # -1 THEN "-unbound" ELSE "")
                  ELSE p.tgt)
              \o ":" \o p.assoc \o ":" \o ToString(Cardinality(Assoc(ctx, p.d)))
              \o (IF p.assoc = "Assoc" /\ DisBehindAssoc(p.d) /\ ~rej THEN ":dis-behind-assoc" ELSE "")
SitOfCall(props) == {PropSit(props[i], Rejected(props)) : i \in 1..Len(props)}
                    \cup {"N:" \o ToString(Len(props)) \o ":" \o ToString(Cardinality({props[i].d : i \in 1..Len(props)}))}

SetContextState(props) ==
  /\ calls < MaxCalls /\ Len(props) \in 1..2
  /\ \A i \in 1..Len(props) : props[i].tgt = "unknown" \/ WellFormed(props[i])
  /\ (Len(props) = 2 => props[1].tgt # props[2].tgt \/ props[1].tgt = "new")
  /\ Cardinality(Free) >= Cardinality({i \in 1..Len(props) : props[i].tgt = "new"})
  /\ IF Rejected(props)
     THEN UNCHANGED <<ctx, mver, ord>> /\ Log([act |-> "SetContextState", props |-> props, res |-> "rejected", sit |-> SitOfCall(props)])
     ELSE /\ ctx' = Apply(ctx, props, 1, mver + 1) /\ mver' = mver + 1
          /\ ord' = LET nw == {x \in CH : ~ctx[x].present /\ ctx'[x].present}
                        \* the handles the proposals name, a new state where the proposal says "new" (CHOOSE as in Apply)
                        named == [k \in 1..Len(props) |-> IF props[k].tgt \in CH THEN props[k].tgt
                                                          ELSE CHOOSE x \in nw : TRUE]
                    IN Reorder(ctx', {x \in CH : ctx'[x] # ctx[x]}, IF nw = {} \/ Len(props) = 1 \/ Cardinality(nw) = 1 THEN named
                                                                      ELSE SetToSeq(nw \cup {props[k].tgt : k \in {j \in 1..Len(props) : props[j].tgt \in CH}}))
          /\ Log([act |-> "SetContextState", props |-> props, res |-> "ok", sit |-> SitOfCall(props)])

Next == \/ SetLocation("lc")
        \/ \E p \in Proposal : SetContextState(<<p>>)
        \/ \E p, q \in Proposal : SetContextState(<<p, q>>)
Spec == Init /\ [][Next]_vars

\* ------------------------------------------------------------------ properties
OneAssoc == \A d \in Descr : Cardinality(Assoc(ctx, d)) <= 1
UnbindMarked == [][\A c \in CH : (ctx[c].present /\ ctx[c].assoc = "Assoc" /\ ctx'[c].present /\ ctx'[c].assoc # "Assoc")
                       => (ctx'[c].assoc = "Dis" /\ ctx'[c].unbind = mver')]_vars
BindMarked == [][\A c \in CH : ((~ctx[c].present \/ ctx[c].assoc # "Assoc") /\ ctx'[c].present /\ ctx'[c].assoc = "Assoc")
                       => ctx'[c].bind = mver']_vars
EmitAtLevel(d) == (TLCGet("level") = d) => PrintT(<<"BEH", ToJson(hist)>>)
=============================================================================
