SPECIFICATION SpecLoc
CONSTANTS
  Classes <- AllClasses
  Shapes = {"solo", "mid", "rot"}
  AbsentModes = {"none", "empty"}
  Schemes <- AllSchemes
  Auths <- AllAuths
  Frags <- AllFrags
INVARIANT RoundTripLaw
INVARIANT WidenLaw
INVARIANT ChangeLaw
INVARIANT PresenceLaw
CONSTRAINT EmitLoc
