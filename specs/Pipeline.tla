------------------------------ MODULE Pipeline ------------------------------
(* C13 - request handling is total.                                         *)
(*                                                                          *)
(* Reference model of the handling of ONE request presented to a provider   *)
(* or consumer HTTP endpoint of sdc11073.  An abstract request is a record  *)
(* over finite input classes (path, framing, content coding, XML form,      *)
(* envelope structure, request type).  The pipeline                         *)
(*     Read -> Decode -> Route -> Parse -> Validate -> Dispatch -> Handle   *)
(*          -> Respond -> Done                                              *)
(* is a state machine: every stage maps the input class to a verdict        *)
(* "pass" / "reject" / "any" (implementation may do either).  The Read      *)
(* stage consumes the abstract token stream of the framing class one token  *)
(* per step; a reference reader stops at EOF.                               *)
(*                                                                          *)
(* Properties (checked by TLC on the model, and - through the state         *)
(* predicates below evaluated on recorded final states - on the real code): *)
(*   Total        <>(stage = "Done") under weak fairness                    *)
(*   Outcome      Done => HTTP status + (proper response | SOAP fault |     *)
(*                bare HTTP error for a rejection at the HTTP level)        *)
(*   NoEscape / NoSpin / BoundedRead / NoExpansion / NoFetch                *)
(*                the reference never sets these flags                      *)
(*   RejectIsNoop Done /\ not the proper response => state unchanged        *)
(*   FoldAgrees   the operational pipeline and the functional definition    *)
(*                AllowedKinds agree                                        *)
(*   ValidatedFirst / HandledOnlyIfAdmissible / AcceptOnlyHandled           *)
(*                hold in the model; on the real code they are reported as  *)
(*                notes only (the statement of C13 does not demand them)    *)
(*                                                                          *)
(* Decisions on what the statement demands (soundness first):               *)
(*  - a rejection decided before any SOAP envelope is read (framing,        *)
(*    content coding, path prefix; every rejection of a GET) may be a bare  *)
(*    HTTP error status without SOAP body; later rejections need a          *)
(*    well-formed SOAP fault (any status);                                  *)
(*  - classes an implementation may legitimately treat either way get the   *)
(*    verdict "any" (DOCTYPE present, duplicated body element, numbers at   *)
(*    the edge of their type, missing MessageID, extra path segments,       *)
(*    Content-Length larger than the body, long chunk extensions);          *)
(*  - truncation = end of stream (the peer closed its sending side).        *)
EXTENDS Naturals, Sequences, FiniteSets, TLC, Json

CONSTANTS ProviderTargets,   \* request types of the provider answered to POST
          ConsumerTargets,   \* request types of the consumer's event sink
          GetTargets,        \* request types answered to GET (provider)
          NumTargets,        \* request types whose body carries a number that can be mutated
          ReqTargets,        \* request types whose body element has schema-mandatory content
          EmptyBodyTargets,  \* request types whose valid request has an empty s12:Body
          UnimplTargets,     \* request types the provider answers with a 'not implemented' fault
          MutatingTargets,   \* request types whose acceptance may change MDIB / subscription table
          Part,              \* "all" | "dopost" | "handler" | "trace": which requests Init enumerates
          EmitOnly           \* TRUE: only enumerate and print the requests (no pipeline steps)

VARIABLES req,        \* the abstract request (constant along a behaviour)
          stage,      \* current pipeline stage
          pos,        \* Read stage: number of stream tokens consumed
          out,        \* [kind, status] of the response ("none" until one is decided)
          handled,    \* a request handler was invoked
          validated,  \* the document passed schema validation
          changed,    \* MDIB or subscription table differ from the state before the request
          flags       \* things the reference never does: [escaped, spin, unbounded, expanded, fetched, again]

vars == <<req, stage, pos, out, handled, validated, changed, flags>>

PostTargets == ProviderTargets \cup ConsumerTargets
Targets == PostTargets \cup GetTargets
Endpoint(t) == IF t \in ConsumerTargets THEN "consumer" ELSE "provider"

---------------------------------------------------------------------------
(* input classes *)
FramingsCL == {"cl_exact", "cl_short", "cl_long", "cl_negative", "cl_nonnumeric", "cl_absent"}
FramingsTE == {"chunked_ok", "chunked_trunc_size", "chunked_trunc_data", "chunked_bad_size",
               "chunked_neg_size", "chunked_huge_ext"}
Framings == FramingsCL \cup FramingsTE
Codings == {"none", "supported", "unsupported", "corrupt"}
\* "escaped_prefix": an unknown first path element written with percent-escapes (non-latin-1 text, an invalid UTF-8
\* byte, CR LF): whatever the handler decodes must not reach the status line / the headers of the answer
PrefixPaths == {"unknown_prefix", "escaped_prefix", "root", "no_path"}          \* decided by the HTTP handler
DeepPaths == {"valid", "unknown_service", "extra_segments"}   \* decided behind the path prefix
XmlBroken == {"truncated", "garbage", "empty"}
XmlDoctype == {"doctype_text", "doctype_attr", "external_entity", "external_param", "billion_laughs"}
Xmls == {"wf"} \cup XmlBroken \cup XmlDoctype
EnvelopesOf(t) ==
  {"valid", "no_header", "no_action", "wrong_action", "unknown_action", "no_body", "no_msgid"}
  \* legal but unusual WS-Addressing header blocks: a reply / fault endpoint that is not the anonymous one, a source
  \* endpoint, a header block of a foreign namespace.  An endpoint may serve or refuse such a request - but a refusal
  \* must leave MDIB and subscription table alone (RejectIsNoop), however late in the handling it is decided
  \cup {"addr_replyto", "addr_faultto", "addr_from", "addr_foreign_header"}
  \cup (IF t \in EmptyBodyTargets THEN {} ELSE {"empty_body", "renamed_body_elem", "dup_body_elem"})
  \* (num_zero: the boundary value - a zero duration / zero number is legal XML Schema wise; an endpoint may serve it or
  \*  refuse it, and a refusal is a no-op like every other)
  \cup (IF t \in NumTargets THEN {"num_huge", "num_negative", "num_zero"} ELSE {})
  \cup (IF t \in ReqTargets THEN {"del_required"} ELSE {})

---------------------------------------------------------------------------
(* Read stage: abstract token stream of a framing class and the reference reader *)
Stream(f) ==
  CASE f = "cl_exact" -> <<"len_ok", "data_full">>
    [] f = "cl_short" -> <<"len_ok", "data_part">>
    [] f = "cl_long" -> <<"len_ok", "data_short", "eof">>
    [] f = "cl_negative" -> <<"len_neg">>
    [] f = "cl_nonnumeric" -> <<"len_bad">>
    [] f = "cl_absent" -> <<"no_len">>
    [] f = "chunked_ok" -> <<"size_ok", "data_full", "crlf", "last">>
    [] f = "chunked_trunc_size" -> <<"size_ok", "data_full", "crlf", "eof">>
    [] f = "chunked_trunc_data" -> <<"size_ok", "data_short", "eof">>
    [] f = "chunked_bad_size" -> <<"size_bad">>
    [] f = "chunked_neg_size" -> <<"size_neg">>
    [] f = "chunked_huge_ext" -> <<"size_ext", "data_full", "crlf", "last">>
    [] OTHER -> <<>>

\* what a conforming reader may do with token number i of the stream of f:
\* "more" = go on reading, "done" = body complete, "reject" = give up with an error response
TokOut(f, i) ==
  LET tok == Stream(f)[i]
      chunked == f \in FramingsTE IN
  CASE tok \in {"len_ok", "size_ok", "crlf", "data_short"} -> {"more"}
    [] tok = "data_full" -> IF chunked THEN {"more"} ELSE {"done"}
    [] tok \in {"data_part", "last"} -> {"done"}
    [] tok = "eof" -> IF chunked THEN {"reject"} ELSE {"done", "reject"}  \* EOF: never "more"
    [] tok = "len_neg" -> {"done", "reject"}     \* treat as no body or refuse; never read without bound
    [] tok = "size_ext" -> {"more", "reject"}    \* long chunk extension: legal, a server may refuse it
    [] tok \in {"len_bad", "no_len", "size_bad", "size_neg"} -> {"reject"}

RECURSIVE ReadOuts(_, _)
ReadOuts(f, i) ==
  IF i > Len(Stream(f)) THEN {"reject"}
  ELSE UNION {IF o = "more" THEN ReadOuts(f, i + 1) ELSE {o} : o \in TokOut(f, i)}

ReadVerdict(f) ==
  LET o == ReadOuts(f, 1) IN
  IF o = {"done"} THEN "pass" ELSE IF o = {"reject"} THEN "reject" ELSE "any"

\* framings after which the bytes handed on are not determined by the class
BodyUnknown(r) == r.via = "handler" /\ r.method = "POST" /\ r.framing \in {"cl_long", "cl_negative"}
\* framings that hand on a proper prefix of the body
BodyCut(r) == r.via = "handler" /\ r.method = "POST" /\ r.framing = "cl_short"

---------------------------------------------------------------------------
(* stage verdicts *)
StageSeq == <<"Read", "Decode", "Route", "Parse", "Validate", "Dispatch", "Handle">>
HttpLevel(s) == s \in {"Read", "Decode", "Route"}

Weaken(r, v) == IF BodyUnknown(r) /\ v = "pass" THEN "any" ELSE v

RawVerdict(s, r) ==
  LET post == r.method = "POST"
      wire == r.via = "handler" /\ post IN
  CASE s = "Read" -> IF wire THEN ReadVerdict(r.framing) ELSE "pass"
    [] s = "Decode" ->
         IF ~wire THEN "pass"
         ELSE IF r.coding \in {"unsupported", "corrupt"} THEN "reject"
         ELSE IF r.coding = "supported" /\ BodyCut(r) THEN "reject"     \* a cut compressed stream
         ELSE "pass"
    [] s = "Route" -> IF r.via = "handler" /\ r.path \in PrefixPaths THEN "reject" ELSE "pass"
    [] s = "Parse" ->
         IF ~post THEN "pass"
         ELSE IF BodyCut(r) \/ r.xml \in XmlBroken THEN "reject"        \* a proper prefix is never well-formed
         ELSE IF r.xml \in XmlDoctype THEN "any"                         \* may refuse any DOCTYPE
         ELSE "pass"
    [] s = "Validate" ->
         IF ~post THEN "pass"
         ELSE IF r.envelope \in {"no_body", "del_required"} THEN "reject"
         ELSE IF r.envelope \in {"renamed_body_elem", "num_huge", "num_negative", "num_zero", "dup_body_elem", "no_header",
                                 "no_action", "no_msgid", "addr_replyto", "addr_faultto", "addr_from",
                                 "addr_foreign_header"} THEN "any"
         ELSE "pass"
    [] s = "Dispatch" ->
         IF r.path = "unknown_service" /\ (Endpoint(r.target) = "provider") THEN "reject"
         ELSE IF post /\ r.envelope \in {"no_header", "no_action", "wrong_action", "unknown_action", "empty_body",
                                         "renamed_body_elem"} THEN "reject"
         ELSE IF r.path \in {"unknown_service", "extra_segments"} THEN "any"
         ELSE "pass"
    [] s = "Handle" ->
         IF r.target \in UnimplTargets THEN "reject"
         ELSE IF post /\ r.envelope \in {"no_msgid", "num_huge", "num_negative", "num_zero", "dup_body_elem", "addr_replyto",
                                         "addr_faultto", "addr_from", "addr_foreign_header"} THEN "any"
         ELSE "pass"

Verdict(s, r) == IF s \in {"Read", "Decode", "Route"} THEN RawVerdict(s, r) ELSE Weaken(r, RawVerdict(s, r))

\* how a rejection decided in stage s may look: before any SOAP envelope is read (and for GET, which carries none)
\* a bare HTTP error response is admissible; every later rejection carries a SOAP fault
RejectKinds(s, r) == IF HttpLevel(s) \/ r.method = "GET" THEN {"fault", "bare"} ELSE {"fault"}

\* functional definition of the admissible final outcomes
RECURSIVE Fold(_, _, _)
Fold(r, i, kinds) ==
  IF i > Len(StageSeq) THEN kinds \cup {"proper"}
  ELSE LET s == StageSeq[i]
           v == Verdict(s, r) IN
       IF v = "pass" THEN Fold(r, i + 1, kinds)
       ELSE IF v = "reject" THEN kinds \cup RejectKinds(s, r)
       ELSE Fold(r, i + 1, kinds \cup RejectKinds(s, r))

AllowedKinds(r) == Fold(r, 1, {})

\* the stage that decides the fate of r: the first that must reject, else the first that may reject
FirstWith(r, vs) ==
  LET idx == {i \in 1..Len(StageSeq) : Verdict(StageSeq[i], r) \in vs} IN
  IF idx = {} THEN "none" ELSE StageSeq[CHOOSE i \in idx : \A j \in idx : i <= j]
Issue(r) == IF FirstWith(r, {"reject"}) # "none" THEN FirstWith(r, {"reject"}) ELSE FirstWith(r, {"any"})
MustAccept(r) == AllowedKinds(r) = {"proper"}
MustReject(r) == "proper" \notin AllowedKinds(r)

---------------------------------------------------------------------------
(* the enumerated domain: mutually consistent combinations *)
BodyReaching(f, c) == ReadVerdict(f) # "reject" /\ c \in {"none", "supported"}

\* document classes for a request whose body reaches the parser
Docs(t) == {[xml |-> x, envelope |-> "valid"] : x \in Xmls \ {"wf"}}
           \cup {[xml |-> "wf", envelope |-> e] : e \in EnvelopesOf(t)}
PlainDoc == {[xml |-> "wf", envelope |-> "valid"]}

Mk(via, t, p, f, c, d) ==
  [via |-> via, method |-> "POST", target |-> t, path |-> p, framing |-> f, coding |-> c,
   xml |-> d.xml, envelope |-> d.envelope, lenient |-> FALSE]

HandlerRequests ==
  UNION {
    \* body never parsed (HTTP level rejection certain): document fixed to the valid one
    {Mk("handler", t, p, f, c, d) : p \in PrefixPaths \cup DeepPaths,
                                    f \in Framings, c \in Codings, d \in PlainDoc}
    \cup
    \* body reaches the parser: all document classes (empty document only with exact framings, uncoded)
    UNION {{Mk("handler", t, p, fc[1], fc[2], d) :
              p \in DeepPaths,
              d \in {y \in Docs(t) : y.xml = "empty" => (fc[1] \in {"cl_exact", "chunked_ok"} /\ fc[2] = "none")}}
           : fc \in {x \in Framings \X Codings : BodyReaching(x[1], x[2])}}
    \cup
    \* unknown prefix with a broken / hostile document: must not matter
    {Mk("handler", t, "unknown_prefix", "cl_exact", "none", d) : d \in Docs(t)}
    : t \in PostTargets}

DoPostRequests ==
  UNION {{Mk("dopost", t, p, "na", "na", d) : p \in DeepPaths, d \in Docs(t)} : t \in PostTargets}

GetRequests ==
  {[via |-> "handler", method |-> "GET", target |-> t, path |-> p, framing |-> "na", coding |-> "na",
    xml |-> "na", envelope |-> "na", lenient |-> FALSE] : t \in GetTargets, p \in PrefixPaths \cup DeepPaths}

\* the same endpoints created with schema validation switched off (validate=False, a legal constructor option): whatever
\* such an endpoint does with a hostile document, it expands nothing, fetches nothing and a refusal changes nothing
LenientRequests ==
  {[Mk("handler", t, "valid", "cl_exact", "none", [xml |-> x, envelope |-> "valid"]) EXCEPT !.lenient = TRUE]
     : t \in PostTargets, x \in XmlDoctype \cup {"wf"}}

Requests == CASE Part = "trace" -> {}      \* PipelineTrace: the requests come from the recorded file
              [] Part = "dopost" -> DoPostRequests
              [] Part = "handler" -> HandlerRequests \cup GetRequests \cup LenientRequests
              [] OTHER -> HandlerRequests \cup DoPostRequests \cup GetRequests \cup LenientRequests

---------------------------------------------------------------------------
(* the state machine *)
\* again: a second response on the connection although the client sent ONE correctly framed request (its body, or a
\* part of it, was taken for a further request)
NoFlags == [escaped |-> FALSE, spin |-> FALSE, unbounded |-> FALSE, expanded |-> FALSE, fetched |-> FALSE, again |-> FALSE]
NoOut == [kind |-> "none", status |-> "none"]

Init == /\ req \in Requests
        /\ stage = "Read"
        /\ pos = 0
        /\ out = NoOut
        /\ handled = FALSE /\ validated = FALSE /\ changed = FALSE
        /\ flags = NoFlags
        /\ EmitOnly => PrintT(<<"CASE", ToJson([req |-> req, allowed |-> AllowedKinds(req)])>>)

Next_(s) == CASE s = "Read" -> "Decode" [] s = "Decode" -> "Route" [] s = "Route" -> "Parse"
              [] s = "Parse" -> "Validate" [] s = "Validate" -> "Dispatch" [] s = "Dispatch" -> "Handle"
              [] s = "Handle" -> "Respond"

\* a rejection decided in stage s: error status with a SOAP fault (or, at the HTTP level, a bare error response)
RejectAt(s) == /\ \E k \in RejectKinds(s, req) :
                    out' = [kind |-> k, status |-> IF k = "bare" THEN "error" ELSE "any"]
               /\ stage' = "Respond"

Pass(s) == stage' = Next_(s)

\* Read: one token of the stream per step (only requests that arrive as bytes have a stream)
ReadTok ==
  /\ stage = "Read"
  /\ IF req.via = "handler" /\ req.method = "POST"
     THEN /\ pos < Len(Stream(req.framing))
          /\ pos' = pos + 1
          /\ \E o \in TokOut(req.framing, pos + 1) :
               \/ o = "more" /\ UNCHANGED <<stage, out>>
               \/ o = "done" /\ Pass("Read") /\ UNCHANGED out
               \/ o = "reject" /\ RejectAt("Read")
     ELSE /\ Pass("Read") /\ UNCHANGED <<pos, out>>
  /\ UNCHANGED <<req, handled, validated, changed, flags>>

Step(s) ==
  /\ stage = s
  /\ LET v == Verdict(s, req) IN
       \/ /\ v \in {"pass", "any"}
          /\ Pass(s)
          /\ validated' = (IF s = "Validate" THEN TRUE ELSE validated)
          /\ IF s = "Handle"
             THEN /\ handled' = TRUE
                  /\ out' = [kind |-> "proper", status |-> "success"]
                  /\ changed' \in (IF req.target \in MutatingTargets THEN BOOLEAN ELSE {FALSE})
             ELSE UNCHANGED <<handled, out, changed>>
       \/ /\ v \in {"reject", "any"}
          /\ RejectAt(s)
          /\ handled' = (IF s = "Handle" THEN TRUE ELSE handled)   \* the handler ran and refused
          /\ UNCHANGED <<validated, changed>>
  /\ UNCHANGED <<req, pos, flags>>

Decode == stage = "Decode" /\ Step("Decode")
Route == stage = "Route" /\ Step("Route")
Parse == stage = "Parse" /\ Step("Parse")
Validate == stage = "Validate" /\ Step("Validate")
Dispatch == stage = "Dispatch" /\ Step("Dispatch")
Handle == stage = "Handle" /\ Step("Handle")

Respond == /\ stage = "Respond"
           /\ stage' = "Done"
           /\ UNCHANGED <<req, pos, out, handled, validated, changed, flags>>

Next == ReadTok \/ Decode \/ Route \/ Parse \/ Validate \/ Dispatch \/ Handle \/ Respond

Spec == Init /\ [][Next]_vars /\ WF_vars(Next)

\* enumeration of the domain only (cases are printed by Init when EmitOnly)
EmitSpec == Init /\ [][UNCHANGED vars]_vars

---------------------------------------------------------------------------
(* properties *)
Total == <>(stage = "Done")

Stages == {"Read", "Decode", "Route", "Parse", "Validate", "Dispatch", "Handle", "Respond", "Done"}
TypeOK == /\ stage \in Stages
          /\ pos \in 0..4
          /\ out.kind \in {"none", "proper", "fault", "bare"}
          /\ handled \in BOOLEAN /\ validated \in BOOLEAN /\ changed \in BOOLEAN

Done == stage = "Done"

\* the reader never runs off the end of the stream: every stream ends in a token that ends the Read stage
ReadProgress == (stage = "Read" /\ req.via = "handler" /\ req.method = "POST") => pos < Len(Stream(req.framing))

\* a response exists and its shape fits its kind:
\*   proper = success status + the response of the request type; fault = well-formed SOAP fault (any status);
\*   bare = error status without SOAP body, admissible only for rejections at the HTTP level
StatusFits == \/ out.kind = "proper" /\ out.status = "success"
              \/ out.kind = "fault" /\ out.status \in {"success", "error", "any"}
              \/ out.kind = "bare" /\ out.status = "error"
Outcome == Done => (out.kind \in {"proper", "fault", "bare"} /\ StatusFits)
FoldAgrees == Done => out.kind \in AllowedKinds(req)
NoEscape == ~flags.escaped
NoSpin == ~flags.spin
BoundedRead == ~flags.unbounded
NoExpansion == ~flags.expanded
NoFetch == ~flags.fetched
OneResponse == ~flags.again
RejectIsNoop == (Done /\ out.kind # "proper") => ~changed
ValidatedFirst == (handled /\ req.method = "POST") => validated
HandledOnlyIfAdmissible == handled => \A i \in 1..6 : Verdict(StageSeq[i], req) # "reject"
AcceptOnlyHandled == (Done /\ out.kind = "proper") => handled

\* sanity of the domain: every class value occurs, valid requests must be accepted
DomainOK == \/ Part = "trace"
            \/ /\ \A t \in PostTargets \ UnimplTargets : \E r \in Requests : r.target = t /\ MustAccept(r)
               /\ \A r \in Requests : AllowedKinds(r) # {}
               /\ \A r \in Requests : r.target \in UnimplTargets => MustReject(r)
ASSUME DomainOK
=============================================================================
