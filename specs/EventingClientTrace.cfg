SPECIFICATION TraceSpec
CONSTANTS
  Subs <- TrSubs
  ReqVals = {1, 2, 3}
  MaxDur = 2
  MaxSteps = 1000
VIEW View
POSTCONDITION AllConsumed
