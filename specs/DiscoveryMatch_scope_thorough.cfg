SPECIFICATION ScopeSpec
CONSTANTS
  Which = "scope"
  DeepAlpha <- Alpha5
  DeepMax = 3
  WideAlpha <- AlphaAll
  WideMax = 2
  HeadMax = 1
  StrMax = 2
  ListMax = 2
  ScopeListMax = 2
INVARIANT LawRefl
INVARIANT LawStrImpliesRfc
INVARIANT LawRfcAgree
INVARIANT LawPrefixClosed
INVARIANT LawAntisym
INVARIANT LawTrans
INVARIANT LawDecoding
INVARIANT LawSegmentwise
INVARIANT LawRuleDefault
