SPECIFICATION Spec
CONSTANTS
  Classes <- QuickClasses
  Shapes = {"mid", "rot"}
  AbsentModes = {"none"}
  Schemes = {"loc", "upper", "opr", "none"}
  Auths = {"none", "badv6"}
  Frags = {"no"}
INVARIANT LawRoundTrip
INVARIANT LawWiden
INVARIANT LawChange
INVARIANT LawPresence
INVARIANT LawForeign
INVARIANT LawIdent
CONSTRAINT EmitCase
