----------------------------- MODULE UdpSendLoop -----------------------------
(***************************************************************************)
(* C15, the transmissions themselves: operational model of the send loop   *)
(* of NetworkingThread (_run_send) with SEVERAL messages in flight.        *)
(*                                                                         *)
(* Time is in whole milliseconds.  A message m is handed to the networking *)
(* thread at Enq[m]; its planned transmission times are                    *)
(*   Enq[m] + Schedule(ParamSet(ps), d0, g)[i]        (UdpRepeat.tla)      *)
(* The loop polls: queue empty -> sleep Idle; head of the queue due ->     *)
(* transmit it at once; otherwise sleep Busy.  A message may be handed     *)
(* over at any moment, in particular while the loop sleeps.                *)
(*                                                                         *)
(* Property (OnTime, Complete): every planned transmission is made exactly *)
(* once, per message in planned order, not before its planned time and at  *)
(* most one polling raster R = max(Idle, Busy) after it - so the envelope  *)
(* of the schedule (initial delay, first gap, doubling, cap) holds for the *)
(* datagrams on the wire up to that raster, however messages overlap.      *)
(***************************************************************************)
EXTENDS UdpRepeat

CONSTANTS Idle, Busy,       \* ms the loop sleeps with an empty queue / with a head that is not due yet
          BTimes            \* moments at which the second message is handed over

VARIABLES now,      \* current time
          wake,     \* the loop sleeps until this time
          queue,    \* planned transmissions not yet made: [t, m, i]
          sent,     \* transmissions made: sequence of [t, plan, m, i]
          todo      \* messages not handed over yet

lvars == <<case, now, wake, queue, sent, todo>>

Max(a, b) == IF a >= b THEN a ELSE b
Raster == Max(Idle, Busy)

\* a case: two messages, each [ps, d0, g, te]
Msgs == {"A", "B"}
Sched(m) == Schedule(ParamSet(case[m].ps), case[m].d0, case[m].g)
Plan(m) == {[t |-> case[m].te + Sched(m)[i], m |-> m, i |-> i] : i \in 1..Len(Sched(m))}

\* sampled domain: A multicast from time 0, B of either set handed over at tb
ADom == [ps : {"multicast"}, d0 : {0, 200}, g : {50, 249}, te : {0}]
BDom == [ps : PSets, d0 : {0, 3, 120}, g : {50, 100}, te : BTimes]

LoopInit == /\ case \in [A : ADom, B : BDom]
            /\ now = 0 /\ wake = 0 /\ queue = {} /\ sent = <<>> /\ todo = Msgs

MRank(m) == IF m = "A" THEN 1 ELSE 2
QHead == CHOOSE e \in queue : \A f \in queue : <<e.t, e.m, e.i>> = <<f.t, f.m, f.i>> \/ e.t < f.t
                                                \/ (e.t = f.t /\ (MRank(e.m) < MRank(f.m) \/ (e.m = f.m /\ e.i < f.i)))
\* (two entries due at the same millisecond: the order among them is not constrained by the property; the model
\*  takes them by message then index)

HandOver(m) == /\ m \in todo /\ case[m].te = now
               /\ queue' = queue \cup Plan(m)
               /\ todo' = todo \ {m}
               /\ UNCHANGED <<case, now, wake, sent>>

Poll == /\ now = wake
        /\ IF queue = {} THEN /\ todo # {}          \* (the real loop ends when it is told to quit and the queue is empty)
                              /\ wake' = now + Idle /\ UNCHANGED <<queue, sent>>
           ELSE IF QHead.t <= now
                THEN /\ sent' = Append(sent, [t |-> now, plan |-> QHead.t, m |-> QHead.m, i |-> QHead.i])
                     /\ queue' = queue \ {QHead}
                     /\ wake' = now
                ELSE wake' = now + Busy /\ UNCHANGED <<queue, sent>>
        /\ UNCHANGED <<case, now, todo>>

\* time passes while the loop sleeps, up to the next moment something can happen
NextEvent == LET ts == {wake} \cup {case[m].te : m \in todo} IN CHOOSE t \in ts : \A u \in ts : t <= u
Pass == /\ now < wake /\ now < NextEvent
        /\ \A m \in todo : case[m].te # now
        /\ now' = NextEvent
        /\ UNCHANGED <<case, wake, queue, sent, todo>>

Done == queue = {} /\ todo = {}
LoopNext == (\E m \in Msgs : HandOver(m)) \/ Poll \/ Pass \/ (Done /\ UNCHANGED lvars)
LoopSpec == LoopInit /\ [][LoopNext]_lvars /\ WF_lvars(LoopNext)

\* ---- the property -------------------------------------------------------------------
Of(s, m) == SelectSeq(s, LAMBDA e : e.m = m)
OnTimeSeq(s, r) == \A k \in 1..Len(s) : s[k].plan <= s[k].t /\ s[k].t <= s[k].plan + r
InOrderSeq(s) == \A m \in Msgs : \A k \in 1..Len(Of(s, m)) : Of(s, m)[k].i = k
CompleteSeq(s) == \A m \in Msgs : Len(Of(s, m)) = 1 + ParamSet(case[m].ps).repeat

OnTime == OnTimeSeq(sent, Raster)
InOrder == InOrderSeq(sent)
Complete == Done => CompleteSeq(sent)
Terminates == <>Done
\* the wire envelope: gaps between the transmissions of one message deviate from the planned gaps by at most the raster
WireEnvelope == \A m \in Msgs : LET s == Of(sent, m) IN
                  \A k \in 1..(Len(s) - 1) :
                    LET gap == s[k + 1].t - s[k].t
                        planned == s[k + 1].plan - s[k].plan
                    IN planned - Raster <= gap /\ gap <= planned + Raster

EmitCase == Done => PrintT(<<"LCASE", ToJson([A |-> case.A, B |-> case.B,
                                              exp |-> [k \in 1..Len(sent) |-> <<sent[k].t, sent[k].m, sent[k].i>>]])>>)
=============================================================================
