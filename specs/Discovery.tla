------------------------------ MODULE Discovery ------------------------------
(***************************************************************************)
(* C14, part (b): operational model of one WS-Discovery node               *)
(* (sdc11073.wsdiscovery.WSDiscovery + the duplicate filter of its         *)
(* NetworkingThread) at the level of the property:                         *)
(*                                                                         *)
(*  ProbeAnswer    a Probe is answered with exactly the locally published  *)
(*                 services that pass MatchesFilter (DiscoveryMatch.tla)   *)
(*  ResolveAnswer  a Resolve is answered only for a published EPR          *)
(*  HighestMv      the remote table holds, per EPR, the announcement with  *)
(*                 the highest metadata version acted upon since the last  *)
(*                 Bye for that EPR                                        *)
(*  ActOnce        a message whose id is among the remembered ids changes  *)
(*                 nothing and is not answered                             *)
(*                                                                         *)
(* Records                                                                 *)
(*  service / announcement  [e, mv, types, scopes, xaddrs]  (lists; an     *)
(*                 absent optional element is the empty list)              *)
(*  incoming message        [kind, id, anns, e, flt]                       *)
(*  outgoing message        [kind, rel, to, anns, e]                       *)
(*                                                                         *)
(* "The announcement with the highest version": several announcements can  *)
(* carry the same highest version (Hello without XAddrs, then ResolveMatch *)
(* with them).  ann keeps all of them; the table entry must have that      *)
(* version and every field must be the field of one of them (RemoteOK).    *)
(* The variable remote follows one admissible arbitration (the one of the  *)
(* code: equal version => merge) and InvHighest shows it is admissible; the*)
(* real table is judged with RemoteOK only (DiscoveryTrace.tla).           *)
(*                                                                         *)
(* Remembered ids: FIFO of capacity Cap, newest first.  The node also      *)
(* remembers the ids of the messages it sends ("own" = id of its most      *)
(* recent message, "old" = ids of earlier ones), so the multicast echo of  *)
(* an own message is ignored while its id is remembered (action Echo).     *)
(***************************************************************************)
EXTENDS DiscoveryMatch, Json

CONSTANTS Eprs,         \* endpoint references of announced (remote) services; the node's own echo adds LocalEprs
          LocalEprs,    \* endpoint references the node publishes itself
          DupAll,       \* TRUE: duplicates range over all messages (emission); FALSE: one per kind (exhaustive check)
          UnknownEpr,   \* an EPR nobody publishes (Resolve only)
          Versions,     \* metadata versions of announcements
          MsgIds,       \* message ids of incoming messages (may repeat)
          Cap,          \* capacity of the id memory
          Contents,     \* announcement contents [types, scopes, xaddrs]
          PairContents, \* contents used in ProbeMatches with two matches
          Profiles,     \* contents of locally published services
          Filters,      \* probe filters [types, scopes, rule]
          MaxOps        \* 0: no history (exhaustive check); n: behaviours of n steps are emitted

VARIABLES local,    \* set of published services
          ann,      \* ghost: announcements acted upon since the last Bye that carry the highest version, all EPRs
          maxv,     \* ghost: maxv[e] = highest version acted upon since the last Bye of e, 0 = none
          remote,   \* table of discovered services (one admissible arbitration)
          seen,     \* remembered message ids, newest first
          sent,     \* messages sent in reaction to the last step
          lastOwn,  \* most recent own message in the shape of an incoming one (what a multicast echo delivers)
          last,     \* summary of the input of the last step [kind, id, e, flt, dup]
          hist

vars == <<local, ann, maxv, remote, seen, sent, lastOwn, last, hist>>
view == <<local, ann, maxv, remote, seen, sent, lastOwn, last>>

AllEprs == Eprs \cup LocalEprs
Rng(s) == {s[i] : i \in DOMAIN s}
Min(a, b) == IF a < b THEN a ELSE b
Max(a, b) == IF a > b THEN a ELSE b
SetAsSeq(S) == CHOOSE s \in [1..Cardinality(S) -> S] : \A i, j \in 1..Cardinality(S) : i # j => s[i] # s[j]

MkSvc(e, mv, c) == [e |-> e, mv |-> mv, types |-> c.types, scopes |-> c.scopes, xaddrs |-> c.xaddrs]
Of(S, e) == {x \in S : x.e = e}
\* lists are compared as sets (order and repetition of types / scopes / addresses carry no meaning)
SameSvc(x, y) == /\ x.e = y.e /\ x.mv = y.mv /\ Rng(x.types) = Rng(y.types)
                 /\ Rng(x.scopes) = Rng(y.scopes) /\ Rng(x.xaddrs) = Rng(y.xaddrs)
SameTable(S, T) == (\A x \in S : \E y \in T : SameSvc(x, y)) /\ (\A y \in T : \E x \in S : SameSvc(x, y))

NoFlt == [types |-> NoList, scopes |-> NoList, rule |-> "absent"]
NoContent == [types |-> <<>>, scopes |-> <<>>, xaddrs |-> <<>>]
NoIn == [kind |-> "None", id |-> "", anns |-> <<>>, e |-> "", flt |-> NoFlt]
In(kind, id, anns, e, flt) == [kind |-> kind, id |-> id, anns |-> anns, e |-> e, flt |-> flt]
Out(kind, rel, to, anns, e) == [kind |-> kind, rel |-> rel, to |-> to, anns |-> anns, e |-> e]
AnnKinds == {"Hello", "ProbeMatches", "ResolveMatches"}

\* ---- the property-level arbitration ------------------------------------------------------
Upd1(A, a) == LET cur == Of(A, a.e) IN
  IF cur = {} THEN A \cup {a}
  ELSE LET m == (CHOOSE x \in cur : TRUE).mv IN
       IF a.mv > m THEN (A \ cur) \cup {a} ELSE IF a.mv = m THEN A \cup {a} ELSE A
RECURSIVE UpdAll(_, _)
UpdAll(A, as) == IF as = <<>> THEN A ELSE UpdAll(Upd1(A, Head(as)), Tail(as))

\* effect of acting upon message m on the ghost
AnnAfter(A, m) == IF m.kind \in AnnKinds THEN UpdAll(A, m.anns)
                  ELSE IF m.kind = "Bye" THEN A \ Of(A, m.e) ELSE A

\* HighestMv: T is an admissible table for the announcements A
RemoteOK(T, A) ==
  /\ {r.e : r \in T} = {a.e : a \in A}
  /\ \A r \in T :
       /\ Cardinality(Of(T, r.e)) = 1
       /\ \A a \in Of(A, r.e) : a.mv = r.mv
       /\ \E a \in Of(A, r.e) : Rng(a.types) = Rng(r.types)
       /\ \E a \in Of(A, r.e) : Rng(a.scopes) = Rng(r.scopes)
       /\ \E a \in Of(A, r.e) : Rng(a.xaddrs) = Rng(r.xaddrs)

\* ---- answers ------------------------------------------------------------------------------
Matching(L, flt) == {s \in L : MatchesFilter(s, flt)}
Answered(out) == UNION {Rng(out[i].anns) : i \in {j \in DOMAIN out : out[j].kind = "ProbeMatches"}}

\* ProbeAnswer for one observed reaction `out` of a node with published services L to a fresh Probe
ProbeAnswerSet(L, flt, out) == {a.e : a \in Answered(out)} = {s.e : s \in Matching(L, flt)}
ProbeAnswerContent(L, out) == \A a \in Answered(out) : \E s \in L : SameSvc(a, s)
ProbeAnswerAddressing(id, out) ==
  \A i \in DOMAIN out : out[i].kind = "ProbeMatches" /\ out[i].rel = id /\ out[i].to = "sender"
\* ResolveAnswer: answered only for a published EPR (and then with that service, to the sender)
ResolveAnswerOK(L, e, id, out) ==
  \A i \in DOMAIN out :
     /\ out[i].kind = "ResolveMatches" /\ out[i].rel = id /\ out[i].to = "sender"
     /\ Len(out[i].anns) = 1
     /\ out[i].anns[1].e = e
     /\ \E s \in L : SameSvc(out[i].anns[1], s)
NoAnswers(out) == \A i \in DOMAIN out : out[i].kind \notin {"ProbeMatches", "ResolveMatches"}

\* ---- one admissible arbitration for the table (equal version: merge) ------------------------
Merge1(T, a) == LET cur == Of(T, a.e) IN
  IF cur = {} THEN T \cup {a}
  ELSE LET c == CHOOSE x \in cur : TRUE IN
       IF a.mv > c.mv THEN (T \ cur) \cup {a}
       ELSE IF a.mv = c.mv
            THEN (T \ cur) \cup {[c EXCEPT !.xaddrs = IF Len(a.xaddrs) > Len(@) THEN a.xaddrs ELSE @,
                                          !.scopes = IF a.scopes # <<>> THEN a.scopes ELSE @,
                                          !.types = IF a.types # <<>> THEN a.types ELSE @]}
            ELSE T
RECURSIVE MergeAll(_, _)
MergeAll(T, as) == IF as = <<>> THEN T ELSE MergeAll(Merge1(T, Head(as)), Tail(as))

RECURSIVE MaxAll(_, _)
MaxAll(mv, as) == IF as = <<>> THEN mv
                  ELSE MaxAll([mv EXCEPT ![Head(as).e] = Max(@, Head(as).mv)], Tail(as))

\* ---- id memory --------------------------------------------------------------------------------
Fresh(id) == id \notin Rng(seen)
Rename(s) == [i \in DOMAIN s |-> IF s[i] = "own" THEN "old" ELSE s[i]]
OwnIds(k) == IF k = 0 THEN <<>> ELSE <<"own">> \o [i \in 1..(k - 1) |-> "old"]
Trunc(s) == SubSeq(s, 1, Min(Len(s), Cap))
\* ids pushed by one step: the incoming id (if any) first, then one id per message sent
Remember(in, k) == Trunc(OwnIds(k) \o (IF k > 0 THEN Rename(in \o seen) ELSE in \o seen))
AsIn(o) == In(o.kind, "own", o.anns, o.e, NoFlt)

Log(rec) == hist' = IF MaxOps = 0 THEN hist ELSE Append(hist, rec)
LogRecv(act, m) == Log([act |-> act, msg |-> m, e |-> "", p |-> NoContent])
SetLast(m) == last' = [kind |-> m.kind, id |-> m.id, e |-> m.e, flt |-> m.flt, dup |-> ~Fresh(m.id)]

\* the node needs more information about an announced service and asks for it
NeedsResolve(kind, a) == IF kind = "Hello" THEN a.xaddrs = <<>>
                         ELSE IF kind = "ProbeMatches" THEN a.xaddrs = <<>> \/ a.types = <<>> \/ a.scopes = <<>>
                         ELSE FALSE
Resolves(kind, as) == LET idx == {i \in DOMAIN as : NeedsResolve(kind, as[i])} IN
  [k \in 1..Cardinality(idx) |->
     Out("Resolve", "", "mc", <<>>, as[CHOOSE i \in idx : Cardinality({j \in idx : j < i}) = k - 1].e)]

Reaction(m) ==
  CASE m.kind \in AnnKinds -> Resolves(m.kind, m.anns)
    [] m.kind = "Probe" ->
         \* second formulation of the filter on purpose (invariant ProbeAnswer uses the first)
         LET S == SetAsSeq({s \in local : MatchesFilter2(s, m.flt)}) IN
         [i \in DOMAIN S |-> Out("ProbeMatches", m.id, "sender", <<S[i]>>, "")]
    [] m.kind = "Resolve" ->
         IF Of(local, m.e) = {} THEN <<>>
         ELSE <<Out("ResolveMatches", m.id, "sender", <<CHOOSE s \in Of(local, m.e) : TRUE>>, "")>>
    [] OTHER -> <<>>

\* the node acts upon m
Deliver(m) ==
  LET out == Reaction(m) IN
  /\ ann' = AnnAfter(ann, m)
  /\ maxv' = IF m.kind \in AnnKinds THEN MaxAll(maxv, m.anns)
             ELSE IF m.kind = "Bye" THEN [maxv EXCEPT ![m.e] = 0] ELSE maxv
  /\ remote' = IF m.kind \in AnnKinds THEN MergeAll(remote, m.anns)
               ELSE IF m.kind = "Bye" THEN remote \ Of(remote, m.e) ELSE remote
  /\ sent' = out
  /\ seen' = Remember(<<m.id>>, Len(out))
  /\ lastOwn' = IF Len(out) > 0 THEN AsIn(out[Len(out)]) ELSE lastOwn
  /\ UNCHANGED local

Ignore == UNCHANGED <<local, ann, maxv, remote, seen, lastOwn>> /\ sent' = <<>>

Acts(m) == Deliver(m) /\ SetLast(m) /\ LogRecv("Recv", m)
RecvFresh(m) == Fresh(m.id) /\ Acts(m)

\* ---- messages of the environment -------------------------------------------------------------
Anns1 == {<<MkSvc(e, v, c)>> : e \in Eprs, v \in Versions, c \in Contents}
Anns2 == {<<MkSvc(e1, v1, c1), MkSvc(e2, v2, c2)>> :
             e1 \in Eprs, e2 \in Eprs, v1 \in Versions, v2 \in Versions, c1 \in PairContents, c2 \in PairContents}

RecvHello(as, id) == Fresh(id) /\ Acts(In("Hello", id, as, "", NoFlt))
RecvProbeMatches(as, id) == Fresh(id) /\ Acts(In("ProbeMatches", id, as, "", NoFlt))
RecvProbeMatches2(as, id) == Fresh(id) /\ Acts(In("ProbeMatches", id, as, "", NoFlt))
RecvResolveMatches(as, id) == Fresh(id) /\ Acts(In("ResolveMatches", id, as, "", NoFlt))
\* ProbeMatches without ProbeMatch / ResolveMatches without ResolveMatch (optional parts missing)
RecvEmptyMatches(kind, id) == Fresh(id) /\ Acts(In(kind, id, <<>>, "", NoFlt))
RecvBye(e, id) == Fresh(id) /\ Acts(In("Bye", id, <<>>, e, NoFlt))
RecvProbe(f, id) == Fresh(id) /\ Acts(In("Probe", id, <<>>, "", f))
RecvResolve(e, id) == Fresh(id) /\ Acts(In("Resolve", id, <<>>, e, NoFlt))

InWith(ids) ==
         {In(k, id, as, "", NoFlt) : k \in AnnKinds, id \in ids, as \in Anns1}
         \cup {In("ProbeMatches", id, as, "", NoFlt) : id \in ids, as \in Anns2}
         \cup {In(k, id, <<>>, "", NoFlt) : k \in {"ProbeMatches", "ResolveMatches"}, id \in ids}
         \cup {In("Bye", id, <<>>, e, NoFlt) : id \in ids, e \in Eprs}
         \cup {In("Probe", id, <<>>, "", f) : id \in ids, f \in Filters}
         \cup {In("Resolve", id, <<>>, e, NoFlt) : id \in ids, e \in LocalEprs \cup {UnknownEpr}}
\* all messages of the environment / all of them with the id left open
AllIn == InWith(MsgIds)
Shapes == InWith({""})
\* the content of a message that is not acted upon is irrelevant for the model; for the exhaustive check one
\* message per kind and id is enough, for the emitted behaviours all of them are used
OneOf(S) == IF S = {} THEN {} ELSE {CHOOSE x \in S : TRUE}
DupMsgs == IF DupAll THEN AllIn
           ELSE UNION {OneOf({m \in AllIn : m.kind = k /\ m.id = id}) :
                         k \in AnnKinds \cup {"Bye", "Probe", "Resolve"}, id \in MsgIds}

\* a message whose id is remembered
Duplicate(m) == ~Fresh(m.id) /\ Ignore /\ SetLast(m) /\ LogRecv("Recv", m)

\* the multicast echo of the node's most recent own message
Echo == /\ lastOwn.kind # "None"
        /\ IF Fresh("own") THEN Deliver(lastOwn) ELSE Ignore
        /\ SetLast(lastOwn)
        /\ LogRecv("Echo", lastOwn)

\* ---- API of the node ----------------------------------------------------------------------------
PublishDo(e, p) ==
  LET old == Of(local, e)
      mv == IF old = {} THEN 1 ELSE (CHOOSE s \in old : TRUE).mv + 1
      svc == MkSvc(e, mv, p)
      out == <<Out("Hello", "", "mc", <<svc>>, "")>> IN
  /\ mv <= 3
  /\ local' = (local \ old) \cup {svc}
  /\ sent' = out
  /\ seen' = Remember(<<>>, 1)
  /\ lastOwn' = AsIn(out[1])
  /\ last' = [kind |-> "Api", id |-> "", e |-> e, flt |-> NoFlt, dup |-> FALSE]
  /\ UNCHANGED <<ann, maxv, remote>>
  /\ Log([act |-> "Publish", msg |-> NoIn, e |-> e, p |-> p])

Publish(e, p) == e \in LocalEprs /\ PublishDo(e, p)

UnpublishDo(e) ==
  LET out == <<Out("Bye", "", "mc", <<>>, e)>> IN
  /\ Of(local, e) # {}
  /\ local' = local \ Of(local, e)
  /\ sent' = out
  /\ seen' = Remember(<<>>, 1)
  /\ lastOwn' = AsIn(out[1])
  /\ last' = [kind |-> "Api", id |-> "", e |-> e, flt |-> NoFlt, dup |-> FALSE]
  /\ UNCHANGED <<ann, maxv, remote>>
  /\ Log([act |-> "Unpublish", msg |-> NoIn, e |-> e, p |-> NoContent])

Unpublish(e) == e \in LocalEprs /\ UnpublishDo(e)

Init == /\ local = {} /\ ann = {} /\ remote = {} /\ seen = <<>> /\ sent = <<>>
        /\ maxv = [e \in AllEprs |-> 0]
        /\ lastOwn = NoIn
        /\ last = [kind |-> "Api", id |-> "", e |-> "", flt |-> NoFlt, dup |-> FALSE]
        /\ hist = <<[act |-> "Init", msg |-> NoIn, e |-> "", p |-> NoContent]>>

Next == \/ \E as \in Anns1, id \in MsgIds : RecvHello(as, id)
        \/ \E as \in Anns1, id \in MsgIds : RecvProbeMatches(as, id)
        \/ \E as \in Anns2, id \in MsgIds : RecvProbeMatches2(as, id)
        \/ \E as \in Anns1, id \in MsgIds : RecvResolveMatches(as, id)
        \/ \E k \in {"ProbeMatches", "ResolveMatches"}, id \in MsgIds : RecvEmptyMatches(k, id)
        \/ \E e \in Eprs, id \in MsgIds : RecvBye(e, id)
        \/ \E f \in Filters, id \in MsgIds : RecvProbe(f, id)
        \/ \E e \in LocalEprs \cup {UnknownEpr}, id \in MsgIds : RecvResolve(e, id)
        \/ \E m \in DupMsgs : Duplicate(m)
        \/ Echo
        \/ \E e \in LocalEprs, p \in Profiles : Publish(e, p)
        \/ \E e \in LocalEprs : Unpublish(e)

Spec == Init /\ [][Next]_vars

\* ---- properties -------------------------------------------------------------------------------------
InvHighest == RemoteOK(remote, ann)
\* independent formulation with the per-EPR maximum
InvMax == \A e \in AllEprs : /\ (Of(remote, e) = {}) = (maxv[e] = 0)
                          /\ Cardinality(Of(remote, e)) <= 1
                          /\ \A r \in Of(remote, e) : r.mv = maxv[e]
                          /\ \A a \in Of(ann, e) : a.mv = maxv[e]
InvSeen == Len(seen) <= Cap
ProbeAnswer == (last.kind = "Probe" /\ ~last.dup) =>
                  /\ ProbeAnswerSet(local, last.flt, sent)
                  /\ ProbeAnswerContent(local, sent)
                  /\ ProbeAnswerAddressing(last.id, sent)
ResolveAnswer == last.kind = "Resolve" =>
                  /\ ResolveAnswerOK(local, last.e, last.id, sent)
                  /\ (sent # <<>> => ~last.dup /\ Of(local, last.e) # {})
OnlyAnswers == last.kind \notin {"Probe", "Resolve", "Api"} => NoAnswers(sent)
\* ActOnce: an input whose id is remembered changes nothing and is not answered
ActOnce == [][(last'.kind # "Api" /\ last'.id \in Rng(seen))
                 => (UNCHANGED <<local, ann, maxv, remote, seen>> /\ sent' = <<>>)]_vars
\* an id that was acted upon is remembered right afterwards (unless the ids of the node's own reactions
\* already fill the whole memory)
Remembered == [][(last'.kind \notin {"Api", "None"} /\ last'.id # "own" /\ last'.id \notin Rng(seen) /\ Len(sent') < Cap)
                   => last'.id \in Rng(seen')]_vars

\* ---- behaviour emission ------------------------------------------------------------------------------
Bounded == Len(hist) <= MaxOps + 1
EmitLeaf == Bounded /\ ((Len(hist) = MaxOps + 1) => PrintT(<<"BEH", ToJson(hist)>>))
=============================================================================
