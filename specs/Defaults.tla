------------------------------ MODULE Defaults ------------------------------
(***************************************************************************)
(* C12 - instances never share mutable state or alter the defaults of      *)
(* later instances.                                                        *)
(*                                                                         *)
(* Heap model of ONE default-valued member (object valued or list valued)  *)
(* of one class.  Every instance holds a reference to a heap cell that     *)
(* carries the (canonical) value of the member; cell Dflt is the class     *)
(* level default object (`_default_py_value`, or the empty list a list     *)
(* property starts with).  The value an instance shows is heap[ref[i]].    *)
(*                                                                         *)
(* One action per API call of the real library:                            *)
(*   New(i)            cls()                                               *)
(*   ParseAbsent(i)    cls.from_node(xml in which the member is absent)    *)
(*   ParsePresent(i,v) cls.from_node(xml that carries value v)             *)
(*   DeepCopy(s,i)     copy.deepcopy(inst_s)                               *)
(*   MkCopy(s,i)       inst_s.mk_copy()              (containers only)     *)
(*   UpdateFrom(s,t)   inst_t.update_from_other_container(inst_s)  (dto.)  *)
(*   MutateNested(i,v) write into the nested object of inst_i in place     *)
(*   Drop(i)           the application forgets inst_i                      *)
(*                                                                         *)
(* The reference semantics gives every instance a private cell.  The two   *)
(* BOOLEAN constants switch on the defects the property forbids (used only *)
(* to show that the invariants are not vacuous: TLC must find a counter-   *)
(* example for each of them).                                              *)
(***************************************************************************)
EXTENDS Naturals, Sequences, FiniteSets, TLC, Json

CONSTANTS N,            \* instances are 1..N
          NVals,        \* number of values written by ParsePresent / MutateNested ("v1", "v2", ..; # D0)
          Ops,          \* enabled API calls (data types have no mk_copy / update_from_other_container)
          MaxOps,       \* bound on the history length (tree enumeration only)
          ShareAbsent,  \* defect switch: ParseAbsent hands out the default cell itself
          ShallowCopy   \* defect switch: MkCopy / UpdateFrom share the cell of the source

VARIABLES live,     \* set of instances the application holds
          ref,      \* ref[i]  : cell the member of instance i points to
          heap,     \* heap[c] : value stored in cell c
          hist      \* action history (behaviour emission; hidden by VIEW in the exhaustive cfg)

vars == <<live, ref, heap, hist>>
view == <<live, ref, heap>>

Inst == 1..N
\* the written values are interchangeable: emitted histories use them in this order of first appearance
ValOrder == [k \in 1..NVals |-> "v" \o ToString(k)]
Vals == {ValOrder[k] : k \in 1..NVals}
Dflt == 0                      \* the cell of the class level default
Cells == Inst \cup {Dflt}      \* cell i is the private cell of instance i
D0 == "D0"                     \* value of the class default
Tok == {D0} \cup Vals
Dead == "-"                    \* value shown in a record for an instance that is not live

Val(i) == heap[ref[i]]         \* what the application reads through instance i
FreshValue == heap[Dflt]       \* what cls() would show if it were called now
ValNext(i) == heap'[ref'[i]]   \* Val(i) in the next state (primes the variables only, not i)

TypeOK == /\ live \subseteq Inst
          /\ ref \in [Inst -> Cells]
          /\ heap \in [Cells -> Tok]

Init == /\ live = {}
        /\ ref = [i \in Inst |-> i]
        /\ heap = [c \in Cells |-> D0]
        /\ hist = <<[act |-> "Init"]>>

Log(rec) == hist' = Append(hist, rec)

\* new instances take the lowest free number (instances are interchangeable)
Free(i) == i \notin live /\ \A j \in Inst \ live : i <= j

\* instance i appears with a private cell holding value v
Private(i, v) == /\ live' = live \cup {i}
                 /\ ref' = [ref EXCEPT ![i] = i]
                 /\ heap' = [heap EXCEPT ![i] = v]
\* instance i appears pointing to an existing cell c (defects only)
Shared(i, c) == /\ live' = live \cup {i}
                /\ ref' = [ref EXCEPT ![i] = c]
                /\ UNCHANGED heap

NewCore(i) == "New" \in Ops /\ Free(i) /\ Private(i, heap[Dflt])
New(i) == NewCore(i) /\ Log([act |-> "New", i |-> i])

ParseAbsentCore(i) == /\ "ParseAbsent" \in Ops /\ Free(i)
                      /\ IF ShareAbsent THEN Shared(i, Dflt) ELSE Private(i, heap[Dflt])
ParseAbsent(i) == ParseAbsentCore(i) /\ Log([act |-> "ParseAbsent", i |-> i])

ParsePresentCore(i, v) == "ParsePresent" \in Ops /\ Free(i) /\ v \in Vals /\ Private(i, v)
ParsePresent(i, v) == ParsePresentCore(i, v) /\ Log([act |-> "ParsePresent", i |-> i, v |-> v])

DeepCopyCore(s, i) == "DeepCopy" \in Ops /\ s \in live /\ Free(i) /\ Private(i, Val(s))
DeepCopy(s, i) == DeepCopyCore(s, i) /\ Log([act |-> "DeepCopy", s |-> s, i |-> i])

MkCopyCore(s, i) == /\ "MkCopy" \in Ops /\ s \in live /\ Free(i)
                    /\ IF ShallowCopy THEN Shared(i, ref[s]) ELSE Private(i, Val(s))
MkCopy(s, i) == MkCopyCore(s, i) /\ Log([act |-> "MkCopy", s |-> s, i |-> i])

\* an existing instance takes over the value of another one
UpdateFromCore(s, t) == /\ "UpdateFrom" \in Ops /\ s \in live /\ t \in live /\ s # t
                        /\ Val(s) # Val(t)
                        /\ IF ShallowCopy
                             THEN ref' = [ref EXCEPT ![t] = ref[s]] /\ UNCHANGED heap
                             ELSE ref' = [ref EXCEPT ![t] = t] /\ heap' = [heap EXCEPT ![t] = Val(s)]
                        /\ UNCHANGED live
UpdateFrom(s, t) == UpdateFromCore(s, t) /\ Log([act |-> "UpdateFrom", s |-> s, i |-> t])

\* in-place write into the nested object (attribute of the nested object / list content)
MutateNestedCore(i, v) == /\ "MutateNested" \in Ops /\ i \in live /\ v \in Vals /\ v # Val(i)
                          /\ heap' = [heap EXCEPT ![ref[i]] = v]
                          /\ UNCHANGED <<live, ref>>
MutateNested(i, v) == MutateNestedCore(i, v) /\ Log([act |-> "MutateNested", i |-> i, v |-> v])

\* the cell of a dropped instance is garbage unless somebody else points to it
DropCore(i) == /\ "Drop" \in Ops /\ i \in live
               /\ live' = live \ {i}
               /\ ref' = [ref EXCEPT ![i] = i]
               /\ heap' = IF \E j \in live \ {i} : ref[j] = i THEN heap ELSE [heap EXCEPT ![i] = D0]
Drop(i) == DropCore(i) /\ Log([act |-> "Drop", i |-> i])

Next == \/ \E i \in Inst : New(i) \/ ParseAbsent(i) \/ Drop(i)
        \/ \E i \in Inst, v \in Vals : ParsePresent(i, v) \/ MutateNested(i, v)
        \/ \E s, i \in Inst : DeepCopy(s, i) \/ MkCopy(s, i) \/ UpdateFrom(s, i)

Spec == Init /\ [][Next]_vars

\* ---- the property -----------------------------------------------------------
\* no two live instances point to the same cell, nobody points to the class default
NoSharingIn(lv, rf) == \A i \in lv : /\ rf[i] # Dflt
                                     /\ \A j \in lv \ {i} : rf[i] # rf[j]
NoSharing == NoSharingIn(live, ref)
\* a freshly constructed instance has the same value at any time
DefaultStable == FreshValue = D0

\* an API call on one instance never changes what another instance shows
Others(i) == \A j \in (live \cap live') \ {i} : ValNext(j) = Val(j)
Isolated ==
  [][/\ \A i \in Inst : (NewCore(i) \/ ParseAbsentCore(i) \/ DropCore(i)) => Others(i)
     /\ \A i \in Inst, v \in Vals : (ParsePresentCore(i, v) \/ MutateNestedCore(i, v)) => Others(i)
     /\ \A s, i \in Inst : (DeepCopyCore(s, i) \/ MkCopyCore(s, i) \/ UpdateFromCore(s, i)) => Others(i)]_view
\* ... and never the value of instances created later
DefaultUntouched == [][heap'[Dflt] = heap[Dflt]]_view

\* ---- what an API call shows to the application -------------------------------
\* (the relations recorded executions of the real classes are judged with, DefaultsTrace.tla;
\*  ObsSound lets TLC prove that the heap actions above imply them)
\* The statement does not fix WHICH value a member has that was absent in the XML, only that it is
\* private: besides the default value the tokens "None" (member is None) and "A0" (a value of its own,
\* e.g. the empty list where the constructor sets None) are accepted.
AbsentVals == {"None", "A0"}
ObsCreate(i, v) == i \notin live /\ live' = live \cup {i} /\ ValNext(i) = v
ObsNew(i) == ObsCreate(i, FreshValue)
ObsParseAbsent(i) == i \notin live /\ live' = live \cup {i} /\ ValNext(i) \in {FreshValue} \cup AbsentVals
ObsParsePresent(i, v) == ObsCreate(i, v)
ObsCopy(s, i) == s \in live /\ ObsCreate(i, Val(s))
ObsUpdateFrom(s, t) == s \in live /\ t \in live /\ live' = live /\ ValNext(t) = Val(s)
ObsMutate(i, v) == i \in live /\ live' = live /\ ValNext(i) = v
ObsDrop(i) == i \in live /\ live' = live \ {i}
ObsSound ==
  [][/\ \A i \in Inst : /\ NewCore(i) => ObsNew(i)
                        /\ ParseAbsentCore(i) => ObsParseAbsent(i)
                        /\ DropCore(i) => ObsDrop(i)
     /\ \A i \in Inst, v \in Vals : /\ ParsePresentCore(i, v) => ObsParsePresent(i, v)
                                   /\ MutateNestedCore(i, v) => ObsMutate(i, v)
     /\ \A s, i \in Inst : /\ (DeepCopyCore(s, i) \/ MkCopyCore(s, i)) => ObsCopy(s, i)
                           /\ UpdateFromCore(s, i) => ObsUpdateFrom(s, i)]_view

\* ---- behaviour emission (tree of all histories of exactly MaxOps calls) -------
Bounded == Len(hist) <= MaxOps + 1
UsedVals == {hist[k].v : k \in {n \in 1..Len(hist) : "v" \in DOMAIN hist[n]}}
CanonHist == \A k \in 2..Len(ValOrder) : ValOrder[k] \in UsedVals => ValOrder[k - 1] \in UsedVals
EmitAt(d) == (Len(hist) = d) => PrintT(<<"BEH", ToJson(hist)>>)
EmitLeaf == Bounded /\ CanonHist /\ EmitAt(MaxOps + 1)
=============================================================================
