SPECIFICATION PurposeSpec
CONSTANTS
  Descr <- McDescr
  CH <- SimCH
  MaxCalls = 4
VIEW pview
CONSTRAINT EmitPurpose
CHECK_DEADLOCK FALSE
