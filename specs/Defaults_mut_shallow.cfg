\* defect model: mk_copy / update_from_other_container share the nested object - TLC must report a violation
SPECIFICATION Spec
CONSTANTS
  N = 3
  NVals = 2
  Ops = {"New", "ParseAbsent", "ParsePresent", "DeepCopy", "MkCopy", "UpdateFrom", "MutateNested", "Drop"}
  MaxOps = 0
  ShareAbsent = FALSE
  ShallowCopy = TRUE
VIEW view
INVARIANT TypeOK
INVARIANT NoSharing
INVARIANT DefaultStable
PROPERTY Isolated
PROPERTY DefaultUntouched
PROPERTY ObsSound
