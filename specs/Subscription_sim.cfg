SPECIFICATION Spec
CONSTANTS
  Clients <- McClients
  Actions <- McActions
  Ids <- McIds
  ReqVals = {0, 1, 3}
  Filters <- McFilters
  MaxDur = 2
  MaxErrors = 1
  MaxSteps = 15
CONSTRAINT EmitSim
