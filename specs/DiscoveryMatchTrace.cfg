SPECIFICATION TraceSpec
POSTCONDITION AllConsumed
