--------------------------- MODULE UdpSendLoopTrace ---------------------------
(***************************************************************************)
(* code -> spec: judges the datagrams the REAL send loop (_run_send, under *)
(* a virtual clock) wrote to the socket while two messages were in flight. *)
(* One record per case:                                                    *)
(*   A, B    [ps, d0, g, te]  parameter set by destination, outcomes fed   *)
(*           to the two draws, hand-over time (ms)                         *)
(*   raster  the polling raster of the real module in microseconds         *)
(*           (max of its two sleep constants)                              *)
(*   tx      the datagrams in the order they were written:                 *)
(*           [t (microseconds), m]                                         *)
(* The k-th datagram of message m is judged against the k-th planned time  *)
(* te + Schedule(..)[k] of the REFERENCE (not against the code's queue).   *)
(***************************************************************************)
EXTENDS UdpSendLoop, IOUtils

VARIABLES tid, l

Data == JsonDeserialize(IOEnv.TRACE_FILE)
Traces == Data.traces

Clause(name, cond) == IF cond THEN TRUE ELSE PrintT(<<"REJECT", tid, l, name>>)

U == 1000

CaseOf(rec) == [A |-> [ps |-> rec.A.ps, d0 |-> rec.A.d0, g |-> rec.A.g, te |-> rec.A.te],
                B |-> [ps |-> rec.B.ps, d0 |-> rec.B.d0, g |-> rec.B.g, te |-> rec.B.te]]

\* the recorded datagrams as a `sent` sequence of the model (unit: microseconds)
RECURSIVE CountBefore(_, _, _)
CountBefore(tx, k, m) == IF k = 0 THEN 0 ELSE CountBefore(tx, k - 1, m) + (IF tx[k].m = m THEN 1 ELSE 0)
PlanUs(c, m, i) == LET s == Schedule(ParamSet(c[m].ps), c[m].d0, c[m].g)
                   IN IF i <= Len(s) THEN U * (c[m].te + s[i]) ELSE 0 - 1
AsSent(c, tx) == [k \in 1..Len(tx) |-> LET i == CountBefore(tx, k, tx[k].m)
                                       IN [t |-> tx[k].t, plan |-> PlanUs(c, tx[k].m, i), m |-> tx[k].m, i |-> i]]

Judge(c, rec) ==
  LET s == AsSent(c, rec.tx) IN
  /\ Clause("wire_count", \A m \in Msgs : Len(SelectSeq(s, LAMBDA e : e.m = m)) = 1 + ParamSet(c[m].ps).repeat)
  /\ Clause("wire_on_time", \A k \in 1..Len(s) : s[k].plan >= 0 => (s[k].plan <= s[k].t /\ s[k].t <= s[k].plan + rec.raster))
  /\ Clause("wire_envelope",
            \A m \in Msgs : LET q == SelectSeq(s, LAMBDA e : e.m = m /\ e.plan >= 0) IN
              \A k \in 1..(Len(q) - 1) :
                LET gap == q[k + 1].t - q[k].t
                    planned == q[k + 1].plan - q[k].plan
                IN planned - rec.raster <= gap /\ gap <= planned + rec.raster)

TraceInit == /\ tid \in 1..Len(Traces)
             /\ l = 1
             /\ case = CaseOf(Traces[tid][1])
             /\ now = 0 /\ wake = 0 /\ queue = {} /\ sent = <<>> /\ todo = {}
             /\ Judge(CaseOf(Traces[tid][1]), Traces[tid][1])

TraceNext == UNCHANGED <<lvars, tid, l>>
TraceSpec == TraceInit /\ [][TraceNext]_<<lvars, tid, l>>

Total == Data.total
AllConsumed == TLCGet("distinct") = Total
=============================================================================
