---- MODULE MultiKeyMC ----
EXTENDS MultiKey
\* o1,o2 behave like alert signal descriptors (have c, no m), o3 like an alert condition (m, no c)
McCDom == [o \in O |-> IF o = "o3" THEN {NA} ELSE K \cup {NoneK}]
McMDom == [o \in O |-> IF o = "o3" THEN (SUBSET K) \cup {{NoneK}} ELSE {{NA}}]
\* real descriptor table: Source is always a list
DescMDom == [o \in O |-> IF o = "o3" THEN SUBSET K ELSE {{NA}}]
\* generic table: every attribute present everywhere
GenCDom == [o \in O |-> K \cup {NoneK}]
GenMDom == [o \in O |-> (SUBSET K) \cup {{NoneK}}]
\* trace validation: union of all domains (the trace fixes the values)
TraceCDom == [o \in O |-> K \cup {NoneK, NA}]
TraceMDom == [o \in O |-> (SUBSET K) \cup {{NoneK}, {NA}}]
NaCDom == [o \in O |-> {NA}]
NaMDom == [o \in O |-> {{NA}}]
\* exhaustive tree: one fixed initial attribute assignment per object pattern is not enough -> all of them
TreeInit == /\ objs = {} /\ idx = EmptyIdx
            /\ attr = [o \in O |-> CHOOSE a \in AttrDom(o) : a.u = (IF o = "o3" THEN "k2" ELSE "k1") /\ a.g = "k1"]
            /\ hist = <<[act |-> "Init", res |-> "ok", a |-> attr]>>
TreeSpec == TreeInit /\ [][Next]_vars
HistView == <<objs, attr, idx, hist>>
====
