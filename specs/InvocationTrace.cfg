SPECIFICATION TraceSpec
POSTCONDITION AllConsumed
