SPECIFICATION TraceSpec
CONSTANTS
  Mgrs = {"sync", "async"}
POSTCONDITION AllConsumed
