SPECIFICATION TraceSpec
CONSTANTS
  Mgrs = {"sync", "async", "sync_ref", "async_ref"}
POSTCONDITION AllConsumed
