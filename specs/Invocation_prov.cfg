SPECIFICATION PSpec
CONSTANTS
  MaxReq = 3
  Tx = {1}
  Shapes <- Shapes1
INVARIANT TxIdsIncrease
INVARIANT LegalSeq
CONSTRAINT PEmit
