---------------------------- MODULE ContextTrace ----------------------------
(* Abstract obligations of C10 on recorded executions of set_location and   *)
(* SetContextState on a real provider: projections of the context states    *)
(* before/after every call.                                                  *)
EXTENDS Integers, Sequences, FiniteSets, TLC, Json, IOUtils
VARIABLES tid, l
Data == JsonDeserialize(IOEnv.TRACE_FILE)
Traces == Data.traces
Total == Data.total
Clause(name, cond) == IF cond THEN TRUE ELSE PrintT(<<"REJECT", tid, l + 1, name>>)
CH(p) == DOMAIN p.C
Descrs(p) == {p.C[c].d : c \in {x \in CH(p) : p.C[x].present}}
AssocOf(p, d) == {c \in CH(p) : p.C[c].present /\ p.C[c].d = d /\ p.C[c].assoc = "Assoc"}

Step(pre, rec) ==
  LET post == rec.post IN
  /\ Clause("rejected_call_changes_nothing", rec.res # "ok" => (post.C = pre.C /\ post.mver = pre.mver))
  /\ Clause("at_most_one_associated_state", \A d \in Descrs(post) : Cardinality(AssocOf(post, d)) <= 1)
  /\ Clause("unbinding_marked",
            \A c \in CH(post) : (pre.C[c].present /\ pre.C[c].assoc = "Assoc" /\ post.C[c].present /\ post.C[c].assoc # "Assoc")
                                   => (post.C[c].assoc = "Dis" /\ post.C[c].unbind = post.mver /\ post.C[c].end))
  /\ Clause("binding_marked",
            \A c \in CH(post) : ((~pre.C[c].present \/ pre.C[c].assoc # "Assoc") /\ post.C[c].present /\ post.C[c].assoc = "Assoc")
                                   => (post.C[c].bind = post.mver /\ post.C[c].start))
  /\ Clause("context_handles_unique", post.refall)
  /\ Clause("all_context_states_projected", rec.unmapped = 0)

TraceInit == tid \in 1..Len(Traces) /\ l = 1
TraceNext == /\ l < Len(Traces[tid])
             /\ Step(Traces[tid][l].post, Traces[tid][l + 1])
             /\ l' = l + 1 /\ tid' = tid
TraceSpec == TraceInit /\ [][TraceNext]_<<tid, l>>
AllConsumed == TLCGet("distinct") = Total
=============================================================================
