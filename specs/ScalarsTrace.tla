---------------------------- MODULE ScalarsTrace ----------------------------
(* Judges recorded results of the real sdc11073 converters against Scalars.  *)
(* A "trace" is a batch: record 1 is a header, every further record is       *)
(*   [c |-> case as emitted by Scalars, tg |-> target name, a |-> actual]    *)
(* The lexical value given to the real code is NOT taken from the record, it *)
(* is recomputed from the case (LexicalOf); lexical results of the real code *)
(* come as sequences of one-character strings and are parsed here.           *)
(* A failing clause is named in a REJECT line; all records are consumed.     *)
EXTENDS Scalars

VARIABLES tid, l

Data == JsonDeserialize(IOEnv.TRACE_FILE)
Traces == Data.traces

Clause(name, cond) == IF cond THEN TRUE ELSE PrintT(<<"REJECT", tid, l + 1, name>>)

PyDec(p) == [neg |-> p.neg, co |-> Tup(p.co), ex |-> p.ex]
PyDecIs(p, d) == p.special = "none" /\ Norm(PyDec(p)) = Norm(d)
PyDt(p) == [p EXCEPT !.y = Strip(Tup(p.y))]

JudgeTs1(c, a) ==
  /\ Clause("ts1_value", IsDigits(a.xml) /\ Strip(ToDs(a.xml)) = Strip(c.ms))
  /\ Clause("ts1_identical", c.f = "canon" => Tup(a.xml) = Tup(Chars(c.ms)))

JudgeTs2(c, a) ==
  LET us == DsAddSmall(TsToPyUs(c.ms), c.sub) IN
  /\ Clause("ts2_lexical", IsDigits(a.xml))
  /\ Clause("ts2_lt_1ms", DsLess(Tup(a.err), <<1,0,0,0,0,0,0>>))
  \* exact python value (Decimal, int): the written ms value itself is at most 1 ms away (implied by ts2_lt_1ms up to
  \* the rounding of the float that to_py returns, hence "<=")
  /\ Clause("ts2_xml_near", (c.ty # "float" /\ IsDigits(a.xml))
                               => DsLeq(AbsDiff(TsToPyUs(ToDs(a.xml)), us), <<1,0,0,0>>))

JudgeDpy(c, a) ==
  LET d == DecOf(c) IN
  /\ Clause("dec_no_exponent", NoExp(a.xml))
  /\ Clause("dec_lexical", DecLexOk(a.xml))
  /\ Clause("dec_to_xml_value", (InD18(d) /\ DecLexOk(a.xml)) => DecVal(a.xml) = Norm(d))
  /\ Clause("dec_py_xml_py", InD18(d) => PyDecIs(a.py, d))

JudgeDxml(c, a) ==
  LET d == DecOf(c) IN
  /\ Clause("dec_to_py_value", InD18(d) => PyDecIs(a.py, d))
  /\ Clause("dec_no_exponent", NoExp(a.xml))
  /\ Clause("dec_lexical", DecLexOk(a.xml))
  /\ Clause("dec_to_xml_value", (InD18(d) /\ DecLexOk(a.xml)) => DecVal(a.xml) = Norm(d))

JudgeDurXml(c, a) ==
  LET v == DurVal(c) IN
  /\ Clause("dur_to_py_value", DurClose(v, a.py))
  /\ Clause("dur_lexical", DurLexOk(a.xml))
  /\ Clause("dur_xml_py_xml", DurLexOk(a.xml) => DurClose(v, DurParse(a.xml)))

JudgeDurPy(c, a) ==
  /\ Clause("dur_lexical", DurLexOk(a.xml))
  /\ Clause("dur_to_xml_value", (c.ty # "float" /\ DurLexOk(a.xml))
                                   => DurClose([sec |-> c.sec, ns |-> c.us * 1000 + c.sub], DurParse(a.xml)))
  /\ Clause("dur_py_xml_py", a.err <= 1000)

JudgeDtXml(c, a) ==
  LET v == DtValOfCase(c)  p == DtParse(a.xml) IN
  /\ Clause("dt_to_py_value", DtSame(v, PyDt(a.py)))
  /\ Clause("dt_lexical", p.ok)
  /\ Clause("dt_xml_py_xml", p.ok => DtSame(v, p.v))

JudgeDtPy(c, a) ==
  LET v == DtValOfCase(c)  p == DtParse(a.xml) IN
  /\ Clause("dt_lexical", p.ok)
  /\ Clause("dt_to_xml_value", p.ok => DtSame(v, p.v))
  /\ Clause("dt_py_xml_py", DtSame(v, PyDt(a.py)))

JudgeLex(c, a) ==
  LET e == ExpectOf(c) IN
  /\ Clause("lex_reject", e = "raise" => a.st = "raise")
  /\ Clause("lex_accept", e = "value" => a.st = "value")
  /\ Clause("lex_value", (e \in {"value", "either"} /\ a.st = "value") => ValueMatches(c.ty, LexOf(c), a.v))
  \* XML -> Python -> XML of an accepted literal (timestamps: see ts1)
  /\ Clause("lex_xml_py_xml", (e \in {"value", "either"} /\ a.st = "value" /\ c.ty # "timestamp")
                                 => (a.xst = "ok" /\ InType(c.ty, Tup(a.xml)) /\ SameLexValue(c.ty, Tup(a.xml), LexOf(c))))

Completes(c, a) == c.k = "lex" \/ a.st = "ok"

Judge(rec) ==
  LET c == rec.c  a == rec.a IN
  IF c.k = "hdr" THEN TRUE
  ELSE IF ~Completes(c, a) THEN Clause("completes", FALSE)
  ELSE CASE c.k = "ts1" -> JudgeTs1(c, a)
         [] c.k = "ts2" -> JudgeTs2(c, a)
         [] c.k = "dpy" -> JudgeDpy(c, a)
         [] c.k = "dxml" -> JudgeDxml(c, a)
         [] c.k = "durxml" -> JudgeDurXml(c, a)
         [] c.k = "durpy" -> JudgeDurPy(c, a)
         [] c.k = "dtxml" -> JudgeDtXml(c, a)
         [] c.k = "dtpy" -> JudgeDtPy(c, a)
         [] c.k = "lex" -> JudgeLex(c, a)
         [] OTHER -> Clause("unknown_kind", FALSE)

Idle == [k |-> "none"]

TraceInit == /\ tid \in 1..Len(Traces)
             /\ l = 1
             /\ case = Idle
             /\ Judge(Traces[tid][1])

TraceNext == /\ l < Len(Traces[tid])
             /\ Judge(Traces[tid][l + 1])
             /\ l' = l + 1 /\ tid' = tid /\ case' = Idle

TraceSpec == TraceInit /\ [][TraceNext]_<<case, tid, l>>

Total == Data.total
AllConsumed == TLCGet("distinct") = Total
=============================================================================
