SPECIFICATION TraceSpec
POSTCONDITION AllConsumed
