--------------------------- MODULE LocationTrace ---------------------------
(* Judges what the real code returned (recorded by verif/checks/c16.py) against the     *)
(* operators of Location.tla.  One record per case (a "trace" of length 1): the abstract *)
(* case as emitted by TLC and the actual results of the real calls.  Every failing       *)
(* clause is named in a REJECT line; nothing else is decided in python.                  *)
(* (The derived location is passed on as an operator argument, not bound by LET.)        *)
EXTENDS Location, IOUtils

VARIABLES tid, pos

Data == JsonDeserialize(IOEnv.TRACE_FILE)
Traces == Data.traces

Clause(name, cond) == IF cond THEN TRUE ELSE PrintT(<<"REJECT", tid, pos, name>>)

AsLoc(j) == [e \in ElemSet |-> j[e]]
B(x) == IF x THEN 1 ELSE 0
Rng(s) == {s[i] : i \in 1..Len(s)}

(* a parse result of the real from_scope_string: [exc, root, loc] *)
SameLoc(p, lc) == p.exc = "" /\ p.root = RootCP /\ AsLoc(p.loc) = lc
\* the real scope string read by the reference parser; "+" in a query may mean either itself or a blank
Grammar(s, lc) == IsLoc(Parse(s, TRUE), lc) \/ IsLoc(Parse(s, FALSE), lc)

(* ---------------------------------------------------------------- kind "loc" *)
\* ins: NW + NC verdicts of filter_services_inside (1 inside, 0 not, 2 exception), in the order of the plan
WidenOK(ins, lc) == \A n \in 1..NW : ins[n] = B(Inside(lc, WidenQ(lc, n)))
ChangeOK(ins, lc) == \A n \in 1..NC : ins[NW + n] = B(Inside(lc, ChangeQ(lc, n)))

\* neigh[s] = positions (1..NP) of the services returned when member s of the neighbourhood is the filter location
\* (<<0>> : the call raised)
NeighOK(neigh, lc) == \A s \in 1..NP : Rng(neigh[s]) = {t \in 1..NP : Inside(PopLoc(lc, t), PopLoc(lc, s))}

JudgeLoc(c, a, lc) ==
  /\ Clause("own_scope_total", a.scope_exc = "")
  /\ a.scope_exc = "" =>
       /\ Clause("own_roundtrip", SameLoc(a.parsed, lc))
       /\ Clause("own_scope_grammar", Grammar(a.scope, lc))
       /\ Clause("own_inside_widening", WidenOK(a.in_own, lc))
       /\ Clause("own_outside_changed", ChangeOK(a.in_own, lc))
       /\ Clause("own_neighbourhood", NeighOK(a.neigh, lc))
  /\ Clause("ref_scope_parsed", SameLoc(a.ref_lower, lc) /\ SameLoc(a.ref_upper, lc))
  \* publishing needs at least one element (documented precondition of the fallback identifier)
  /\ c.pat # 0 =>
       /\ Clause("pub_total", a.pub_exc = "" /\ a.pub_n = 1)
       /\ (a.pub_exc = "" /\ a.pub_n = 1) =>
            /\ Clause("pub_roundtrip", SameLoc(a.pub_parsed, lc))
            /\ Clause("pub_scope_grammar", Grammar(a.pub, lc))
            /\ Clause("pub_inside_widening", WidenOK(a.in_pub, lc))
            /\ Clause("pub_outside_changed", ChangeOK(a.in_pub, lc))

(* ---------------------------------------------------------------- kind "foreign" *)
\* services: 1 good neighbour, 2 the foreign scope alone, 3 foreign scope + good scope, 4 no scopes, 5 empty scopes
\* f = [exc, islist, alien, res]: res = positions of the returned services in the input
Increasing(s) == \A i \in 1..Len(s) : s[i] \in 1..5 /\ (i > 1 => s[i - 1] < s[i])
JudgeFilter(c, f, via) ==
  /\ Clause("filter_total:" \o via, f.exc = "" /\ f.islist)
  /\ (f.exc = "" /\ f.islist) =>
       /\ Clause("filter_sublist:" \o via, f.alien = 0 /\ Increasing(f.res))
       /\ Clause("filter_keeps_inside:" \o via, {1, 3} \subseteq Rng(f.res))
       /\ Judged(c) => Clause("filter_foreign_verdict:" \o via, (2 \in Rng(f.res)) = ForeignInside(c))
JudgeForeign(c, a) == JudgeFilter(c, a.d, "direct") /\ JudgeFilter(c, a.w, "wsdiscovery")

(* ---------------------------------------------------------------- kind "ident" *)
JudgeIdent(c, a) ==
  /\ IdentJudged(c) => Clause("pub_total", a.mk_exc = "" /\ a.n_loc >= 1)
  /\ a.mk_exc = "" =>
       /\ Clause("filter_total:direct", a.f.exc = "" /\ a.f.islist)
       /\ (a.f.exc = "" /\ a.f.islist /\ IdentJudged(c)) => Clause("pub_inside_own", 1 \in Rng(a.f.res))

(* ---------------------------------------------------------------- one state per record *)
CaseOf(j) ==
  CASE j.kind = "loc" -> [kind |-> "loc", pat |-> j.pat, cls |-> j.cls, shape |-> j.shape, absent |-> j.absent]
    [] j.kind = "foreign" -> [kind |-> "foreign", scheme |-> j.scheme, auth |-> j.auth, path |-> j.path,
                              query |-> j.query, frag |-> j.frag]
    [] j.kind = "ident" -> [kind |-> "ident", id |-> j.id, pat |-> j.pat]

InDomain(c) == CASE c.kind = "loc" -> c \in [kind : {"loc"}, pat : 0..63, cls : AllClasses,
                                             shape : {"solo", "mid", "rot"}, absent : {"none", "empty"}]
                 [] c.kind = "foreign" -> c \in [kind : {"foreign"}, scheme : AllSchemes, auth : AllAuths, path : Paths,
                                                 query : Queries, frag : AllFrags]
                 [] c.kind = "ident" -> c \in IdentCases

Judge(c, a) == CASE c.kind = "loc" -> JudgeLoc(c, a, LocOf(c))
                 [] c.kind = "foreign" -> JudgeForeign(c, a)
                 [] c.kind = "ident" -> JudgeIdent(c, a)

JudgeRec(c, a) == Clause("case_in_domain", InDomain(c)) /\ (InDomain(c) => Judge(c, a))

TraceInit == /\ tid \in 1..Len(Traces)
             /\ pos = 1
             /\ case = CaseOf(Traces[tid][1].c)
             /\ loc = AllAbsent
             /\ JudgeRec(CaseOf(Traces[tid][1].c), Traces[tid][1].a)

TraceNext == FALSE /\ UNCHANGED <<case, loc, tid, pos>>
TraceSpec == TraceInit /\ [][TraceNext]_<<case, loc, tid, pos>>

Total == Data.total
AllConsumed == TLCGet("distinct") = Total
=============================================================================
