-------------------------- MODULE DiscoveryMatchMC --------------------------
(***************************************************************************)
(* C14, part (a): enumeration of the abstract case domains of the matching *)
(* rules.  TLC visits every case (one initial state per case), checks the  *)
(* algebraic laws of the reference semantics on it (a wrong reference is   *)
(* caught here first) and writes the cases to OUT_FILE for the harness.    *)
(* Three specs share the variable `case`:                                   *)
(*   ScopeSpec  - pairs of URIs + rule          -> match_scope              *)
(*   FilterSpec - service x filter              -> matches_filter           *)
(*   SelectSpec - list of services x filter     -> filter_services          *)
(***************************************************************************)
EXTENDS DiscoveryMatch, Json, IOUtils, SequencesExt

CONSTANTS DeepAlpha,   \* segment alphabet for deep paths
          DeepMax,     \* max number of segments for deep paths
          WideAlpha,   \* larger alphabet for shorter paths
          WideMax,
          HeadMax,     \* all head x head combinations up to this path length
          StrMax,      \* strcmp0 cases up to this path length
          ListMax,     \* filter cases: max length of type lists
          ScopeListMax,\* filter cases: max length of scope lists
          Which        \* "scope" | "filter" | "select": the domain this run enumerates (TLC evaluates
                       \* constant definitions eagerly, so only the chosen domain is ever built)

VARIABLE case

Paths(alpha, n) == UNION {[1..k -> alpha] : k \in 0..n}

\* ---- scope cases ---------------------------------------------------------------
Heads == SchemeTokens \X BasicAuthTokens
\* chosen head pairs for the deep domains (scheme a, auth a, scheme b, auth b)
HeadPairs == { <<"sdc.x", "h", "sdc.x", "h">>, <<"sdc.x", "h", "SDC.X", "H">>, <<"SDC.X", "H", "sdc.x", "h">>,
               <<"sdc.x", "h", "sdc.y", "h">>, <<"sdc.x", "h", "sdc.x", "g">>,
               <<"sdc.x", "None", "sdc.x", "None">>, <<"sdc.x", "None", "Sdc.X", "None">>,
               <<"sdc.x", "None", "sdc.x", "h">>,
               \* port and userinfo belong to the authority
               <<"sdc.x", "h:1", "sdc.x", "h:1">>, <<"sdc.x", "h:1", "SDC.X", "H:1">>, <<"sdc.x", "h:1", "sdc.x", "h:2">>,
               <<"sdc.x", "h:1", "sdc.x", "h">>, <<"sdc.x", "h", "sdc.x", "h:1">>,
               <<"sdc.x", "u@h", "sdc.x", "u@h">>, <<"sdc.x", "u@h", "sdc.x", "v@h">>, <<"sdc.x", "u@h", "sdc.x", "h">> }
SameHeadPair == { <<"sdc.x", "h", "sdc.x", "h">> }

Pairs(hp, alpha, n, rules) == TLCEval(
  {c \in {[a |-> Uri(h[1], h[2], p), b |-> Uri(h[3], h[4], q), rule |-> r] :
            h \in hp, p \in Paths(alpha, n), q \in Paths(alpha, n), r \in rules} :
     WellFormed(c.a) /\ WellFormed(c.b)})
AllHeadPairs == {<<x[1], x[2], y[1], y[2]>> : x \in Heads, y \in Heads}

\* four sub-domains; never united inside TLC (its union of large explicit sets is quadratic): the initial
\* predicate is a disjunction and the emission a concatenation, the harness removes the duplicates
ScopeD1 == IF Which # "scope" THEN {} ELSE Pairs(HeadPairs, DeepAlpha, DeepMax, {"rfc3986"})
ScopeD2 == IF Which # "scope" THEN {} ELSE Pairs(SameHeadPair, WideAlpha, WideMax, {"rfc3986", "absent"})
ScopeD3 == IF Which # "scope" THEN {} ELSE Pairs(AllHeadPairs, DeepAlpha, HeadMax, Rules)
ScopeD4 == IF Which # "scope" THEN {} ELSE Pairs(HeadPairs, DeepAlpha, StrMax, {"strcmp0"})
ScopeCaseSeq == SetToSeq(ScopeD1) \o SetToSeq(ScopeD2) \o SetToSeq(ScopeD3) \o SetToSeq(ScopeD4)

ScopeInit == \/ case \in ScopeD1
             \/ case \in ScopeD2
             \/ case \in ScopeD3
             \/ case \in ScopeD4
Stay == UNCHANGED case
ScopeSpec == ScopeInit /\ [][Stay]_case

\* laws of the reference (invariants over every case)
Ext(u, t) == [u EXCEPT !.segs = Append(@, t)]
Cut(u) == [u EXCEPT !.segs = SubSeq(@, 1, Len(@) - 1)]
Repl(u, i, t) == [u EXCEPT !.segs[i] = t]
Thirds(u) == {Uri(u.scheme, u.auth, p) : p \in Paths(DeepAlpha, 2)}

LawRefl == MatchRfc(case.a, case.a) /\ MatchRfc(case.b, case.b) /\ MatchStr(case.a, case.a)
LawStrImpliesRfc == MatchStr(case.a, case.b) => MatchRfc(case.a, case.b)
LawRfcAgree == MatchRfc(case.a, case.b) = MatchRfc2(case.a, case.b)
LawPrefixClosed ==
  MatchRfc(case.a, case.b) =>
     /\ \A t \in DeepAlpha : MatchRfc(case.a, Ext(case.b, t))
     /\ (Len(case.a.segs) > 0 => MatchRfc(Cut(case.a), case.b))
LawAntisym == (MatchRfc(case.a, case.b) /\ MatchRfc(case.b, case.a)) <=> (Canon(case.a) = Canon(case.b))
LawTrans == MatchRfc(case.a, case.b) => \A c \in Thirds(case.b) : MatchRfc(case.b, c) => MatchRfc(case.a, c)
\* "after percent-decoding": replacing a segment by another spelling of the same decoded segment changes nothing
LawDecoding ==
  \A i \in 1..Len(case.a.segs) : \A t \in SegTokens :
     DecOf[t] = DecOf[case.a.segs[i]] => MatchRfc(Repl(case.a, i, t), case.b) = MatchRfc(case.a, case.b)
\* "segment-wise": an encoded slash never splits a segment, an empty segment counts
LawSegmentwise == MatchRfc(case.a, case.b) => Len(case.a.segs) <= Len(case.b.segs)
LawRuleDefault == MatchScope(case.a, case.b, "absent") = MatchScope(case.a, case.b, "rfc3986")

\* ---- filter cases -----------------------------------------------------------------
TypeTokens == {"n1:A", "n1:B", "n2:A"}
\* scope URIs of the filter domain: plain, deeper, other spelling of the first, sibling
FU1 == Uri("sdc.x", "h", <<"a">>)
FU2 == Uri("sdc.x", "h", <<"a", "b">>)
FU3 == Uri("SDC.X", "H", <<"%61">>)
FilterUris == {FU1, FU2, FU3}

Lists(S, n) == UNION {[1..k -> S] : k \in 0..n}
OptLists(S, n) == {NoList} \cup {Opt(TRUE, l) : l \in Lists(S, n)}
FilterRules == {"absent", "strcmp0"}
FilterDom == [types : OptLists(TypeTokens, ListMax), scopes : OptLists(FilterUris, ScopeListMax), rule : FilterRules]
\* "rfc3986" spelled out is exercised on the filters that have scopes, lists of length <= 1
FilterDomRfc == [types : {NoList}, scopes : {Opt(TRUE, l) : l \in Lists(FilterUris, 1)}, rule : {"rfc3986"}]
\* service scopes: absent Scopes element is a different concrete service than an empty one, both mean "no scopes"
ServiceDom == [types : Lists(TypeTokens, ListMax), scopes : Lists(FilterUris, ScopeListMax), noScopesElem : BOOLEAN]
Services == {s \in ServiceDom : s.noScopesElem => s.scopes = <<>>}

FilterCases == IF Which # "filter" THEN {} ELSE TLCEval([srv : Services, flt : FilterDom \cup FilterDomRfc])
FilterInit == case \in FilterCases
FilterSpec == FilterInit /\ [][Stay]_case

DropLast(o) == IF o.present /\ Len(o.items) > 0 THEN Opt(TRUE, SubSeq(o.items, 1, Len(o.items) - 1)) ELSE NoList
LawFilterAgree == MatchesFilter(case.srv, case.flt) = MatchesFilter2(case.srv, case.flt)
LawEmptyFilter == MatchesFilter(case.srv, [types |-> NoList, scopes |-> NoList, rule |-> case.flt.rule])
LawWeaker == MatchesFilter(case.srv, case.flt) =>
               /\ MatchesFilter(case.srv, [case.flt EXCEPT !.types = DropLast(@)])
               /\ MatchesFilter(case.srv, [case.flt EXCEPT !.scopes = DropLast(@)])
LawStrStronger == (case.flt.rule = "strcmp0" /\ MatchesFilter(case.srv, case.flt))
                     => MatchesFilter(case.srv, [case.flt EXCEPT !.rule = "rfc3986"])

\* ---- filter_services cases ----------------------------------------------------------
SelServices == { [types |-> <<"n1:A">>, scopes |-> <<FU2>>, noScopesElem |-> FALSE],
                 [types |-> <<"n1:A", "n1:B">>, scopes |-> <<FU3, Uri("sdc.x", "h", <<"b">>)>>, noScopesElem |-> FALSE],
                 [types |-> <<"n2:A">>, scopes |-> <<>>, noScopesElem |-> TRUE],
                 [types |-> <<>>, scopes |-> <<FU1>>, noScopesElem |-> FALSE] }
SelFilters == [types : OptLists(TypeTokens, 1) \cup {Opt(TRUE, <<"n1:A", "n1:B">>)},
               scopes : OptLists(FilterUris, 1) \cup {Opt(TRUE, <<FU1, FU2>>)}, rule : Rules]
SelectCases == IF Which # "select" THEN {} ELSE TLCEval([srvs : Lists(SelServices, 3), flt : SelFilters])
SelectInit == case \in SelectCases
SelectSpec == SelectInit /\ [][Stay]_case
LawSelect == /\ Select(case.srvs, case.flt) \subseteq DOMAIN case.srvs
             /\ \A i \in DOMAIN case.srvs : (i \in Select(case.srvs, case.flt)) = MatchesFilter2(case.srvs[i], case.flt)

\* ---- emission ---------------------------------------------------------------------
CaseSeq == CASE Which = "scope" -> ScopeCaseSeq [] Which = "filter" -> SetToSeq(FilterCases)
             [] Which = "select" -> SetToSeq(SelectCases)
Tables == [lower |-> LowerOf, dec |-> DecOf]
\* written once when TLC evaluates the assumption (before the behaviours are explored); the harness checks
\* that the number of distinct states of the run equals the number of distinct emitted cases (all visited)
ASSUME JsonSerialize(IOEnv.OUT_FILE, [cases |-> CaseSeq, tables |-> Tables])

\* ---- alphabets per tier ---------------------------------------------------------------
Alpha5 == {"a", "A", "%61", "%2F", ""}
Alpha4 == {"a", "%61", "%2F", ""}
AlphaAll == SegTokens
=============================================================================
