SPECIFICATION Spec
CONSTANTS
  Clients <- McClients
  Actions <- McActions
  Ids <- McIds
  ReqVals = {0, 1, 3}
  Filters <- McFilters
  MaxDur = 2
  MaxErrors = 1
  MaxSteps = 5
VIEW view
INVARIANT TypeOK
INVARIANT GrantedOK
PROPERTY NeverAfterUnsub
PROPERTY UnknownChangesNothing
PROPERTY SentOnlyWhileLive
