\* reference configuration (quick tier, part "chunk"); verif/checks/c17.py generates the per-part variants
SPECIFICATION Spec
CONSTANTS
  MaxN = 20
  MaxC = 6
  MutN = 3
  MutC = 2
  ShortLen = 4
  MaxEntries = 2
  Registered = {"gzip", "x-lz4", "lz4"}
  Part = "chunk"
  BigCases <- BigQuick
INVARIANT Laws
