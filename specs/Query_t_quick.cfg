SPECIFICATION SpecT
CONSTANTS
  ReqHandles <- QuickReqHandles
  MaxLen = 1
  N1 = {0}
  N2 = {0}
  S3 = {TRUE}
  StoreIds <- QuickStoreIds
  FRefs <- QuickFRefs
  FVers <- QuickFVers
  FLangs <- QuickFLangs
  FWidths <- QuickFWidths
  FLines <- QuickFLines
INVARIANT LawS
INVARIANT LawT
CONSTRAINT EmitCase
