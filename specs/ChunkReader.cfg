\* reference configuration (quick tier); verif/checks/c17.py generates the per-domain variants
SPECIFICATION Spec
CONSTANTS
  MaxN = 20
  MaxC = 6
  MutN = 3
  MutC = 2
  ShortLen = 4
  MaxEntries = 2
  Registered = {"gzip", "x-lz4", "lz4"}
  StreamDomain = "short"
INVARIANT Refines
INVARIANT ReadBound
INVARIANT TypeOK
PROPERTY Terminates
