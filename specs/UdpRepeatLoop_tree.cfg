\* all behaviours of exactly MaxOps operations (history is part of the state); MaxOps set by the check
SPECIFICATION Spec
CONSTANTS
  Own = {"m1", "m2"}
  Foreign = {"f1", "f2"}
  MaxOps = 4
INVARIANT OwnIgnored
INVARIANT OwnPreRegistered
CONSTRAINT EmitLeaf
