--------------------------- MODULE InvocationTrace ---------------------------
(* Judges recorded executions of the real provider (requests with response   *)
(* and OperationInvokedReports on the wire) and of the real consumer          *)
(* OperationsManager (futures after an interleaving of response and reports)  *)
(* against the protocol definitions of Invocation.tla (C09).                  *)
EXTENDS Integers, Sequences, FiniteSets, TLC, Json, IOUtils
VARIABLES tid, l
Data == JsonDeserialize(IOEnv.TRACE_FILE)
Traces == Data.traces
Total == Data.total
Clause(name, cond) == IF cond THEN TRUE ELSE PrintT(<<"REJECT", tid, l + 1, name>>)
Rng(s) == {s[i] : i \in DOMAIN s}

Final == {"Fin", "FinMod", "Fail", "Cnclld", "CnclldMan"}
Legal(resp, reps) ==
  LET s == IF reps # <<>> /\ reps[1] = resp THEN reps ELSE <<resp>> \o reps
  IN \/ (Len(s) = 3 /\ s[1] = "Wait" /\ s[2] = "Start" /\ s[3] \in Final)
     \/ (Len(s) = 1 /\ s[1] \in Final)
States(reports) == [i \in DOMAIN reports |-> reports[i].state]
LastOf(s) == s[Len(s)]

RequestOK(prev, rec) ==
  LET reps == States(rec.reports) IN
  /\ Clause("transaction_ids_increase", (prev.act = "Request" /\ ~rec.reboot) => rec.tx > prev.tx)
  /\ Clause("reports_carry_the_transaction_id", \A i \in DOMAIN rec.reports : rec.reports[i].tx = rec.tx)
  /\ Clause("legal_invocation_state_sequence", Legal(rec.resp, reps))
  /\ Clause("raising_handler_yields_fail_with_error",
            (rec.known /\ rec.outcome = "raise") =>
               (Len(reps) > 0 /\ LastOf(reps) = "Fail" /\ rec.reports[Len(rec.reports)].error /\ rec.reports[Len(rec.reports)].errmsg))
  /\ Clause("handler_result_is_the_final_state",
            (rec.known /\ rec.outcome # "raise" /\ Len(reps) > 0) =>
               LastOf(reps) = (CASE rec.outcome = "fin" -> "Fin" [] rec.outcome = "finmod" -> "FinMod" [] OTHER -> "Fail"))
  /\ Clause("unknown_operation_fails_without_effect",
            ~rec.known => (rec.resp = "Fail" /\ rec.resp_error /\ rec.reports = <<>> /\ rec.unchanged))
  /\ Clause("consumer_result_is_final_state",
            rec.result_state = (IF reps = <<>> THEN rec.resp ELSE LastOf(reps)))
  \* ... with the report parts of this transaction, and of no other (also none of a former provider instance that
  \* used the same transaction id)
  /\ Clause("consumer_result_has_the_report_parts_of_this_transaction",
            rec.result_state # "none" => (Len(rec.result_parts) = Len(reps) /\ Rng(rec.result_parts) = Rng(reps)))

ConsumerOK(rec) ==
  /\ Clause("no_exception_in_operations_manager", rec.errors = <<>>)
  /\ \A t \in DOMAIN rec.shapes :
       LET sh == rec.shapes[t]
           f == rec.final[t]
           fin == IF sh.reps = <<>> THEN sh.resp ELSE LastOf(sh.reps) IN
       /\ Clause("result_completes", f.done)
       /\ Clause("result_has_final_state", f.done => f.state = fin)
       /\ Clause("result_has_all_report_parts", f.done => f.parts = sh.reps)

Step(prev, rec) == IF rec.act = "Request" THEN RequestOK(prev, rec) ELSE ConsumerOK(rec)

TraceInit == tid \in 1..Len(Traces) /\ l = 1
TraceNext == /\ l < Len(Traces[tid])
             /\ Step(Traces[tid][l], Traces[tid][l + 1])
             /\ l' = l + 1 /\ tid' = tid
TraceSpec == TraceInit /\ [][TraceNext]_<<tid, l>>
AllConsumed == TLCGet("distinct") = Total
=============================================================================
