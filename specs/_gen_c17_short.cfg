SPECIFICATION Spec
CONSTANTS
  MaxN = 24
  MaxC = 7
  MutN = 3
  MutC = 2
  ShortLen = 4
  MaxEntries = 2
  Registered = {"gzip", "x-lz4", "lz4"}
  Part = "short"
  BigCases <- BigQuick
INVARIANT Laws
