SPECIFICATION SpecForeign
CONSTANTS
  Classes <- AllClasses
  Shapes = {"solo", "mid", "rot"}
  AbsentModes = {"none", "empty"}
  Schemes = {"loc", "upper", "opr", "none"}
  Auths = {"none", "badv6"}
  Frags = {"no"}
INVARIANT ForeignLaw
INVARIANT GoodLaw
CONSTRAINT EmitForeign
