SPECIFICATION Spec
CONSTANTS
  Mgrs = {"sync", "async"}
INVARIANT TypeOK
INVARIANT LawBound
INVARIANT LawNoPlain
INVARIANT LawMode
INVARIANT LawOwnServer
INVARIANT LawDowngrade
CONSTRAINT EmitCase
