SPECIFICATION Spec
CONSTANTS
  Mgrs = {"sync", "async", "sync_ref", "async_ref"}
INVARIANT TypeOK
INVARIANT LawBound
INVARIANT LawNoPlain
INVARIANT LawMode
INVARIANT LawOwnServer
INVARIANT LawDowngrade
CONSTRAINT EmitCase
