---------------------------- MODULE MirrorTrace ----------------------------
(***************************************************************************)
(* Abstract obligations of C01 (exact mirror, notifications) and of the    *)
(* content part of C04 (reports complete / truthful / valid / grouped) on  *)
(* recorded executions of a real SdcProvider + SdcConsumer pair on the     *)
(* loop-back transport.  Every record carries the projected provider MDIB  *)
(* (post), the projected consumer MDIB (cpost), the reports put on the     *)
(* wire by this step (parsed back with the repository's reader) and the    *)
(* observables the consumer MDIB fired while they were delivered.          *)
(***************************************************************************)
EXTENDS Integers, Sequences, FiniteSets, TLC, Json, IOUtils

VARIABLES tid, l, cur, txpre

Data == JsonDeserialize(IOEnv.TRACE_FILE)
Traces == Data.traces
Total == Data.total

Clause(name, cond) == IF cond THEN TRUE ELSE PrintT(<<"REJECT", tid, l + 1, name>>)
Rng(s) == {s[i] : i \in DOMAIN s}
H(p) == DOMAIN p.D
CH(p) == DOMAIN p.C

Entries(rec) == UNION {Rng(rec.reports[i].entries) : i \in 1..Len(rec.reports)}
In(e) == e.h # "other"

\* ---- C01
MirrorOK(rec) ==
  /\ Clause("mirror_mver", rec.cpost.mver = rec.post.mver)
  /\ Clause("mirror_ids", rec.cpost.seq = rec.post.seq /\ rec.cpost.inst = rec.post.inst)
  /\ Clause("mirror_D", rec.cpost.D = rec.post.D)
  /\ Clause("mirror_S", rec.cpost.S = rec.post.S)
  /\ Clause("mirror_C", rec.cpost.C = rec.post.C)
  /\ Clause("mirror_rest", rec.cpost.rest = rec.post.rest)
  /\ Clause("consumer_lookups_agree", rec.cpost.agree)
  /\ Clause("consumer_refs", rec.cpost.refall)

\* read-only requests served between two commits are stuttering steps: the provider MDIB, its lookups included, is
\* what it was (C11: a lookup hands out what the table stores; a handler that works on it changes the table)
ReadsOK(rec) ==
  /\ Clause("reads_are_answered", \A i \in DOMAIN rec.reads : rec.reads[i].exc = "")
  /\ Clause("reads_change_nothing", \A i \in DOMAIN rec.reads : rec.reads[i].same)
  /\ Clause("provider_lookups_agree_after_reads", \A i \in DOMAIN rec.reads : rec.reads[i].agree)

StateReports(rec) == {i \in 1..Len(rec.reports) : rec.reports[i].kind # "descr"}
DescrReports(rec) == {i \in 1..Len(rec.reports) : rec.reports[i].kind = "descr"}
RepS(rec) == {e.h : e \in {x \in UNION {Rng(rec.reports[i].entries) : i \in StateReports(rec)} : x.k = "S"}}
RepC(rec) == {e.h : e \in {x \in UNION {Rng(rec.reports[i].entries) : i \in StateReports(rec)} : x.k = "C"}}
RepD(rec, mod) == {e.h : e \in {x \in UNION {Rng(rec.reports[i].entries) : i \in DescrReports(rec)} :
                                      x.k = "D" /\ x.mod = mod}}
DescrStates(rec, k) == {e.h : e \in {x \in UNION {Rng(rec.reports[i].entries) : i \in DescrReports(rec)} : x.k = k}}
\* state notifications: only for entities this delivery changed in the consumer, only entities that were reported,
\* and every changed state is notified - by its own observable or through the description modification
\* notification that carried it
NotifiedOK(rec) ==
  LET cpre == Traces[tid][l].cpost
      chS == {h \in H(rec.cpost) : cpre.S[h] # rec.cpost.S[h]}
      chC == {c \in CH(rec.cpost) : cpre.C[c] # rec.cpost.C[c]}
      fS == Rng(rec.fired.S) \ {"other"}
      fC == Rng(rec.fired.C) \ {"other"}
  IN
  /\ Clause("notified_states_only_reported", fS \subseteq RepS(rec))
  /\ Clause("notified_states_only_changed", fS \subseteq chS)
  /\ Clause("notified_states_all_changed", chS \subseteq (fS \cup DescrStates(rec, "S") \cup RepD(rec, "Del")))
  /\ Clause("notified_context_only_reported", fC \subseteq RepC(rec))
  /\ Clause("notified_context_only_changed", fC \subseteq chC)
  /\ Clause("notified_context_all_changed",
            \* (a context state that disappears because the updated context descriptor no longer lists it is
            \*  announced by the update notification of that descriptor: the entity named is the descriptor)
            \A c \in chC : c \in fC \/ c \in DescrStates(rec, "C") \/ cpre.C[c].d \in RepD(rec, "Del")
                             \/ (~rec.cpost.C[c].present /\ cpre.C[c].d \in RepD(rec, "Upt")))
  /\ Clause("notified_new", Rng(rec.fired.Dnew) = RepD(rec, "Crt"))
  /\ Clause("notified_updated", Rng(rec.fired.Dupd) = RepD(rec, "Upt"))
  /\ Clause("notified_deleted", Rng(rec.fired.Ddel) = RepD(rec, "Del"))

\* ---- C04 (content)
TripleOK(rec) == \A i \in 1..Len(rec.reports) :
                    /\ rec.reports[i].mver = rec.post.mver
                    /\ rec.reports[i].seq = rec.post.seq /\ rec.reports[i].inst = rec.post.inst
ValidOK(rec) == \A i \in 1..Len(rec.reports) : rec.reports[i].valid

TruthfulEntry(pre, post, e) ==
  CASE e.k = "S" /\ e.mod # "Del" -> /\ post.S[e.h].present /\ e.ver = post.S[e.h].sver
                                     /\ e.dver = post.S[e.h].dver /\ e.tok = post.S[e.h].tok
    [] e.k = "S" /\ e.mod = "Del" -> pre.S[e.h].present /\ ~post.S[e.h].present
    [] e.k = "C" /\ e.mod # "Del" -> /\ post.C[e.h].present /\ e.ver = post.C[e.h].sver
                                     /\ e.dver = post.C[e.h].dver /\ e.tok = post.C[e.h].tok
    [] e.k = "C" /\ e.mod = "Del" -> pre.C[e.h].present /\ ~post.C[e.h].present
    [] e.k = "D" /\ e.mod # "Del" -> /\ post.D[e.h].present /\ e.ver = post.D[e.h].ver /\ e.tok = post.D[e.h].tok
                                     /\ e.parent = post.D[e.h].parent
    [] e.k = "D" /\ e.mod = "Del" -> pre.D[e.h].present /\ ~post.D[e.h].present
    [] OTHER -> FALSE

ChangedEntity(pre, post, e) ==
  CASE e.k = "S" -> pre.S[e.h] # post.S[e.h]
    [] e.k = "C" -> pre.C[e.h] # post.C[e.h]
    [] e.k = "D" -> pre.D[e.h] # post.D[e.h]

Reported(rec, k, h) == \E e \in Entries(rec) : e.k = k /\ e.h = h
ReportedMod(rec, k, h, mod) == \E e \in Entries(rec) : e.k = k /\ e.h = h /\ e.mod = mod

CompleteOK(pre, rec) ==
  LET post == rec.post IN
  /\ \A h \in H(post) : (pre.S[h].present /\ post.S[h].present /\ pre.S[h] # post.S[h]) => Reported(rec, "S", h)
  /\ \A h \in H(post) : (~pre.S[h].present /\ post.S[h].present) => Reported(rec, "S", h)
  /\ \A c \in CH(post) : (post.C[c].present /\ pre.C[c] # post.C[c]) => Reported(rec, "C", c)
  /\ \A h \in H(post) : (~pre.D[h].present /\ post.D[h].present) => ReportedMod(rec, "D", h, "Crt")
  /\ \A h \in H(post) : (pre.D[h].present /\ ~post.D[h].present) => ReportedMod(rec, "D", h, "Del")
  /\ \A h \in H(post) : (pre.D[h].present /\ post.D[h].present /\ pre.D[h] # post.D[h]) => ReportedMod(rec, "D", h, "Upt")

\* a description modification report is self-contained: next to a created / updated descriptor it carries every state of
\* that descriptor which the transaction changed (a subscriber of the description event service alone - subscriptions
\* filter by action - must not be left with states of an outdated DescriptorVersion)
SelfContained(pre, rec) ==
  \A i \in 1..Len(rec.reports) : \A e \in Rng(rec.reports[i].entries) :
     (e.k = "D" /\ e.mod \in {"Crt", "Upt"} /\ In(e)) =>
        LET same(k, h) == \E f \in Rng(rec.reports[i].entries) : f.k = k /\ f.h = h
            post == rec.post
        IN /\ (post.S[e.h].present /\ pre.S[e.h] # post.S[e.h]) => same("S", e.h)
           /\ \A c \in CH(post) : (post.C[c].present /\ post.C[c].d = e.h /\ pre.C[c] # post.C[c]) => same("C", c)

ReportsOK(pre, rec) ==
  /\ Clause("report_triple", TripleOK(rec))
  /\ Clause("report_schema_valid", ValidOK(rec))
  /\ Clause("report_truthful", \A e \in Entries(rec) : In(e) => TruthfulEntry(pre, rec.post, e))
  /\ Clause("report_only_changed", \A e \in Entries(rec) : In(e) => ChangedEntity(pre, rec.post, e))
  /\ Clause("report_complete", CompleteOK(pre, rec))
  /\ Clause("report_description_self_contained", SelfContained(pre, rec))
  /\ Clause("report_mds_grouping", \A e \in Entries(rec) : e.mds = e.own)
  /\ Clause("report_rest_announced", (pre.rest # rec.post.rest) => \E e \in Entries(rec) : ~In(e))

\* state copies retained for periodic reports still show the values of the version they are labelled with
StoreEntryOK(t, e) == IF e.k = "S" THEN t.S[e.h].present /\ t.S[e.h].sver = e.ver /\ t.S[e.h].tok = e.tok
                      ELSE t.C[e.h].present /\ t.C[e.h].sver = e.ver /\ t.C[e.h].tok = e.tok
StoreOK(rec) == Clause("store_truthful",
                  \A i \in DOMAIN rec.store :
                     (ToString(rec.store[i].mver) \in DOMAIN rec.truth) =>
                        \A e \in Rng(rec.store[i].entries) : StoreEntryOK(rec.truth[ToString(rec.store[i].mver)], e))

Quiet(rec) == /\ Clause("nosend", Len(rec.reports) = 0)
              /\ Clause("consumer_quiet", rec.cpost = Traces[tid][l].cpost)

TraceInit == /\ tid \in 1..Len(Traces) /\ l = 1
             /\ cur = Traces[tid][1].post /\ txpre = Traces[tid][1].post
             /\ LET rec == Traces[tid][1] IN
                  IF rec.cpost.mver = rec.post.mver /\ rec.cpost.D = rec.post.D /\ rec.cpost.S = rec.post.S
                     /\ rec.cpost.C = rec.post.C /\ rec.cpost.rest = rec.post.rest /\ rec.cpost.seq = rec.post.seq
                     /\ rec.cpost.inst = rec.post.inst
                  THEN TRUE ELSE PrintT(<<"REJECT", tid, 1, "mirror_init">>)

Step(rec) ==
  CASE rec.act = "Commit" /\ rec.res = "ok" ->
         /\ MirrorOK(rec) /\ NotifiedOK(rec) /\ ReportsOK(txpre, rec) /\ ReadsOK(rec)
         /\ txpre' = rec.post
    [] rec.act = "Begin" -> Quiet(rec) /\ txpre' = rec.post
    [] OTHER -> Quiet(rec) /\ txpre' = IF rec.act \in {"Abort", "Commit"} THEN rec.post ELSE txpre

TraceNext == /\ l < Len(Traces[tid])
             /\ LET rec == Traces[tid][l + 1] IN Step(rec) /\ StoreOK(rec) /\ cur' = rec.post
             /\ l' = l + 1 /\ tid' = tid

TraceSpec == TraceInit /\ [][TraceNext]_<<tid, l, cur, txpre>>
AllConsumed == TLCGet("distinct") = Total
View == <<tid, l>>
=============================================================================
