SPECIFICATION ScopeSpec
CONSTANTS
  Which = "scope"
  DeepAlpha <- Alpha4
  DeepMax = 2
  WideAlpha <- AlphaAll
  WideMax = 1
  HeadMax = 1
  StrMax = 2
  ListMax = 2
  ScopeListMax = 1
INVARIANT LawRefl
INVARIANT LawStrImpliesRfc
INVARIANT LawRfcAgree
INVARIANT LawPrefixClosed
INVARIANT LawAntisym
INVARIANT LawTrans
INVARIANT LawDecoding
INVARIANT LawSegmentwise
INVARIANT LawRuleDefault
