SPECIFICATION TraceSpec
CONSTANTS
  O = {"o1", "o2", "o3"}
  K = {"k1", "k2"}
  CDom <- TraceCDom
  MDom <- TraceMDom
  Indices = {"by_u", "by_g", "by_c", "by_m"}
  MaxOps = 0
POSTCONDITION AllConsumed
