SPECIFICATION Spec
CONSTANTS
  Mgrs = {"sync"}
INVARIANT TypeOK
INVARIANT LawBound
INVARIANT LawNoPlain
INVARIANT LawMode
INVARIANT LawOwnServer
INVARIANT LawDowngrade
CONSTRAINT EmitCase
