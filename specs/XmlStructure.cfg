\* enumerates the descriptor algebra (every descriptor x value class), checks the laws of the reference, prints the cases
SPECIFICATION Spec
INVARIANT LawRT1
INVARIANT LawRT2
INVARIANT LawAbsent
INVARIANT LawIdem
INVARIANT Emit
