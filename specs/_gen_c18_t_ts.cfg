SPECIFICATION Spec
CONSTANTS
  Part = "ts"
  Big = FALSE
  TsDense = 50
  TsWin = 10
  Ts2Dense = 20
  DecCoMax = 12
INVARIANT Law
