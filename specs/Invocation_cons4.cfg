SPECIFICATION CSpec
CONSTANTS
  MaxReq = 0
  Tx = {1, 2, 3}
  Shapes <- Shapes4
INVARIANT CompletesOnce
INVARIANT NeverTwice
CONSTRAINT CEmit
