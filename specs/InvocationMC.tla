---- MODULE InvocationMC ----
EXTENDS Invocation
Queued(f) == [resp |-> "Wait", reps |-> <<"Wait", "Start", f>>, direct |-> FALSE]
DirectS(f) == [resp |-> f, reps |-> <<f>>, direct |-> TRUE]
Unknown == [resp |-> "Fail", reps |-> <<>>, direct |-> TRUE]
\* consumer configurations: pairs of overlapping transactions of every shape
Shapes1 == (1 :> Queued("Fin")) @@ (2 :> Queued("Fail"))
Shapes2 == (1 :> Queued("FinMod")) @@ (2 :> DirectS("Fin"))
Shapes3 == (1 :> DirectS("Fail")) @@ (2 :> Unknown)
Shapes4 == (1 :> Queued("Fin")) @@ (2 :> DirectS("Fail")) @@ (3 :> Queued("Fail"))
====
