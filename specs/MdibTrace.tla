----------------------------- MODULE MdibTrace -----------------------------
(***************************************************************************)
(* Abstract obligations of C02 / C03 (and the MDIB-level part of C11) on   *)
(* recorded executions of the real ProviderMdib.  Each record carries the  *)
(* complete projected MDIB after the API call; the step predicate is the   *)
(* abstract MDIB step (MdibAbs): what a transaction step MAY do according  *)
(* to the property - not what the operational model Mdib.tla does.         *)
(*                                                                         *)
(*   in-transaction call : MDIB unchanged (isolation)                      *)
(*   Abort / failed commit: MDIB = MDIB at Begin (atomicity)               *)
(*   Commit              : CommitOK(pre, post, footprint of the ok-calls)  *)
(*   MutateCopy          : MDIB unchanged, published reports unchanged     *)
(***************************************************************************)
EXTENDS Integers, Sequences, FiniteSets, TLC, Json, IOUtils

VARIABLES tid, l,
          cur,      \* last projected MDIB
          txpre,    \* projected MDIB when the open transaction began
          ops,      \* accepted API calls of the open transaction
          open,     \* is a transaction open
          hi        \* per handle: highest version ever seen and token at that time (survives deletion)

Data == JsonDeserialize(IOEnv.TRACE_FILE)
Traces == Data.traces
Total == Data.total
Ext == "ext"

H(p) == DOMAIN p.D
CH(p) == DOMAIN p.C

Clause(name, cond) == IF cond THEN TRUE ELSE PrintT(<<"REJECT", tid, l + 1, name>>)

\* ------------------------------------------------------------------ footprint of a transaction
RECURSIVE Subtree(_, _)
Subtree(p, h) == {h} \cup UNION {Subtree(p, x) : x \in {y \in H(p) : p.D[y].present /\ p.D[y].parent = h}}

Has(rec, f) == f \in DOMAIN rec
NamedD(p, rec) ==
  IF Has(rec, "hs") THEN {rec.hs[i] : i \in DOMAIN rec.hs}
  ELSE IF ~Has(rec, "h") THEN (IF Has(rec, "d") THEN {rec.d} ELSE {})
  ELSE IF rec.act \in {"RemoveDescriptor", "RemoveEntity"} THEN Subtree(p, rec.h) \cup {p.D[rec.h].parent}
  ELSE IF rec.act \in {"AddDescriptor", "NewEntity"} THEN {rec.h, rec.p}
  ELSE {rec.h}
NamedC(rec) == IF Has(rec, "c") THEN {rec.c} ELSE {}

FootD(p, os) == (UNION {NamedD(p, os[i]) : i \in 1..Len(os)}) \cap H(p)
FootC(p, os) == (UNION {NamedC(os[i]) : i \in 1..Len(os)})
                  \cup {c \in CH(p) : p.C[c].present /\ p.C[c].d \in FootD(p, os)}
\* the rest of the MDIB (outside the projected universe) may change only by the parent-version rule
RestMayChange(p, os) == \E i \in 1..Len(os) :
                           \/ os[i].act \in {"RemoveDescriptor", "RemoveEntity"}   \* the real subtree may reach outside the projection
                           \/ (os[i].act \in {"AddDescriptor", "NewEntity"} /\ os[i].p = Ext)

\* ------------------------------------------------------------------ abstract commit obligation
Same(p, q) == p.D = q.D /\ p.S = q.S /\ p.C = q.C /\ p.rest = q.rest
\* (saved: the versions the MDIB remembers for removed objects - they decide the versions of a later re-creation)
SameAll(p, q) == Same(p, q) /\ p.mver = q.mver /\ p.saved = q.saved

RefOK(p) ==
  /\ \A h \in H(p) : p.S[h].present => (p.D[h].present /\ p.S[h].dver = p.D[h].ver)
  /\ \A c \in CH(p) : p.C[c].present => (p.C[c].d \in H(p) /\ p.D[p.C[c].d].present /\ p.C[c].dver = p.D[p.C[c].d].ver)
  /\ \A h \in H(p) : p.D[h].present => (p.D[h].parent = Ext \/ (p.D[h].parent \in H(p) /\ p.D[p.D[h].parent].present))

CommitOK(pre, post, os) ==
  LET fd == FootD(pre, os)
      fc == FootC(pre, os)
  IN
  /\ Clause("mver_step", post.mver \in {pre.mver, pre.mver + 1})
  /\ Clause("mver_bump", ~Same(pre, post) => post.mver = pre.mver + 1)
  /\ Clause("empty_no_bump", Len(os) = 0 => SameAll(pre, post))
  /\ Clause("untouchedD", \A h \in H(pre) \ fd : post.D[h] = pre.D[h])
  /\ Clause("untouchedS", \A h \in H(pre) \ fd : post.S[h] = pre.S[h])
  /\ Clause("untouchedC", \A c \in CH(pre) \ fc : post.C[c] = pre.C[c])
  /\ Clause("untouchedRest", RestMayChange(pre, os) \/ post.rest = pre.rest)
  /\ Clause("monotoneD", \A h \in H(post) : post.D[h].present => post.D[h].ver >= hi.D[h].ver)
  /\ Clause("monotoneS", \A h \in H(post) : post.S[h].present => post.S[h].sver >= hi.S[h].ver)
  /\ Clause("monotoneC", \A c \in CH(post) : post.C[c].present => post.C[c].sver >= hi.C[c].ver)
  /\ Clause("bumpD", \A h \in H(post) : (post.D[h].present /\ hi.D[h].ver >= 0 /\ post.D[h].tok # hi.D[h].tok)
                                           => post.D[h].ver > hi.D[h].ver)
  /\ Clause("bumpS", \A h \in H(post) : (post.S[h].present /\ hi.S[h].ver >= 0
                                           /\ (post.S[h].tok # hi.S[h].tok \/ post.S[h].dver # hi.S[h].dver))
                                           => post.S[h].sver > hi.S[h].ver)
  /\ Clause("bumpC", \A c \in CH(post) : (post.C[c].present /\ hi.C[c].ver >= 0
                                           /\ (post.C[c].tok # hi.C[c].tok \/ post.C[c].dver # hi.C[c].dver
                                               \/ post.C[c].assoc # hi.C[c].assoc))
                                           => post.C[c].sver > hi.C[c].ver)
  /\ Clause("ref", RefOK(post))
  /\ Clause("ref_whole_mdib", post.refall)
  /\ Clause("lookups_agree", post.agree)

NoHi == [ver |-> -1, tok |-> -1, dver |-> -1, assoc |-> "No"]
HiOf(old, p) ==
  [D |-> [h \in H(p) |-> IF p.D[h].present /\ p.D[h].ver >= old.D[h].ver
                         THEN [ver |-> p.D[h].ver, tok |-> p.D[h].tok, dver |-> -1, assoc |-> "No"] ELSE old.D[h]],
   S |-> [h \in H(p) |-> IF p.S[h].present /\ p.S[h].sver >= old.S[h].ver
                         THEN [ver |-> p.S[h].sver, tok |-> p.S[h].tok, dver |-> p.S[h].dver, assoc |-> "No"] ELSE old.S[h]],
   C |-> [c \in CH(p) |-> IF p.C[c].present /\ p.C[c].sver >= old.C[c].ver
                          THEN [ver |-> p.C[c].sver, tok |-> p.C[c].tok, dver |-> p.C[c].dver, assoc |-> p.C[c].assoc]
                          ELSE old.C[c]]]
Hi0(p) == HiOf([D |-> [h \in H(p) |-> NoHi], S |-> [h \in H(p) |-> NoHi], C |-> [c \in CH(p) |-> NoHi]], p)

\* ------------------------------------------------------------------ trace stepping
TraceInit == /\ tid \in 1..Len(Traces) /\ l = 1
             /\ cur = Traces[tid][1].post /\ txpre = Traces[tid][1].post
             /\ ops = <<>> /\ open = FALSE
             /\ hi = Hi0(Traces[tid][1].post)
             /\ IF RefOK(cur) /\ cur.refall /\ cur.agree THEN TRUE ELSE PrintT(<<"REJECT", tid, 1, "init">>)

Step(rec) ==
  CASE rec.act = "Begin" ->
         /\ Clause("begin_noop", SameAll(cur, rec.post))
         /\ open' = (rec.res = "ok") /\ txpre' = rec.post /\ ops' = <<>> /\ hi' = HiOf(hi, rec.post)
    [] rec.act = "Abort" ->
         /\ Clause("atomic_abort", SameAll(txpre, rec.post))
         /\ Clause("lookups_agree", rec.post.agree)
         /\ open' = FALSE /\ txpre' = rec.post /\ ops' = <<>> /\ hi' = HiOf(hi, rec.post)
    [] rec.act = "Commit" /\ rec.res = "ok" ->
         /\ CommitOK(txpre, rec.post, ops)
         /\ open' = FALSE /\ txpre' = rec.post /\ ops' = <<>> /\ hi' = HiOf(hi, rec.post)
    [] rec.act = "Commit" /\ rec.res # "ok" ->
         /\ Clause("atomic_commit_failed", SameAll(txpre, rec.post))
         /\ Clause("lookups_agree", rec.post.agree)
         /\ open' = FALSE /\ txpre' = rec.post /\ ops' = <<>> /\ hi' = HiOf(hi, rec.post)
    [] rec.act = "MutateCopy" ->
         /\ Clause("isolated_copy", SameAll(cur, rec.post))
         /\ Clause("published_unchanged", rec.published_same)
         /\ Clause("lookups_agree", rec.post.agree)
         /\ hi' = HiOf(hi, rec.post) /\ UNCHANGED <<open, txpre, ops>>
    [] OTHER ->   \* an API call inside the open transaction
         /\ Clause("isolated_in_tx", SameAll(cur, rec.post))
         /\ Clause("lookups_agree", rec.post.agree)      \* also while a transaction is open
         /\ ops' = IF rec.res = "ok" THEN Append(ops, rec) ELSE ops
         /\ hi' = HiOf(hi, rec.post) /\ UNCHANGED <<open, txpre>>

TraceNext == /\ l < Len(Traces[tid])
             /\ LET rec == Traces[tid][l + 1] IN Step(rec) /\ cur' = rec.post
             /\ l' = l + 1 /\ tid' = tid

TraceSpec == TraceInit /\ [][TraceNext]_<<tid, l, cur, txpre, ops, open, hi>>
AllConsumed == TLCGet("distinct") = Total
View == <<tid, l>>
=============================================================================
