------------------------- MODULE UdpRepeatLoopTrace -------------------------
(***************************************************************************)
(* Batch validation of replays of UdpRepeatLoop behaviours on the real     *)
(* NetworkingThread (real WS-Discovery senders, real datagram bytes fed to *)
(* the real receive path).  Record 1 is the initial state; every record    *)
(* carries the projection                                                  *)
(*   post.known      abstract ids found in the known-id memory             *)
(*   post.delivered  abstract ids handed to the discovery layer, in order  *)
(* Clauses own_* are the property; clauses foreign_* only document that    *)
(* the receive path is alive (they are outside the statement of C15).      *)
(***************************************************************************)
EXTENDS UdpRepeatLoop, IOUtils

VARIABLES tid, l

Data == JsonDeserialize(IOEnv.TRACE_FILE)
Traces == Data.traces

Clause(name, cond) == IF cond THEN TRUE ELSE PrintT(<<"REJECT", tid, l + 1, name>>)

TraceInit == /\ tid \in 1..Len(Traces)
             /\ l = 1
             /\ hist = <<>>
             /\ sent = {}
             /\ LET rec == Traces[tid][1] IN
                  /\ seen = Rng(rec.post.known)
                  /\ delivered = rec.post.delivered
                  /\ IF seen = {} /\ delivered = <<>> THEN TRUE ELSE PrintT(<<"REJECT", tid, 1, "init">>)

TraceNext == /\ l < Len(Traces[tid])
             /\ LET rec == Traces[tid][l + 1] IN
                  /\ seen' = Rng(rec.post.known)
                  /\ delivered' = rec.post.delivered
                  /\ sent' = IF rec.act = "Send" THEN sent \cup {rec.id} ELSE sent
                  /\ CASE rec.act = "Send" -> Clause("own_preregistered", SendCore(rec.id))
                       [] rec.act = "Recv" /\ rec.id \in sent -> Clause("own_ignored", RecvOwnCore(rec.id))
                       [] rec.act = "Recv" /\ rec.id \in Foreign \ seen -> Clause("foreign_new_delivered", RecvNewCore(rec.id))
                       [] rec.act = "Recv" /\ rec.id \in Foreign \cap seen -> Clause("foreign_dup_ignored", RecvDupCore(rec.id))
                       [] OTHER -> Clause("unmodelled_step", FALSE)
                  /\ Clause("inv_own_ignored", OwnIgnored')
                  /\ Clause("inv_own_preregistered", OwnPreRegistered')
             /\ l' = l + 1 /\ tid' = tid /\ hist' = hist

TraceSpec == TraceInit /\ [][TraceNext]_<<vars, tid, l>>

Total == Data.total
AllConsumed == TLCGet("distinct") = Total
=============================================================================
