SPECIFICATION Spec
CONSTANTS
  H <- SimH
  CH <- McCH
  Kind <- SimKind
  InitParent <- SimInitParent
  Parents <- SimParents
  CtxOf <- McCtxOf
  Removable <- SimRemovable
  OtherMds <- McOtherMds
  BeginKinds <- AllKinds
  KeepH <- SimH
  TrackH = "none"
  Tok = {0, 1, 2}
  MaxTx = 4
  MaxOps = 4
CONSTRAINT EmitDone
