--------------------------- MODULE DiscoveryMatch ---------------------------
(***************************************************************************)
(* C14, part (a): reference semantics of the WS-Discovery matching rules    *)
(* over an abstract URI domain.  Pure operators, no state.                  *)
(*                                                                          *)
(* A URI is a record [scheme, auth, segs]:                                  *)
(*   scheme  token, meaning given by LowerOf (case folding)                 *)
(*   auth    token or "None" (URI has no authority part), LowerOf           *)
(*   segs    sequence of path segment tokens; every token is written as it  *)
(*           appears on the wire (still percent-encoded), its meaning after *)
(*           percent-decoding is DecOf.  The concrete URI is                *)
(*              scheme ":" ["//" auth] {"/" seg}                            *)
(*           so <<>> is the empty path, <<"">> is "/", <<"a","">> is "/a/"  *)
(*           (trailing slash = last segment empty), <<"","a">> is "//a".    *)
(* The python harness concretises exactly like that and cross-checks the    *)
(* two tables below against an independent decoder.                         *)
(***************************************************************************)
EXTENDS Naturals, Sequences, FiniteSets, TLC

\* ---- alphabet ------------------------------------------------------------
SchemeTokens == {"sdc.x", "SDC.X", "Sdc.X", "sdc.y"}
\* authorities: host only (two spellings of h, another host g), host with port, host with userinfo - port and userinfo
\* are part of the authority: h, h:1, h:2, u@h, v@h are five different authorities (only the case of the host folds)
BasicAuthTokens == {"h", "H", "g", "None"}
AuthTokens == BasicAuthTokens \cup {"h:1", "H:1", "h:2", "u@h", "v@h"}
LowerOf == ("sdc.x" :> "sdc.x") @@ ("SDC.X" :> "sdc.x") @@ ("Sdc.X" :> "sdc.x") @@ ("sdc.y" :> "sdc.y")
           @@ ("h" :> "h") @@ ("H" :> "h") @@ ("g" :> "g") @@ ("None" :> "None")
           @@ ("h:1" :> "h:1") @@ ("H:1" :> "h:1") @@ ("h:2" :> "h:2") @@ ("u@h" :> "u@h") @@ ("v@h" :> "v@h")

\* segment tokens: plain "a", upper case "A", their percent-encoded spellings "%61" and "%41", the encoded
\* slash in both hex spellings, the empty segment, a segment that contains an encoded slash, a doubly
\* encoded "a" (decodes once, to the three characters %61), another letter
SegTokens == {"a", "A", "%61", "%41", "%2F", "%2f", "", "a%2Fa", "%2561", "b"}
DecOf == ("a" :> "a") @@ ("A" :> "A") @@ ("%61" :> "a") @@ ("%41" :> "A") @@ ("%2F" :> "/") @@ ("%2f" :> "/")
         @@ ("" :> "") @@ ("a%2Fa" :> "a/a") @@ ("%2561" :> "%61") @@ ("b" :> "b")

Uri(s, h, p) == [scheme |-> s, auth |-> h, segs |-> p]

\* the concrete string is a URI of the intended shape: without authority the path must not start with "//"
WellFormed(u) == (u.auth = "None" /\ Len(u.segs) >= 2) => u.segs[1] # ""

\* ---- the rules ---------------------------------------------------------------
SameHead(a, b) == LowerOf[a.scheme] = LowerOf[b.scheme] /\ LowerOf[a.auth] = LowerOf[b.auth]

\* rfc3986: scheme and authority case-insensitively, path of a is a segment-wise prefix of the path of b
\* after percent-decoding every segment (decoding never creates or removes a segment boundary)
MatchRfc(a, b) ==
  /\ SameHead(a, b)
  /\ Len(a.segs) <= Len(b.segs)
  /\ \A i \in 1..Len(a.segs) : DecOf[a.segs[i]] = DecOf[b.segs[i]]

\* strcmp0: exact, case-sensitive comparison of the strings; the concretisation is injective on the
\* abstract domain, so string equality is equality of the records
MatchStr(a, b) == a = b

\* rule tokens: "absent" (no MatchBy attribute => rfc3986 is the default), "rfc3986", "strcmp0"
Rules == {"absent", "rfc3986", "strcmp0"}
MatchScope(a, b, rule) == IF rule = "strcmp0" THEN MatchStr(a, b) ELSE MatchRfc(a, b)

\* second, differently built formulation (canonical form, then sequence prefix); law RfcAgree
Canon(u) == [scheme |-> LowerOf[u.scheme], auth |-> LowerOf[u.auth],
             segs |-> [i \in 1..Len(u.segs) |-> DecOf[u.segs[i]]]]
MatchRfc2(a, b) == LET ca == Canon(a) cb == Canon(b) IN
  /\ ca.scheme = cb.scheme /\ ca.auth = cb.auth
  /\ Len(ca.segs) <= Len(cb.segs)
  /\ SubSeq(cb.segs, 1, Len(ca.segs)) = ca.segs

\* ---- services and filters -----------------------------------------------------
\* service: [types : Seq(type token), scopes : Seq(Uri)]  (+ more fields the filter does not look at)
\* filter : [types : [present, items], scopes : [present, items], rule]
SeqRng(s) == {s[i] : i \in DOMAIN s}

OffersTypes(srv, ft) == ft.present => \A i \in DOMAIN ft.items : \E j \in DOMAIN srv.types : srv.types[j] = ft.items[i]
InScopes(srv, fs, rule) ==
  fs.present => \A i \in DOMAIN fs.items : \E j \in DOMAIN srv.scopes : MatchScope(fs.items[i], srv.scopes[j], rule)
MatchesFilter(srv, flt) == OffersTypes(srv, flt.types) /\ InScopes(srv, flt.scopes, flt.rule)

\* second formulation via sets
MatchesFilter2(srv, flt) ==
  /\ (flt.types.present => SeqRng(flt.types.items) \subseteq SeqRng(srv.types))
  /\ (flt.scopes.present =>
        {u \in SeqRng(flt.scopes.items) : {v \in SeqRng(srv.scopes) : MatchScope(u, v, flt.rule)} = {}} = {})

\* indices (1-based) of the services of a list that pass the filter, ascending
Select(srvs, flt) == {i \in DOMAIN srvs : MatchesFilter(srvs[i], flt)}

Opt(present, items) == [present |-> present, items |-> items]
NoList == Opt(FALSE, <<>>)
=============================================================================
