---- MODULE MirrorMC ----
EXTENDS Mirror
McHs == {"a", "b", "d"}
McDyn == {"d"}
EmitSim == EmitAtLevel(22)
\* test purpose (breadth-first, tiny bounds): the shortest histories that end with the delivery described by the X: label
EmitPurpose == (hist # <<>> /\ hist[Len(hist)].act = "Deliver" /\ "X:part-rejected-after-update-part" \in hist[Len(hist)].sit)
                 => PrintT(<<"BEH", ToJson(hist)>>)
====
