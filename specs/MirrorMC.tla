---- MODULE MirrorMC ----
EXTENDS Mirror
ASSUME TLCSet(7, {})
McHs == {"a", "b", "d"}
McDyn == {"d"}
EmitSim == EmitAtLevel(22)
\* test purpose (breadth-first, tiny bounds): the shortest histories that end with the delivery described by the X: label
EmitPurpose == (hist # <<>> /\ hist[Len(hist)].act = "Deliver" /\ "X:part-rejected-after-update-part" \in hist[Len(hist)].sit)
                 => PrintT(<<"BEH", ToJson(hist)>>)
\* test purposes for loads (breadth-first, one worker, small universe): the first (= a shortest) history for every
\* situation of a load - what was buffered / arrived late relative to the snapshot it is replayed on
PurposeHs == {"a", "d"}
RECURSIVE LoadSits(_)
LoadSits(i) == IF i = 0 \/ hist[i].act = "BeginLoad" THEN {}
               ELSE (IF "sit" \in DOMAIN hist[i] THEN hist[i].sit ELSE {}) \cup LoadSits(i - 1)
EmitLoadPurpose == (hist # <<>> /\ hist[Len(hist)].act = "EndLoad")
                   => LET fresh == LoadSits(Len(hist)) \ TLCGet(7)
                      IN fresh # {} => (PrintT(<<"BEH", ToJson(hist)>>) /\ TLCSet(7, TLCGet(7) \cup fresh))
====
