---- MODULE MirrorMC ----
EXTENDS Mirror
McHs == {"a", "b", "d"}
McDyn == {"d"}
EmitSim == EmitAtLevel(22)
====
