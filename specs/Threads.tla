------------------------------ MODULE Threads ------------------------------
(***************************************************************************)
(* All interleavings, at lock-acquire/release granularity, of recorded     *)
(* thread programs of the real provider (transactions, Get handlers).      *)
(* Prog[t] is the sequence of traced events thread t performs:             *)
(*   [op |-> "acq"/"rel", lock |-> "tr"/"mdib"]   lock operations          *)
(*   [op |-> "wv"]   MdibVersion is written (inside the commit)            *)
(*   [op |-> "rv"]   the version group is read                             *)
(*   [op |-> "send"] a notification is put on the wire                     *)
(*   [op |-> "begin"] thread start, [op |-> "run"] continues after a release *)
(* "mdib" is re-entrant (RLock), "tr" is a plain lock; "cons" is the lock   *)
(* of the consumer's OperationsManager (C09).                              *)
(* sched is part of the state: every terminal state is one schedule; it is *)
(* printed and replayed on the real threads.  Snapshot / InOrder are the   *)
(* model's PREDICTIONS; the verdict comes from the replay.                 *)
(***************************************************************************)
EXTENDS Integers, Sequences, FiniteSets, TLC, Json

CONSTANTS Prog, Readers

VARIABLES pc, holder, depth, mver, lockedV, seenV, wire, sched
vars == <<pc, holder, depth, mver, lockedV, seenV, wire, sched>>

T == DOMAIN Prog
Locks == {"tr", "mdib", "txid", "cons", "tab"}
Free == 0
Reentrant(lk) == lk = "mdib"

Init == /\ pc = [t \in T |-> 1]
        /\ holder = [lk \in Locks |-> Free] /\ depth = [lk \in Locks |-> 0]
        /\ mver = 0
        /\ lockedV = [t \in T |-> -1]     \* MdibVersion when t last entered the mdib critical section
        /\ seenV = [t \in T |-> -1]       \* MdibVersion t read with the version group
        /\ wire = <<>> /\ sched = <<>>

Step(t) ==
  /\ pc[t] <= Len(Prog[t])
  /\ LET e == Prog[t][pc[t]] IN
     /\ CASE e.op = "acq" ->
               /\ (holder[e.lock] = Free \/ (Reentrant(e.lock) /\ holder[e.lock] = t))
               /\ holder' = [holder EXCEPT ![e.lock] = t]
               /\ depth' = [depth EXCEPT ![e.lock] = @ + 1]
               /\ lockedV' = IF e.lock = "mdib" /\ depth["mdib"] = 0 THEN [lockedV EXCEPT ![t] = mver] ELSE lockedV
               /\ UNCHANGED <<mver, seenV, wire>>
          [] e.op = "rel" ->
               /\ holder[e.lock] = t
               /\ depth' = [depth EXCEPT ![e.lock] = @ - 1]
               /\ holder' = [holder EXCEPT ![e.lock] = IF depth[e.lock] = 1 THEN Free ELSE t]
               /\ UNCHANGED <<mver, lockedV, seenV, wire>>
          [] e.op = "wv" -> mver' = mver + 1 /\ UNCHANGED <<holder, depth, lockedV, seenV, wire>>
          [] e.op = "rv" -> seenV' = [seenV EXCEPT ![t] = mver] /\ UNCHANGED <<holder, depth, mver, lockedV, wire>>
          [] e.op = "send" -> wire' = Append(wire, mver) /\ UNCHANGED <<holder, depth, mver, lockedV, seenV>>
          [] OTHER -> UNCHANGED <<holder, depth, mver, lockedV, seenV, wire>>
  /\ pc' = [pc EXCEPT ![t] = @ + 1]
  /\ sched' = Append(sched, t)

\* partial-order reduction: events that commute with every event of every other thread (thread start; a writer going
\* on after a release - the code that follows touches nothing shared) are taken at once, in a fixed order
Pending(t) == pc[t] <= Len(Prog[t])
Local(t) == Pending(t) /\ LET e == Prog[t][pc[t]] IN e.op = "begin" \/ (e.op = "run" /\ t \notin Readers)
Next == IF \E t \in T : Local(t)
        THEN Step(CHOOSE t \in T : Local(t) /\ \A u \in T : Local(u) => t <= u)
        ELSE \E t \in T : Step(t)
Spec == Init /\ [][Next]_vars

Finished == \A t \in T : pc[t] > Len(Prog[t])
\* predictions
SnapshotPred == \A t \in Readers : (pc[t] > Len(Prog[t]) /\ seenV[t] >= 0) => seenV[t] = lockedV[t]
InOrderPred == \A i \in 1..(Len(wire) - 1) : wire[i] <= wire[i + 1]
NoDeadlockPred == Finished \/ ENABLED Next

Emit == Finished => PrintT(<<"SCHED", ToJson([sched |-> sched, snapshot |-> SnapshotPred, inorder |-> InOrderPred])>>)
=============================================================================
