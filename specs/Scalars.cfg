\* small enumeration of all sub-domains for a run by hand (the check generates its own cfg per tier):
\*   java -cp tla2tools.jar:CommunityModules-deps.jar tlc2.TLC -workers 1 -deadlock -config Scalars.cfg Scalars
SPECIFICATION Spec
CONSTANTS
  Part = "all"
  Big = FALSE
  TsDense = 2000
  TsWin = 100
  Ts2Dense = 200
  DecCoMax = 20
INVARIANT Law
INVARIANT Emit
