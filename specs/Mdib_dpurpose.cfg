SPECIFICATION Spec
CONSTANTS
  H <- McH
  CH <- McCH
  Kind <- McKind
  InitParent <- McInitParent
  Parents <- McParents
  CtxOf <- McCtxOf
  Removable <- McRemovable
  OtherMds <- McOtherMds
  BeginKinds = {"descriptor"}
  KeepH = {}
  TrackH = "none"
  Tok = {1}
  MaxTx = 1
  MaxOps = 4
VIEW view
CONSTRAINT EmitDPurpose
CHECK_DEADLOCK FALSE
