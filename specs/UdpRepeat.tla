------------------------------ MODULE UdpRepeat ------------------------------
(***************************************************************************)
(* C15 - SOAP-over-UDP retransmission envelope of WS-Discovery datagrams   *)
(* (sdc11073.wsdiscovery.networkingthread._repeated_enqueue_msg).          *)
(*                                                                         *)
(* Reference semantics over integer milliseconds.  A parameter set is      *)
(*   [maxInitial, repeat, min, max, upper]   (all ms, repeat a count)      *)
(* A case is one outcome of the two random draws for one parameter set:    *)
(*   d0 \in 0..maxInitial   delay before the first transmission            *)
(*   g  \in min..max        gap between first and second transmission      *)
(* Schedule(p, d0, g) is the sequence of transmission offsets (relative to *)
(* the moment the message is handed to the networking thread).             *)
(*                                                                         *)
(* The clauses of the property (CountOK, InitialOK, FirstGapOK, FollowOK)  *)
(* are predicates over ANY observed offset sequence in a unit of 1/u ms    *)
(* (u = 1 for the reference, u = 1000 for recorded microseconds); the      *)
(* trace module UdpRepeatTrace judges the recorded behaviour of the real   *)
(* code with exactly these operators.                                      *)
(***************************************************************************)
EXTENDS Integers, Sequences, FiniteSets, TLC, Json

CONSTANTS UniMaxInitial, UniRepeat, UniMin, UniMax, UniUpper,   \* unicast parameter set
          MulMaxInitial, MulRepeat, MulMin, MulMax, MulUpper,   \* multicast parameter set
          Step                                                  \* 1: every outcome; n: every n-th + boundaries

VARIABLE case

P(mi, r, lo, hi, up) == [maxInitial |-> mi, repeat |-> r, min |-> lo, max |-> hi, upper |-> up]
PSets == {"unicast", "multicast"}
ParamSet(ps) == IF ps = "unicast" THEN P(UniMaxInitial, UniRepeat, UniMin, UniMax, UniUpper)
                                  ELSE P(MulMaxInitial, MulRepeat, MulMin, MulMax, MulUpper)

WellFormed(p) == /\ p.maxInitial >= 0 /\ p.repeat >= 0
                 /\ 0 < p.min /\ p.min <= p.max /\ p.max <= p.upper

Min(a, b) == IF a <= b THEN a ELSE b

\* ---- reference ---------------------------------------------------------------
NextGap(gap, upper) == Min(2 * gap, upper)

RECURSIVE Gap(_, _, _)
Gap(p, g, i) == IF i = 1 THEN g ELSE NextGap(Gap(p, g, i - 1), p.upper)     \* i-th gap, i in 1..repeat

RECURSIVE Offset(_, _, _, _)
Offset(p, d0, g, i) == IF i = 1 THEN d0 ELSE Offset(p, d0, g, i - 1) + Gap(p, g, i - 1)

Schedule(p, d0, g) == [i \in 1..(1 + p.repeat) |-> Offset(p, d0, g, i)]

\* ---- the property, clause by clause, over an observed sequence -----------------
GapAt(off, i) == off[i + 1] - off[i]                                         \* i in 1..Len(off)-1

CountOK(p, off)      == Len(off) = 1 + p.repeat
InitialOK(p, u, off) == Len(off) >= 1 => (0 <= off[1] /\ off[1] <= u * p.maxInitial)
FirstGapOK(p, u, off) == Len(off) >= 2 => (u * p.min <= GapAt(off, 1) /\ GapAt(off, 1) <= u * p.max)
FollowOK(p, u, off)  == \A i \in 2..(Len(off) - 1) : GapAt(off, i) = NextGap(GapAt(off, i - 1), u * p.upper)
Envelope(p, u, off)  == CountOK(p, off) /\ InitialOK(p, u, off) /\ FirstGapOK(p, u, off) /\ FollowOK(p, u, off)

\* the draws themselves: every possible outcome has to lie inside the configured windows
DrawInitialOK(p, lo, hi) == 0 <= lo /\ lo <= hi /\ hi <= p.maxInitial
DrawGapOK(p, lo, hi)     == p.min <= lo /\ lo <= hi /\ hi <= p.max

\* ---- enumerated domain ----------------------------------------------------------
Pick(lo, hi, extra) == {x \in lo..hi : (x - lo) % Step = 0} \cup (({lo, lo + 1, hi - 1, hi} \cup extra) \cap (lo..hi))
\* first gaps around which the k-th doubling reaches the cap
CapEdges(p) == UNION {{p.upper \div k - 1, p.upper \div k, p.upper \div k + 1} : k \in {1, 2, 4, 8, 16}}
D0Dom(p) == Pick(0, p.maxInitial, {})
GDom(p)  == Pick(p.min, p.max, CapEdges(p))
Domain == UNION {{[ps |-> ps, d0 |-> d, g |-> g] : d \in D0Dom(ParamSet(ps)), g \in GDom(ParamSet(ps))} : ps \in PSets}

Init == case \in Domain
Next == UNCHANGED case
Spec == Init /\ [][Next]_case

\* ---- laws of the reference (checked on every case) ------------------------------
Par == ParamSet(case.ps)
Ref == Schedule(Par, case.d0, case.g)

ParamsWellFormed == \A ps \in PSets : WellFormed(ParamSet(ps))
RefInEnvelope == Envelope(Par, 1, Ref)
RefMonotone == \A i \in 1..(Len(Ref) - 1) : Ref[i] < Ref[i + 1]
RefGapsGrowAndCapped == \A i \in 1..(Len(Ref) - 1) :
                           /\ GapAt(Ref, i) <= Par.upper
                           /\ (i > 1 => GapAt(Ref, i) >= GapAt(Ref, i - 1))
                           /\ (i > 1 /\ GapAt(Ref, i) < Par.upper => GapAt(Ref, i) = 2 * GapAt(Ref, i - 1))
\* once the cap is reached all following gaps are the cap
RefCapSticks == \A i \in 1..(Len(Ref) - 2) : GapAt(Ref, i) = Par.upper => GapAt(Ref, i + 1) = Par.upper
\* the whole burst is over after maxInitial + max + (repeat - 1) * upper
RefBounded == Par.repeat >= 1 => Ref[Len(Ref)] <= Par.maxInitial + Par.max + (Par.repeat - 1) * Par.upper
\* the unit of measurement is immaterial
RefScales == Envelope(Par, 1000, [i \in 1..Len(Ref) |-> 1000 * Ref[i]])
\* the clauses are discriminating: typical faults of a schedule are rejected
Drop(s) == SubSeq(s, 1, Len(s) - 1)
Uncapped == [i \in 1..Len(Ref) |-> IF i = 1 THEN case.d0 ELSE case.d0 + case.g * (2 ^ (i - 1) - 1)]
ClausesDiscriminate ==
    /\ ~CountOK(Par, Drop(Ref)) /\ ~CountOK(Par, Append(Ref, Ref[Len(Ref)] + Par.upper))
    /\ ~InitialOK(Par, 1, [i \in 1..Len(Ref) |-> Ref[i] + Par.maxInitial + 1 - case.d0])
    /\ (Par.repeat >= 1 => ~FirstGapOK(Par, 1, [i \in 1..Len(Ref) |-> IF i = 1 THEN Ref[1] ELSE Ref[i] + Par.max]))
    /\ (Uncapped # Ref => ~FollowOK(Par, 1, Uncapped))

\* ---- case emission (spec -> code) --------------------------------------------------
Emit == PrintT(<<"CASE", ToJson([ps |-> case.ps, d0 |-> case.d0, g |-> case.g, exp |-> Ref])>>)
=============================================================================
