------------------------------ MODULE UdpRepeat ------------------------------
(***************************************************************************)
(* C15 - SOAP-over-UDP retransmission envelope of WS-Discovery datagrams   *)
(* (sdc11073.wsdiscovery.networkingthread._repeated_enqueue_msg).          *)
(*                                                                         *)
(* Reference semantics over integer milliseconds.  A parameter set is      *)
(*   [maxInitial, repeat, min, max, upper]   (all ms, repeat a count)      *)
(* A case is one outcome of the two random draws for one parameter set:    *)
(*   d0 \in 0..maxInitial   delay before the first transmission            *)
(*   g  \in min..max        gap between first and second transmission      *)
(* Schedule(p, d0, g) is the sequence of transmission offsets (relative to *)
(* the moment the message is handed to the networking thread).             *)
(*                                                                         *)
(* The clauses of the property (CountOK, InitialOK, FirstGapOK, FollowOK)  *)
(* are predicates over ANY observed offset sequence in a unit of 1/u ms    *)
(* (u = 1 for the reference, u = 1000 for recorded microseconds); the      *)
(* trace module UdpRepeatTrace judges the recorded behaviour of the real   *)
(* code with exactly these operators.                                      *)
(***************************************************************************)
EXTENDS Integers, Sequences, FiniteSets, TLC, Json

CONSTANTS UniMaxInitial, UniRepeat, UniMin, UniMax, UniUpper,   \* unicast parameter set
          MulMaxInitial, MulRepeat, MulMin, MulMax, MulUpper,   \* multicast parameter set
          Step                                                  \* 1: every outcome; n: every n-th + boundaries

VARIABLE case

P(mi, r, lo, hi, up) == [maxInitial |-> mi, repeat |-> r, min |-> lo, max |-> hi, upper |-> up]
PSets == {"unicast", "multicast"}
ParamSet(ps) == IF ps = "unicast" THEN P(UniMaxInitial, UniRepeat, UniMin, UniMax, UniUpper)
                                  ELSE P(MulMaxInitial, MulRepeat, MulMin, MulMax, MulUpper)

WellFormed(p) == /\ p.maxInitial >= 0 /\ p.repeat >= 0
                 /\ 0 < p.min /\ p.min <= p.max /\ p.max <= p.upper

Min(a, b) == IF a <= b THEN a ELSE b

\* ---- reference ---------------------------------------------------------------
NextGap(gap, upper) == Min(2 * gap, upper)

\* s: offsets so far, gap: gap to the next transmission, n: transmissions still to schedule
RECURSIVE Build(_, _, _, _)
Build(p, s, gap, n) == IF n = 0 THEN s
                       ELSE Build(p, Append(s, s[Len(s)] + gap), NextGap(gap, p.upper), n - 1)

Schedule(p, d0, g) == Build(p, <<d0>>, g, p.repeat)

\* ---- the property, clause by clause, over an observed sequence -----------------
GapAt(off, i) == off[i + 1] - off[i]                                         \* i in 1..Len(off)-1

CountOK(p, off)      == Len(off) = 1 + p.repeat
InitialOK(p, u, off) == Len(off) >= 1 => (0 <= off[1] /\ off[1] <= u * p.maxInitial)
FirstGapOK(p, u, off) == Len(off) >= 2 => (u * p.min <= GapAt(off, 1) /\ GapAt(off, 1) <= u * p.max)
FollowOK(p, u, off)  == \A i \in 2..(Len(off) - 1) : GapAt(off, i) = NextGap(GapAt(off, i - 1), u * p.upper)
Envelope(p, u, off)  == CountOK(p, off) /\ InitialOK(p, u, off) /\ FirstGapOK(p, u, off) /\ FollowOK(p, u, off)

\* the draws themselves: every possible outcome has to lie inside the configured windows
DrawInitialOK(p, lo, hi) == 0 <= lo /\ lo <= hi /\ hi <= p.maxInitial
DrawGapOK(p, lo, hi)     == p.min <= lo /\ lo <= hi /\ hi <= p.max

\* ---- enumerated domain ----------------------------------------------------------
Pick(lo, hi, extra) == {x \in lo..hi : (x - lo) % Step = 0} \cup (({lo, lo + 1, hi - 1, hi} \cup extra) \cap (lo..hi))
\* first gaps around which the k-th doubling reaches the cap
CapEdges(p) == UNION {{p.upper \div k - 1, p.upper \div k, p.upper \div k + 1} : k \in {1, 2, 4, 8, 16}}
D0Dom(p) == Pick(0, p.maxInitial, {})
GDom(p)  == Pick(p.min, p.max, CapEdges(p))
\* (no set-valued constant definition of the whole domain: TLC would build it eagerly in every run)
Init == \E ps \in PSets : \E d \in D0Dom(ParamSet(ps)) : \E g \in GDom(ParamSet(ps)) :
          case = [ps |-> ps, d0 |-> d, g |-> g]
Next == UNCHANGED case
Spec == Init /\ [][Next]_case

\* ---- laws of the reference (checked on every case) ------------------------------
Law(name, cond) == IF cond THEN TRUE ELSE PrintT(<<"LAWFAIL", name, case>>) /\ FALSE

ParamsWellFormed == \A ps \in PSets : WellFormed(ParamSet(ps))

Monotone(ref) == \A i \in 1..(Len(ref) - 1) : ref[i] < ref[i + 1]
GapsGrowAndCapped(p, ref) == \A i \in 1..(Len(ref) - 1) :
                               /\ GapAt(ref, i) <= p.upper
                               /\ (i > 1 => GapAt(ref, i) >= GapAt(ref, i - 1))
                               /\ (i > 1 /\ GapAt(ref, i) < p.upper => GapAt(ref, i) = 2 * GapAt(ref, i - 1))
\* once the cap is reached all following gaps are the cap
CapSticks(p, ref) == \A i \in 1..(Len(ref) - 2) : GapAt(ref, i) = p.upper => GapAt(ref, i + 1) = p.upper
\* closed form: i-th gap = min(g * 2^(i-1), upper)
ClosedForm(p, g, ref) == \A i \in 1..(Len(ref) - 1) : GapAt(ref, i) = Min(g * 2 ^ (i - 1), p.upper)
\* the whole burst is over after maxInitial + max + (repeat - 1) * upper
Bounded(p, ref) == p.repeat >= 1 => ref[Len(ref)] <= p.maxInitial + p.max + (p.repeat - 1) * p.upper
\* the clauses are discriminating: typical faults of a schedule are rejected
Drop(s) == SubSeq(s, 1, Len(s) - 1)
Discriminate(p, d0, g, ref) ==
    LET uncapped == [i \in 1..Len(ref) |-> d0 + g * (2 ^ (i - 1) - 1)]      \* doubling without cap
        late == [i \in 1..Len(ref) |-> ref[i] + p.maxInitial + 1 - d0]
        wide == [i \in 1..Len(ref) |-> IF i = 1 THEN ref[1] ELSE ref[i] + p.max]
    IN /\ ~CountOK(p, Drop(ref)) /\ ~CountOK(p, Append(ref, ref[Len(ref)] + p.upper))
       /\ ~InitialOK(p, 1, late)
       /\ (p.repeat >= 1 => ~FirstGapOK(p, 1, wide))
       /\ (uncapped # ref => ~FollowOK(p, 1, uncapped))

Laws == LET par == ParamSet(case.ps)
            ref == Schedule(par, case.d0, case.g)
        IN /\ Law("in_envelope", Envelope(par, 1, ref))
           /\ Law("monotone", Monotone(ref))
           /\ Law("gaps_grow_and_capped", GapsGrowAndCapped(par, ref))
           /\ Law("cap_sticks", CapSticks(par, ref))
           /\ Law("closed_form", ClosedForm(par, case.g, ref))
           /\ Law("bounded", Bounded(par, ref))
           /\ Law("unit_immaterial", Envelope(par, 1000, [i \in 1..Len(ref) |-> 1000 * ref[i]]))
           /\ Law("clauses_discriminate", Discriminate(par, case.d0, case.g, ref))

\* ---- case emission (spec -> code) --------------------------------------------------
Emit == PrintT(<<"CASE", ToJson([ps |-> case.ps, d0 |-> case.d0, g |-> case.g, exp |-> Schedule(ParamSet(case.ps), case.d0, case.g)])>>)
=============================================================================
