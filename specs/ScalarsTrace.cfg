\* judging recorded results of the real converters (constants of the enumeration are unused here)
SPECIFICATION TraceSpec
CONSTANTS
  Part = "none"
  Big = FALSE
  TsDense = 0
  TsWin = 0
  Ts2Dense = 0
  DecCoMax = 0
POSTCONDITION AllConsumed
