SPECIFICATION SpecLoc
CONSTANTS
  Classes <- QuickClasses
  Shapes = {"solo", "mid", "rot"}
  AbsentModes = {"none"}
  Schemes <- AllSchemes
  Auths <- AllAuths
  Frags <- AllFrags
CONSTRAINT EmitLoc
