------------------------------- MODULE Scalars -------------------------------
(***************************************************************************)
(* C18 - scalar XML value conversions are exact over the wire value space. *)
(*                                                                         *)
(* Reference semantics of the lexical <-> value mappings of the XML Schema *)
(* scalar types used by BICEPS (pm:Timestamp = xsd:unsignedLong in ms,     *)
(* xsd:decimal, xsd:duration restricted to H/M/S, the date/time union of   *)
(* pm:DateOfBirth, xsd:boolean, xsd:integer and unsigned types, enums).    *)
(*                                                                         *)
(* TLC integers have 32 bit, therefore                                     *)
(*   - naturals of arbitrary size are digit sequences (most significant    *)
(*     digit first) with Strip / DsLess / DsAdd / DsSub on them,           *)
(*   - lexical values are sequences of one-character strings, the lexical  *)
(*     grammars (InType) and the value mappings (DecVal, DurParse, DtParse)*)
(*     are defined over them,                                              *)
(*   - decimals are [neg, co \in Seq(0..9), ex \in Int] : sign, coefficient *)
(*     digits, power of ten,                                               *)
(*   - durations are [sec, ns] with sec < 2^31 (68 years).                 *)
(*                                                                         *)
(* The behaviour is trivial: Init picks any case of the sub-domain chosen  *)
(* by Part, nothing changes.  TLC therefore visits every case, checks the  *)
(* algebraic laws of the reference (LawTs .. LawLex) and prints it (Emit) for *)
(* the harness that drives the real converters.  ScalarsTrace.tla judges   *)
(* the recorded results with the operators defined here.                   *)
(***************************************************************************)
EXTENDS Integers, Sequences, FiniteSets, TLC, Json, IOUtils

CONSTANTS Part,      \* sub-domain enumerated by this run: "ts" | "dec" | "dur" | "dt" | "lex" | "all" | "none"
          Big,       \* FALSE: quick tier boundary sets, TRUE: thorough tier boundary sets
          TsDense,   \* every ms value 0..TsDense (XML -> Python -> XML)
          TsWin,     \* size of the exhaustive windows at 2^31, 2^40 and 2^53/1000
          Ts2Dense,  \* every ms value 0..Ts2Dense x sub-ms offsets (Python -> XML -> Python)
          DecCoMax   \* every decimal coefficient 0..DecCoMax

VARIABLE case

\* ------------------------------------------------------------------ generic
Max2(a, b) == IF a > b THEN a ELSE b
Min2(a, b) == IF a < b THEN a ELSE b
Abs(x) == IF x < 0 THEN -x ELSE x
MinOf(S) == CHOOSE x \in S : \A y \in S : x <= y
Front(s) == SubSeq(s, 1, Len(s) - 1)
Rep(x, n) == [i \in 1..n |-> x]
Tup(f) == [i \in 1..Len(f) |-> f[i]]

\* -------------------------------------------- naturals as digit sequences
RECURSIVE Strip(_)
Strip(ds) == IF Len(ds) = 0 THEN <<0>>
             ELSE IF Len(ds) > 1 /\ ds[1] = 0 THEN Strip(Tail(ds)) ELSE ds

RECURSIVE NatDs(_)
NatDs(n) == IF n < 10 THEN <<n>> ELSE Append(NatDs(n \div 10), n % 10)

RECURSIVE DsNat(_)   \* only for sequences known to be small
DsNat(ds) == IF Len(ds) = 0 THEN 0 ELSE 10 * DsNat(Front(ds)) + ds[Len(ds)]

RECURSIVE LexLess(_, _)
LexLess(a, b) == IF Len(a) = 0 THEN FALSE
                 ELSE IF a[1] # b[1] THEN a[1] < b[1] ELSE LexLess(Tail(a), Tail(b))
DsLess(a0, b0) == LET a == Strip(a0)  b == Strip(b0)
                  IN IF Len(a) # Len(b) THEN Len(a) < Len(b) ELSE LexLess(a, b)
DsEq(a, b) == Strip(a) = Strip(b)
DsLeq(a, b) == DsLess(a, b) \/ DsEq(a, b)

Pad(ds, n) == [i \in 1..n |-> IF i <= n - Len(ds) THEN 0 ELSE ds[i - (n - Len(ds))]]

RECURSIVE AddAt(_, _, _, _)
AddAt(a, b, i, cy) == IF i = 0 THEN (IF cy = 0 THEN <<>> ELSE <<cy>>)
                      ELSE LET t == a[i] + b[i] + cy IN Append(AddAt(a, b, i - 1, t \div 10), t % 10)
DsAdd(a0, b0) == LET n == Max2(Len(a0), Len(b0)) IN Strip(AddAt(Pad(a0, n), Pad(b0, n), n, 0))

RECURSIVE SubAt(_, _, _, _)
SubAt(a, b, i, bw) == IF i = 0 THEN <<>>
                      ELSE LET t == a[i] - b[i] - bw IN Append(SubAt(a, b, i - 1, IF t < 0 THEN 1 ELSE 0), (t + 10) % 10)
DsSub(a0, b0) ==   \* a0 >= b0
  LET n == Max2(Len(a0), Len(b0)) IN Strip(SubAt(Pad(a0, n), Pad(b0, n), n, 0))

AbsDiff(a, b) == IF DsLess(a, b) THEN DsSub(b, a) ELSE DsSub(a, b)
DsAddSmall(ds, n) == DsAdd(ds, NatDs(n))
MulPow10(ds, k) == Strip(ds \o Rep(0, k))
DivPow10(ds, k) == IF Len(ds) <= k THEN <<0>> ELSE Strip(SubSeq(ds, 1, Len(ds) - k))

\* ------------------------------------------------------ lexical characters
DigitChars == {"0", "1", "2", "3", "4", "5", "6", "7", "8", "9"}
DVf == [c \in DigitChars |-> CHOOSE d \in 0..9 : ToString(d) = c]
CharOfDigit == [d \in 0..9 |-> ToString(d)]
IsDigits(cs) == Len(cs) > 0 /\ \A i \in 1..Len(cs) : cs[i] \in DigitChars
AllDigitsOrEmpty(cs) == \A i \in 1..Len(cs) : cs[i] \in DigitChars
ToDs(cs) == [i \in 1..Len(cs) |-> DVf[cs[i]]]
Chars(ds) == [i \in 1..Len(ds) |-> CharOfDigit[ds[i]]]
Chars2(n) == <<CharOfDigit[(n \div 10) % 10], CharOfDigit[n % 10]>>    \* two digit field
HasChar(cs, c) == \E i \in 1..Len(cs) : cs[i] = c
NoExp(cs) == ~HasChar(cs, "e") /\ ~HasChar(cs, "E")

UC == <<"A","B","C","D","E","F","G","H","I","J","K","L","M","N","O","P","Q","R","S","T","U","V","W","X","Y","Z">>
LC == <<"a","b","c","d","e","f","g","h","i","j","k","l","m","n","o","p","q","r","s","t","u","v","w","x","y","z">>
UpC(c) == IF \E i \in 1..26 : LC[i] = c THEN UC[CHOOSE i \in 1..26 : LC[i] = c] ELSE c
LoC(c) == IF \E i \in 1..26 : UC[i] = c THEN LC[CHOOSE i \in 1..26 : UC[i] = c] ELSE c
Upper(cs) == [i \in 1..Len(cs) |-> UpC(cs[i])]
Lower(cs) == [i \in 1..Len(cs) |-> LoC(cs[i])]

\* whiteSpace = collapse of the XSD atomic types: leading / trailing blanks do not count
RECURSIVE StripLeadSp(_)
StripLeadSp(cs) == IF Len(cs) > 0 /\ cs[1] = " " THEN StripLeadSp(Tail(cs)) ELSE cs
RECURSIVE StripTrailSp(_)
StripTrailSp(cs) == IF Len(cs) > 0 /\ cs[Len(cs)] = " " THEN StripTrailSp(Front(cs)) ELSE cs
Collapse(cs) == StripTrailSp(StripLeadSp(cs))

\* split into maximal digit runs ("n") and single other characters ("s")
RECURSIVE Tok(_, _, _)
Tok(cs, i, acc) ==
  IF i > Len(cs) THEN acc
  ELSE IF cs[i] \in DigitChars
       THEN IF Len(acc) > 0 /\ acc[Len(acc)].t = "n"
            THEN Tok(cs, i + 1, [acc EXCEPT ![Len(acc)].v = Append(@, cs[i])])
            ELSE Tok(cs, i + 1, Append(acc, [t |-> "n", v |-> <<cs[i]>>]))
       ELSE Tok(cs, i + 1, Append(acc, [t |-> "s", v |-> <<cs[i]>>]))
Tokens(cs) == Tok(cs, 1, <<>>)
Shape(toks) == [i \in 1..Len(toks) |-> IF toks[i].t = "n" THEN "n" ELSE toks[i].v[1]]
Nums(toks) == SelectSeq(toks, LAMBDA t : t.t = "n")

\* ================================================================ timestamps
\* XML: xsd:unsignedLong, milliseconds.  Python: seconds; here exact, in microseconds.
P31 == <<2,1,4,7,4,8,3,6,4,8>>               \* 2^31
P40 == <<1,0,9,9,5,1,1,6,2,7,7,7,6>>         \* 2^40
P53 == <<9,0,0,7,1,9,9,2,5,4,7,4,0>>         \* floor(2^53 / 1000)

TsToPyUs(ms) == MulPow10(ms, 3)
TsToXmlMs(us) == DivPow10(DsAddSmall(us, 500), 3)        \* nearest millisecond
\* what the statement allows for Python -> XML: any ms value less than 1 ms away
TsXmlAcceptable(us, ms) == DsLess(AbsDiff(TsToPyUs(ms), us), <<1,0,0,0>>)

TsLex(c) == IF c.f = "lead0" THEN <<"0", "0">> \o Chars(c.ms) ELSE Chars(c.ms)

\* [ts : Seq(digits), dec : Seq(digits)] drawn by the harness (seeded); none when run by hand
Samples == IF "SAMPLES_FILE" \in DOMAIN IOEnv THEN JsonDeserialize(IOEnv.SAMPLES_FILE) ELSE [ts |-> <<>>, dec |-> <<>>]
SeqRange(s) == {Tup(s[i]) : i \in 1..Len(s)}

TsWindows == {DsAddSmall(DsSub(P31, NatDs(TsWin \div 2)), k) : k \in 0..TsWin}
             \cup {DsAddSmall(DsSub(P40, NatDs(TsWin \div 2)), k) : k \in 0..TsWin}
             \cup {DsAddSmall(DsSub(P53, NatDs(TsWin)), k) : k \in 0..TsWin}
TsAll == {NatDs(n) : n \in 0..TsDense} \cup TsWindows \cup SeqRange(Samples.ts)
TsSubs == IF Big THEN {0, 1, 250, 499, 500, 501, 750, 999} ELSE {0, 1, 500, 999}
Ts2Small == {NatDs(n) : n \in 0..Ts2Dense}
Ts2Far == {ms \in TsWindows : ms[Len(ms)] \in {0, 7}} \cup SeqRange(Samples.ts)
TsCases ==
  [k : {"ts1"}, ms : TsAll, f : {"canon"}]
  \cup [k : {"ts1"}, ms : {NatDs(n) : n \in 0..Min2(TsDense, 2000)} \cup SeqRange(Samples.ts), f : {"lead0"}]
  \cup [k : {"ts2"}, ms : Ts2Small, sub : TsSubs, ty : {"float"}]
  \cup [k : {"ts2"}, ms : Ts2Far, sub : {0, 1, 999}, ty : {"float", "Decimal"}]
  \cup [k : {"ts2"}, ms : {NatDs(n) : n \in 0..Min2(Ts2Dense, 500)}, sub : {0, 500}, ty : {"Decimal"}]
  \cup [k : {"ts2"}, ms : {NatDs(1000 * n) : n \in 0..Min2(Ts2Dense, 300)} \cup {MulPow10(DivPow10(P53, 3), 3)},
        sub : {0}, ty : {"int"}]

LawTs(c) ==
  IF c.k = "ts1" THEN TsToXmlMs(TsToPyUs(c.ms)) = Strip(c.ms) /\ TsXmlAcceptable(TsToPyUs(c.ms), c.ms)
  ELSE LET us == DsAddSmall(TsToPyUs(c.ms), c.sub) IN
       /\ TsXmlAcceptable(us, TsToXmlMs(us))
       /\ TsXmlAcceptable(us, c.ms)                                   \* truncation is acceptable as well
       /\ ~TsXmlAcceptable(us, DsAddSmall(c.ms, 2))

\* ================================================================== decimals
RECURSIVE StripTrail(_, _)
StripTrail(co, ex) == IF Len(co) > 1 /\ co[Len(co)] = 0 THEN StripTrail(Front(co), ex + 1)
                      ELSE [co |-> co, ex |-> ex]
Norm(d) == LET c == Strip(d.co) IN
           IF c = <<0>> THEN [neg |-> FALSE, co |-> <<0>>, ex |-> 0]
           ELSE LET t == StripTrail(c, d.ex) IN [neg |-> d.neg, co |-> t.co, ex |-> t.ex]
DecEq(a, b) == Norm(a) = Norm(b)

\* canonical lexical form without exponent
Lex(d) == LET n == Norm(d)
              sg == IF n.neg THEN <<"-">> ELSE <<>>
              L == Len(n.co)
          IN IF n.ex >= 0 THEN sg \o Chars(n.co) \o Rep("0", n.ex)
             ELSE LET k == -n.ex IN
                  IF L > k THEN sg \o Chars(SubSeq(n.co, 1, L - k)) \o <<".">> \o Chars(SubSeq(n.co, L - k + 1, L))
                  ELSE sg \o <<"0", ".">> \o Rep("0", k - L) \o Chars(n.co)

\* xsd:decimal lexical space: (+|-)? (digits (. digits*)? | . digits+)
DecParse(cs) ==
  LET hasSign == Len(cs) > 0 /\ cs[1] \in {"+", "-"}
      body == IF hasSign THEN Tail(cs) ELSE cs
      dots == {i \in 1..Len(body) : body[i] = "."}
      ip == IF dots = {} THEN body ELSE SubSeq(body, 1, MinOf(dots) - 1)
      fp == IF dots = {} THEN <<>> ELSE SubSeq(body, MinOf(dots) + 1, Len(body))
  IN [ok |-> AllDigitsOrEmpty(ip) /\ AllDigitsOrEmpty(fp) /\ Len(ip) + Len(fp) > 0,
      neg |-> hasSign /\ cs[1] = "-", ip |-> ip, fp |-> fp]
DecLexOk(cs) == DecParse(cs).ok
DecVal(cs) == LET p == DecParse(cs) IN Norm([neg |-> p.neg, co |-> ToDs(p.ip \o p.fp), ex |-> -Len(p.fp)])

\* value space of xsd:decimal with totalDigits = 18: i / 10^n with |i| < 10^18 and 0 <= n <= 18
InD18(d) == LET n == Norm(d) IN
            IF n.ex >= 0 THEN Len(n.co) + n.ex <= 18 ELSE -n.ex <= 18 /\ Len(n.co) <= 18

\* other lexical forms of the same value
DecLexForm(d, f) ==
  LET cl == Lex(d)
      neg == Len(cl) > 0 /\ cl[1] = "-"
      sg == IF neg THEN <<"-">> ELSE <<>>
      body == IF neg THEN Tail(cl) ELSE cl
  IN CASE f = "canon" -> cl
       [] f = "plus" -> IF neg THEN cl ELSE <<"+">> \o cl
       [] f = "lead0" -> sg \o <<"0", "0">> \o body
       [] f = "trail0" -> IF HasChar(cl, ".") THEN cl \o <<"0", "0">> ELSE cl \o <<".", "0", "0">>
       [] f = "nointzero" -> IF Len(body) > 1 /\ body[1] = "0" /\ body[2] = "." THEN sg \o Tail(body) ELSE cl
       [] f = "dotend" -> IF HasChar(cl, ".") THEN cl ELSE cl \o <<".">>

D18 == <<1,2,3,4,5,6,7,8,9,0,1,2,3,4,5,6,7,8>>
DecLens == IF Big THEN {9, 10, 15, 16, 17, 18} ELSE {16, 17, 18}
DecBoundaryCo ==
  UNION {{<<1>> \o Rep(0, L - 1), <<1>> \o Rep(0, L - 2) \o <<1>>, Rep(9, L), SubSeq(D18, 1, L),
          <<1,2,3,4,5>> \o Rep(0, L - 5), <<5>> \o Rep(0, L - 2) \o <<5>>} : L \in DecLens}
DecCo == {NatDs(n) : n \in 0..DecCoMax} \cup DecBoundaryCo \cup SeqRange(Samples.dec)
DecFormCo == {NatDs(n) : n \in 0..Min2(DecCoMax, 25)} \cup {Rep(9, 18), D18, <<1,2,0,0>>}
DecFormEx == {-18, -17, -7, -6, -3, -1, 0, 1, 3, 18}
DecCases ==
  \* pad: the python value is held with that many extra zero digits (coefficient x 10^pad, exponent - pad): same number,
  \* another representation - e.g. Decimal('100000000000000000.00') for 1E+17
  [k : {"dpy"}, neg : BOOLEAN, co : DecCo, ex : -18..18, pad : {0, 2}]
  \cup [k : {"dxml"}, neg : BOOLEAN, co : DecCo, ex : -18..18, f : {"canon"}]
  \cup [k : {"dxml"}, neg : BOOLEAN, co : DecFormCo, ex : DecFormEx,
        f : {"plus", "lead0", "trail0", "nointzero", "dotend"}]
DecOf(c) == [neg |-> c.neg, co |-> c.co, ex |-> c.ex]
DecLexOf(c) == DecLexForm(DecOf(c), c.f)

LawDec(c) ==
  LET d == DecOf(c) IN
  /\ DecLexOk(Lex(d)) /\ NoExp(Lex(d)) /\ DecVal(Lex(d)) = Norm(d)
  /\ c.k = "dxml" => DecLexOk(DecLexOf(c)) /\ DecVal(DecLexOf(c)) = Norm(d)
  /\ InD18(d) => Len(SelectSeq(Lex(d), LAMBDA ch : ch \in DigitChars)) <= 19   \* 18 digits (+ "0." )

\* ================================================================= durations
\* xsd:duration restricted to PT(nH)?(nM)?(n(.n)?S)? ; value [sec, ns]; Python: seconds
FracNs(fr) == DsNat(SubSeq(fr \o Rep(0, 9), 1, 9))          \* fraction digits -> nanoseconds (truncating)
DurVal(c) == [sec |-> c.h * 3600 + c.m * 60 + c.s, ns |-> FracNs(c.fr)]
DurLex(c) == <<"P", "T">>
             \o (IF c.hp THEN Chars(NatDs(c.h)) \o <<"H">> ELSE <<>>)
             \o (IF c.mp THEN Chars(NatDs(c.m)) \o <<"M">> ELSE <<>>)
             \o (IF c.sp THEN Chars(NatDs(c.s)) \o (IF Len(c.fr) > 0 THEN <<".">> \o Chars(c.fr) ELSE <<>>) \o <<"S">>
                 ELSE <<>>)

DurShapes == {<<"n","H">>, <<"n","M">>, <<"n","S">>, <<"n",".","n","S">>,
              <<"n","H","n","M">>, <<"n","H","n","S">>, <<"n","H","n",".","n","S">>,
              <<"n","M","n","S">>, <<"n","M","n",".","n","S">>,
              <<"n","H","n","M","n","S">>, <<"n","H","n","M","n",".","n","S">>}
DurUnit(sh, p) ==   \* role of the number at position p of a shape: H, M, S, or "f" for the fraction of the seconds
  IF sh[p + 1] = "." THEN "S" ELSE IF p > 1 /\ sh[p - 1] = "." THEN "f" ELSE sh[p + 1]
SmallNum(cs) == Len(Strip(ToDs(cs))) <= 9      \* fits TLC integers
BadDur == [ok |-> FALSE, sec |-> 0, ns |-> 0]
DurParse(cs) ==
  IF Len(cs) < 3 \/ cs[1] # "P" \/ cs[2] # "T" THEN BadDur
  ELSE LET toks == Tokens(SubSeq(cs, 3, Len(cs)))
           sh == Tup(Shape(toks))
       IN IF sh \notin DurShapes THEN BadDur
          ELSE LET np == {p \in 1..Len(sh) : sh[p] = "n"}
                   has(u) == \E p \in np : DurUnit(sh, p) = u
                   at(u) == toks[CHOOSE p \in np : DurUnit(sh, p) = u].v
                   val(u) == IF has(u) THEN DsNat(Strip(ToDs(at(u)))) ELSE 0
               IN IF \E u \in {"H", "M", "S"} : has(u) /\ ~SmallNum(at(u)) THEN BadDur
                  ELSE [ok |-> TRUE, sec |-> val("H") * 3600 + val("M") * 60 + val("S"),
                        ns |-> IF has("f") THEN FracNs(ToDs(at("f"))) ELSE 0]
DurLexOk(cs) == DurParse(cs).ok
Cap == 2000000000
DurDiffNs(a, b) == IF Abs(a.sec - b.sec) > 1 THEN Cap ELSE Abs((a.sec - b.sec) * 1000000000 + a.ns - b.ns)
DurClose(a, b) == DurDiffNs(a, b) <= 1000         \* within one microsecond

DurH == IF Big THEN {1, 2, 23, 24, 25, 100, 8760, 500000} ELSE {1, 25, 500000}
DurM == IF Big THEN {1, 59, 60, 61, 1440} ELSE {1, 59, 61}
DurS == IF Big THEN {0, 1, 9, 10, 59, 60, 61, 3600, 86400, 100000} ELSE {0, 1, 59, 61, 86400}
DurFr == {<<>>, <<0>>, <<5>>, <<0,0,1>>, <<0,0,0,0,0,1>>, <<9,9,9,9,9,9>>, <<1,2,3,4,5,6>>, <<1,0>>,
          <<0,0,0,0,0,0,4>>, <<0,0,0,0,0,0,6>>, <<9,9,9,9,9,9,9,9,9>>}
         \cup (IF Big THEN {<<9,9,9>>, <<4,9,9,9,9,9>>, <<5,0,0,0,0,0>>, <<0,0,0,0,0,0,5>>, <<9,9,9,9,9,9,5>>,
                            <<1,2,3,4,5,6,7,8,9>>, <<0,0,1,0,0,0>>, <<9>>, <<0,9>>, <<1,2,3,4,5,6,4,9,9>>}
               ELSE {})
DurPySec == {0, 1, 59, 60, 61, 3599, 3600, 3601, 86399, 86400, 90061, 1000000, 31536000, 1800000000}
            \cup (IF Big THEN {2, 9, 10, 119, 7199, 7200, 86401, 172800, 999999, 2147483} ELSE {})
DurPyUs == {0, 1, 9, 10, 999, 1000, 1001, 499999, 500000, 500001, 999998, 999999, 123456, 100000}
DurPySub == IF Big THEN {0, 1, 499, 500, 501, 999} ELSE {0, 499, 501}
DurCases ==
  [k : {"durxml"}, hp : {TRUE}, h : DurH \cup {0}, mp : {TRUE}, m : DurM \cup {0}, sp : {TRUE}, s : DurS, fr : DurFr]
  \cup [k : {"durxml"}, hp : {TRUE}, h : DurH \cup {0}, mp : {TRUE}, m : DurM \cup {0}, sp : {FALSE}, s : {0}, fr : {<<>>}]
  \cup [k : {"durxml"}, hp : {TRUE}, h : DurH \cup {0}, mp : {FALSE}, m : {0}, sp : {TRUE}, s : DurS, fr : DurFr]
  \cup [k : {"durxml"}, hp : {FALSE}, h : {0}, mp : {TRUE}, m : DurM \cup {0}, sp : {TRUE}, s : DurS, fr : DurFr]
  \cup [k : {"durxml"}, hp : {TRUE}, h : DurH \cup {0}, mp : {FALSE}, m : {0}, sp : {FALSE}, s : {0}, fr : {<<>>}]
  \cup [k : {"durxml"}, hp : {FALSE}, h : {0}, mp : {TRUE}, m : DurM \cup {0}, sp : {FALSE}, s : {0}, fr : {<<>>}]
  \cup [k : {"durxml"}, hp : {FALSE}, h : {0}, mp : {FALSE}, m : {0}, sp : {TRUE}, s : DurS, fr : DurFr]
  \cup [k : {"durpy"}, sec : DurPySec, us : DurPyUs, sub : DurPySub, ty : {"float"}]
  \cup [k : {"durpy"}, sec : DurPySec, us : DurPyUs, sub : {0}, ty : {"Decimal"}]
  \cup [k : {"durpy"}, sec : DurPySec, us : {0}, sub : {0}, ty : {"int"}]

LawDur(c) ==
  IF c.k = "durxml"
  THEN LET p == DurParse(DurLex(c)) IN p.ok /\ p.sec = DurVal(c).sec /\ p.ns = DurVal(c).ns
  ELSE c.us < 1000000 /\ c.sub < 1000 /\ c.sec + 1 > 0

\* ================================================ date / time (pm:DateOfBirth)
\* case: yneg, y (>= 4 digits), mo, dy (0 = absent), tm "none" | "hms" | "eod" | "eodf", hh, mi, ss, fr, tz "none" | "Z" | "+" | "-", tzh, tzm
DtLex(c) ==
  (IF c.yneg THEN <<"-">> ELSE <<>>) \o Chars(c.y)
  \o (IF c.mo > 0 THEN <<"-">> \o Chars2(c.mo) ELSE <<>>)
  \o (IF c.dy > 0 THEN <<"-">> \o Chars2(c.dy) ELSE <<>>)
  \o (CASE c.tm = "hms" -> <<"T">> \o Chars2(c.hh) \o <<":">> \o Chars2(c.mi) \o <<":">> \o Chars2(c.ss)
                           \o (IF Len(c.fr) > 0 THEN <<".">> \o Chars(c.fr) ELSE <<>>)
        [] c.tm = "eod" -> <<"T", "2", "4", ":", "0", "0", ":", "0", "0">>
        [] c.tm = "eodf" -> <<"T", "2", "4", ":", "0", "0", ":", "0", "0", ".", "0", "0", "0">>
        [] OTHER -> <<>>)
  \o (CASE c.tz = "Z" -> <<"Z">>
        [] c.tz \in {"+", "-"} -> <<c.tz>> \o Chars2(c.tzh) \o <<":">> \o Chars2(c.tzm)
        [] OTHER -> <<>>)

\* value of a case / of a parsed lexical: year (signed), month, day, time of day in ns or end-of-day, tz offset in minutes
FracNsDt(fr) == FracNs(fr)
DtValOfCase(c) ==
  [yneg |-> c.yneg /\ Strip(c.y) # <<0>>, y |-> Strip(c.y), mo |-> c.mo, dy |-> c.dy,
   tm |-> IF c.tm = "hms" THEN "hms" ELSE IF c.tm = "none" THEN "none" ELSE "eod",
   sod |-> IF c.tm = "hms" THEN c.hh * 3600 + c.mi * 60 + c.ss ELSE 0,
   ns |-> IF c.tm = "hms" THEN FracNsDt(c.fr) ELSE 0,
   tz |-> IF c.tz = "none" THEN "none" ELSE "off",
   off |-> IF c.tz = "+" THEN c.tzh * 60 + c.tzm ELSE IF c.tz = "-" THEN -(c.tzh * 60 + c.tzm) ELSE 0]

DtBases == [Y |-> <<"n">>, YM |-> <<"n","-","n">>, YMD |-> <<"n","-","n","-","n">>,
            DT |-> <<"n","-","n","-","n","T","n",":","n",":","n">>,
            DTF |-> <<"n","-","n","-","n","T","n",":","n",":","n",".","n">>]
DtTzs == [none |-> <<>>, Z |-> <<"Z">>, plus |-> <<"+","n",":","n">>, minus |-> <<"-","n",":","n">>]
DtCombos == {<<p, b, z>> : p \in {"pos", "neg"}, b \in DOMAIN DtBases, z \in DOMAIN DtTzs}
DtShapeOf(q) == (IF q[1] = "neg" THEN <<"-">> ELSE <<>>) \o DtBases[q[2]] \o DtTzs[q[3]]
Two(t) == Len(t.v) = 2
N2(t) == DsNat(ToDs(t.v))
BadDt == [ok |-> FALSE]
DtParse(cs) ==
  LET toks == Tokens(cs)
      sh == Shape(toks)
      nums == Nums(toks)
  IN IF ~\E q \in DtCombos : DtShapeOf(q) = sh THEN BadDt
     ELSE LET q == CHOOSE q \in DtCombos : DtShapeOf(q) = sh
              b == q[2]
              nb == CASE b = "Y" -> 1 [] b = "YM" -> 2 [] b = "YMD" -> 3 [] b = "DT" -> 6 [] b = "DTF" -> 7
              y == nums[1].v
              hasT == b \in {"DT", "DTF"}
              hasTz == q[3] \in {"plus", "minus"}
              widthsOk == /\ Len(y) >= 4 /\ (Len(y) > 4 => y[1] # "0")
                          /\ \A j \in 2..Len(nums) : (j = 7 /\ b = "DTF") \/ Two(nums[j])
          IN IF ~widthsOk THEN BadDt
             ELSE LET mo == IF nb >= 2 THEN N2(nums[2]) ELSE 0
                      dy == IF nb >= 3 THEN N2(nums[3]) ELSE 0
                      hh == IF hasT THEN N2(nums[4]) ELSE 0
                      mi == IF hasT THEN N2(nums[5]) ELSE 0
                      ss == IF hasT THEN N2(nums[6]) ELSE 0
                      fr == IF b = "DTF" THEN ToDs(nums[7].v) ELSE <<>>
                      tzh == IF hasTz THEN N2(nums[nb + 1]) ELSE 0
                      tzm == IF hasTz THEN N2(nums[nb + 2]) ELSE 0
                      eod == hasT /\ hh = 24 /\ mi = 0 /\ ss = 0 /\ FracNsDt(fr) = 0 /\ Len(fr) <= 9
                      rangesOk == /\ (nb >= 2 => mo \in 1..12) /\ (nb >= 3 => dy \in 1..31)
                                  /\ (hasT => eod \/ (hh <= 23 /\ mi <= 59 /\ ss <= 59))
                                  /\ (hasTz => tzm <= 59 /\ tzh * 60 + tzm <= 840)
                  IN IF ~rangesOk THEN BadDt
                     ELSE [ok |-> TRUE,
                           v |-> [yneg |-> q[1] = "neg" /\ Strip(ToDs(y)) # <<0>>, y |-> Strip(ToDs(y)), mo |-> mo, dy |-> dy,
                                  tm |-> IF ~hasT THEN "none" ELSE IF eod THEN "eod" ELSE "hms",
                                  sod |-> IF hasT /\ ~eod THEN hh * 3600 + mi * 60 + ss ELSE 0,
                                  ns |-> IF hasT /\ ~eod THEN FracNsDt(fr) ELSE 0,
                                  tz |-> IF q[3] = "none" THEN "none" ELSE "off",
                                  off |-> IF q[3] = "plus" THEN tzh * 60 + tzm ELSE IF q[3] = "minus" THEN -(tzh * 60 + tzm) ELSE 0]]
\* same value within one microsecond
DtSame(a, b) == /\ a.yneg = b.yneg /\ a.y = b.y /\ a.mo = b.mo /\ a.dy = b.dy /\ a.tm = b.tm
                /\ a.tz = b.tz /\ a.off = b.off
                /\ DurClose([sec |-> a.sod, ns |-> a.ns], [sec |-> b.sod, ns |-> b.ns])

DtYears == IF Big THEN {<<0,0,0,1>>, <<0,0,0,0>>, <<1,9,7,0>>, <<2,0,2,4>>, <<9,9,9,9>>, <<1,0,0,0,0>>, <<1,2,3,4,5,6>>}
           ELSE {<<0,0,0,1>>, <<2,0,2,4>>, <<1,2,3,4,5>>}
DtFr == {<<>>, <<5>>, <<1,2,3>>, <<1,2,3,4,5,6>>, <<0,0,0,0,0,1>>, <<9,9,9,9,9,9>>, <<5,0>>}
        \cup (IF Big THEN {<<1,2,3,4,5,6,7>>, <<0,0,0,0,0,0,5>>, <<0>>, <<9,9,9>>, <<0,0,1>>} ELSE {})
DtDates == {<<0, 0>>, <<1, 0>>, <<12, 0>>, <<1, 1>>, <<2, 28>>, <<12, 31>>} \cup (IF Big THEN {<<6, 15>>, <<10, 9>>} ELSE {})
\* (designators whose hour part is 00 - the sign lives in the minutes alone - and ones with both parts non-zero)
DtTz == {<<"none", 0, 0>>, <<"Z", 0, 0>>, <<"+", 0, 0>>, <<"-", 0, 0>>, <<"+", 5, 30>>, <<"-", 8, 0>>, <<"+", 14, 0>>, <<"-", 14, 0>>,
         <<"-", 0, 30>>, <<"+", 0, 45>>, <<"-", 9, 30>>, <<"-", 13, 59>>}
        \cup (IF Big THEN {<<"+", 1, 0>>, <<"-", 13, 59>>, <<"+", 0, 1>>} ELSE {})
DtHms == IF Big THEN {<<0,0,0>>, <<9,5,6>>, <<23,59,59>>, <<12,0,5>>, <<0,0,59>>, <<10,10,10>>}
         ELSE {<<0,0,0>>, <<9,5,6>>, <<23,59,59>>}
DtMk(k, yn, y, d, tm, t, fr, z) ==
  [k |-> k, yneg |-> yn, y |-> y, mo |-> d[1], dy |-> d[2], tm |-> tm, hh |-> t[1], mi |-> t[2], ss |-> t[3],
   fr |-> fr, tz |-> z[1], tzh |-> z[2], tzm |-> z[3]]
DtCases ==
  {DtMk(k, yn, y, d, "none", <<0,0,0>>, <<>>, z) :
      k \in {"dtxml", "dtpy"}, yn \in BOOLEAN, y \in DtYears, d \in DtDates, z \in DtTz}
  \cup {DtMk(k, yn, y, d, "hms", t, fr, z) :
      k \in {"dtxml", "dtpy"}, yn \in BOOLEAN, y \in {<<2,0,2,4>>, <<0,0,0,1>>}, d \in {<<2, 28>>, <<12, 31>>},
      t \in DtHms, fr \in DtFr, z \in DtTz}
  \cup {DtMk(k, FALSE, y, <<12, 31>>, "eod", <<0,0,0>>, <<>>, z) : k \in {"dtxml", "dtpy"}, y \in DtYears, z \in DtTz}
  \cup {DtMk("dtxml", FALSE, y, <<12, 31>>, "eodf", <<0,0,0>>, <<>>, z) : y \in DtYears, z \in DtTz}

LawDt(c) == LET p == DtParse(DtLex(c)) IN p.ok /\ p.v = DtValOfCase(c)

\* =================================================== lexical spaces (reject)
\* probe = base literal (a value of the type) decorated into an in-type or out-of-type lexical form
Types == {"boolean", "integer", "unsignedInt", "unsignedLong", "timestamp", "decimal", "duration",
          "enum:MetricCategory", "enum:AlertSignalManifestation"}
EnumLits == [MetricCategory |-> {<<"U","n","s","p","e","c">>, <<"M","s","r","m","t">>, <<"C","l","c">>, <<"S","e","t">>,
                                 <<"P","r","e","s","e","t">>, <<"R","c","m","m">>},
             AlertSignalManifestation |-> {<<"A","u","d">>, <<"V","i","s">>, <<"T","a","n">>, <<"O","t","h">>}]
LitsOf(ty) == IF ty = "enum:MetricCategory" THEN EnumLits.MetricCategory ELSE EnumLits.AlertSignalManifestation
IsEnum(ty) == ty \in {"enum:MetricCategory", "enum:AlertSignalManifestation"}
IsUnsigned(ty) == ty \in {"unsignedInt", "unsignedLong", "timestamp"}
BoolLits == {<<"t","r","u","e">>, <<"f","a","l","s","e">>, <<"1">>, <<"0">>}

\* xsd:integer: (+|-)? digits
IntParse(cs) == LET hasSign == Len(cs) > 0 /\ cs[1] \in {"+", "-"}
                    body == IF hasSign THEN Tail(cs) ELSE cs
                IN [ok |-> IsDigits(body), neg |-> hasSign /\ cs[1] = "-", body |-> body]
IntVal(cs) == LET p == IntParse(cs)  m == Strip(ToDs(p.body)) IN [neg |-> p.neg /\ m # <<0>>, m |-> m]

\* strict lexical space
InType(ty, cs) ==
  CASE ty = "boolean" -> cs \in BoolLits
    [] ty = "integer" -> IntParse(cs).ok
    [] IsUnsigned(ty) -> IsDigits(cs)
    [] ty = "decimal" -> DecLexOk(cs)
    [] ty = "duration" -> DurLexOk(cs)
    [] IsEnum(ty) -> cs \in LitsOf(ty)
\* forms that a processor may accept or reject (XSD 1.0 / 1.1 differ on a sign of unsigned types; whiteSpace = collapse
\* is applied by a validating parser, not by lxml): accepted => the value of the normalised form, never another value
Normalised(ty, cs) == LET c == Collapse(cs) IN
                      IF IsUnsigned(ty) /\ Len(c) > 1 /\ c[1] = "+" THEN Tail(c)
                      ELSE IF IsUnsigned(ty) /\ Len(c) > 1 /\ c[1] = "-" /\ IsDigits(Tail(c)) /\ Strip(ToDs(Tail(c))) = <<0>>
                           THEN Tail(c) ELSE c
Tolerated(ty, cs) == ~InType(ty, cs) /\ InType(ty, Normalised(ty, cs))
MustReject(ty, cs) == ~InType(ty, cs) /\ ~Tolerated(ty, cs)

\* abstract value of an in-type lexical, in the shape the harness reports python values
LexValue(ty, cs0) ==
  LET cs == Normalised(ty, cs0) IN
  CASE ty = "boolean" -> [b |-> cs \in {<<"t","r","u","e">>, <<"1">>}]
    [] ty = "integer" \/ IsUnsigned(ty) -> IntVal(cs)
    [] ty = "decimal" -> DecVal(cs)
    [] ty = "duration" -> LET p == DurParse(cs) IN [sec |-> p.sec, ns |-> p.ns]
    [] IsEnum(ty) -> [lit |-> cs]
ValueMatches(ty, cs, v) ==
  IF ty = "duration" THEN DurClose(LexValue(ty, cs), v)
  ELSE IF ty = "decimal" THEN v.special = "none" /\ Norm([neg |-> v.neg, co |-> v.co, ex |-> v.ex]) = LexValue(ty, cs)
  ELSE IF IsEnum(ty) THEN Tup(v.lit) = Tup(LexValue(ty, cs).lit)
  ELSE IF ty = "boolean" THEN v.b = LexValue(ty, cs).b
  ELSE v.neg = LexValue(ty, cs).neg /\ Tup(v.m) = LexValue(ty, cs).m

SameLexValue(ty, cs1, cs2) ==
  IF ty = "duration" THEN DurClose(LexValue(ty, cs1), LexValue(ty, cs2))
  ELSE IF IsEnum(ty) THEN Tup(LexValue(ty, cs1).lit) = Tup(LexValue(ty, cs2).lit)
  ELSE IF ty = "boolean" THEN LexValue(ty, cs1).b = LexValue(ty, cs2).b
  ELSE IF ty = "decimal" THEN LexValue(ty, cs1) = LexValue(ty, cs2)
  ELSE LexValue(ty, cs1).neg = LexValue(ty, cs2).neg /\ Tup(LexValue(ty, cs1).m) = Tup(LexValue(ty, cs2).m)

Decor(base, d) ==
  CASE d = "plain" -> base
    [] d = "upper" -> Upper(base)
    [] d = "lower" -> Lower(base)
    [] d = "capital" -> <<UpC(base[1])>> \o Tail(base)
    [] d = "ws_lead" -> <<" ">> \o base
    [] d = "ws_trail" -> base \o <<" ">>
    [] d = "plus" -> <<"+">> \o base
    [] d = "minus" -> <<"-">> \o base
    [] d = "lead0" -> <<"0", "0">> \o base
    [] d = "underscore" -> <<base[1], "_">> \o Tail(base)
    [] d = "underscore3" -> base \o <<"_", "0", "0", "0">>
    [] d = "exp_e" -> base \o <<"e", "3">>
    [] d = "exp_E" -> base \o <<"E", "3">>
    [] d = "exp_neg" -> base \o <<"E", "-", "2">>
    [] d = "exp_plus" -> base \o <<"e", "+", "2">>
    [] d = "frac0" -> base \o <<".", "0">>
    [] d = "hex" -> <<"0", "x">> \o base
    [] d = "empty" -> <<>>
    [] d = "prefix" -> SubSeq(base, 1, Len(base) - 1)
    [] d = "doubled" -> base \o base
    [] d = "no_T" -> <<"P">> \o SubSeq(base, 3, Len(base))
    \* digits of other scripts (tokens "U+xxxx" are concretised by the harness): Unicode decimal digits that python's
    \* int() / Decimal() / the regex class \d accept, but that are outside every XSD lexical space
    [] d = "arabic" -> [i \in 1..Len(base) |-> IF base[i] \in DigitChars THEN "U+066" \o base[i] ELSE base[i]]
    [] d = "fullwidth" -> [i \in 1..Len(base) |-> IF base[i] \in DigitChars THEN "U+FF1" \o base[i] ELSE base[i]]
    [] d = "one_devanagari" -> base \o <<"U+096F">>
    [] d = "no_unit" -> Front(base)
    [] d = "unit_lower" -> Front(base) \o <<LoC(base[Len(base)])>>
    [] d = "dot_nofrac" -> Front(base) \o <<".", base[Len(base)]>>

IntBases == {<<"0">>, <<"7">>, <<"1","0">>, <<"1","2","3","4">>, <<"4","2","9","4","9","6","7","2","9","5">>}
IntDecor == {"plain", "plus", "minus", "lead0", "ws_lead", "ws_trail", "underscore", "underscore3",
             "exp_e", "exp_E", "frac0", "hex", "empty", "arabic", "fullwidth", "one_devanagari"}
DecBases == {<<"0">>, <<"1">>, <<"1","5">>, <<"1",".","5">>, <<"0",".","0","2","5">>, <<"1","2","3",".","4","5","6">>}
DecDecor == {"plain", "plus", "minus", "lead0", "ws_lead", "ws_trail", "exp_e", "exp_E", "exp_neg", "exp_plus", "empty",
             "arabic", "fullwidth"}
DurBases == {<<"P","T","1","S">>, <<"P","T","0",".","5","S">>, <<"P","T","1","H">>, <<"P","T","1","H","2","M","3","S">>,
             <<"P","T","9","0","M">>}
DurDecor == {"plain", "ws_lead", "ws_trail", "lower", "no_T", "no_unit", "unit_lower", "doubled", "empty", "prefix",
             "arabic", "fullwidth"}
BoolDecor == {"plain", "upper", "capital", "ws_lead", "ws_trail", "doubled", "empty", "prefix"}
BoolExtra == {<<"y","e","s">>, <<"n","o">>, <<"2">>, <<"o","n">>, <<"T">>, <<"-","1">>}
EnumDecor == {"plain", "upper", "lower", "ws_lead", "ws_trail", "prefix", "doubled", "empty"}

LexCases ==
  [k : {"lex"}, ty : {"boolean"}, base : BoolLits, d : BoolDecor]
  \cup [k : {"lex"}, ty : {"boolean"}, base : BoolExtra, d : {"plain"}]
  \cup [k : {"lex"}, ty : {"integer", "unsignedInt", "unsignedLong", "timestamp"}, base : IntBases, d : IntDecor]
  \cup [k : {"lex"}, ty : {"decimal"}, base : DecBases, d : DecDecor]
  \cup [k : {"lex"}, ty : {"duration"}, base : DurBases, d : DurDecor]
  \cup [k : {"lex"}, ty : {"duration"}, base : {<<"P","T","1","S">>, <<"P","T","1","H","2","M","3","S">>}, d : {"dot_nofrac"}]
  \cup [k : {"lex"}, ty : {"enum:MetricCategory"}, base : EnumLits.MetricCategory, d : EnumDecor]
  \cup [k : {"lex"}, ty : {"enum:AlertSignalManifestation"}, base : EnumLits.AlertSignalManifestation, d : EnumDecor]
LexOf(c) == Decor(c.base, c.d)

\* which decorations the acceptance decision of C18 judges as out-of-type (the others are listed for
\* completeness of the grammar and pass or fail with the same clause)
ExpectOf(c) == LET cs == LexOf(c) IN
               IF InType(c.ty, cs) THEN "value" ELSE IF Tolerated(c.ty, cs) THEN "either" ELSE "raise"

\* sanity of the reference: the decoration names mean what they say
LawLex(c) ==
  LET cs == LexOf(c)  e == ExpectOf(c) IN
  /\ (c.d = "plain" /\ ~(c.ty = "boolean" /\ c.base \in BoolExtra)) => e = "value"
  /\ c.d \in {"arabic", "fullwidth", "one_devanagari"} => e = "raise"
  /\ c.d \in {"underscore", "underscore3", "exp_e", "exp_E", "exp_neg", "exp_plus", "hex", "empty", "upper", "capital",
              "doubled", "no_T", "no_unit", "unit_lower", "dot_nofrac", "prefix", "lower"}
        => (e = "raise" \/ (c.d \in {"upper", "capital"} /\ Upper(c.base) = c.base))
  /\ (c.d = "minus" /\ IsUnsigned(c.ty)) => (IF c.base = <<"0">> THEN e = "either" ELSE e = "raise")
  /\ (c.d = "plus" /\ IsUnsigned(c.ty)) => e = "either"
  /\ (c.d \in {"plus", "minus", "lead0"} /\ c.ty \in {"integer", "decimal"}) => e = "value"
  /\ c.d \in {"ws_lead", "ws_trail"} => e = "either"
  /\ (c.ty = "boolean" /\ c.base \in BoolExtra) => e = "raise"
  /\ (c.d = "frac0" /\ c.ty # "decimal") => e = "raise"
  /\ e # "raise" => (c.ty = "boolean" => LexValue(c.ty, cs).b \in BOOLEAN)

\* ============================================================ the behaviour
Domain == CASE Part = "ts" -> TsCases
            [] Part = "dec" -> DecCases
            [] Part = "dur" -> DurCases
            [] Part = "dt" -> DtCases
            [] Part = "lex" -> LexCases
            [] Part = "all" -> TsCases \cup DecCases \cup DurCases \cup DtCases \cup LexCases
            [] OTHER -> {[k |-> "none"]}

\* lexical value handed to the real code for the XML -> Python cases
LexicalOf(c) == CASE c.k = "ts1" -> TsLex(c)
                  [] c.k = "dxml" -> DecLexOf(c)
                  [] c.k = "durxml" -> DurLex(c)
                  [] c.k = "dtxml" -> DtLex(c)
                  [] c.k = "lex" -> LexOf(c)
                  [] OTHER -> <<>>

Init == case \in Domain
Next == UNCHANGED case
Spec == Init /\ [][Next]_case

Law == CASE case.k \in {"ts1", "ts2"} -> LawTs(case)
         [] case.k \in {"dpy", "dxml"} -> LawDec(case)
         [] case.k \in {"durxml", "durpy"} -> LawDur(case)
         [] case.k \in {"dtxml", "dtpy"} -> LawDt(case)
         [] case.k = "lex" -> LawLex(case)
         [] OTHER -> TRUE

Emit == PrintT(<<"CASE", ToJson([c |-> case, lex |-> LexicalOf(case),
                                 x |-> IF case.k = "lex" THEN ExpectOf(case) ELSE "-"])>>)
=============================================================================
