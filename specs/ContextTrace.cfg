SPECIFICATION TraceSpec
POSTCONDITION AllConsumed
