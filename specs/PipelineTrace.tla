---------------------------- MODULE PipelineTrace ----------------------------
(* Judges recorded executions of the real sdc11073 request pipeline           *)
(* (DispatchingRequestHandler on an in-memory connection,                     *)
(* MessageConverterMiddleware.do_post of a real provider / consumer) against  *)
(* Pipeline.tla.                                                              *)
(*                                                                            *)
(* One trace = one record [case, actual]: the abstract request printed by     *)
(* Pipeline (EmitSpec) and what the real code did with one concretisation.    *)
(* The recorded final state of the implementation is mapped onto the          *)
(* variables of Pipeline (stage = "Done", out, handled, validated, changed,   *)
(* flags) and the state predicates of Pipeline are evaluated on it; a failing *)
(* predicate is printed as <<"REJECT", tid, 1, name>>.                        *)
EXTENDS Naturals, Sequences, FiniteSets, TLC, Json, IOUtils

CONSTANTS ProviderTargets, ConsumerTargets, GetTargets, NumTargets, ReqTargets, EmptyBodyTargets,
          UnimplTargets, MutatingTargets

VARIABLES tid, l

Data == JsonDeserialize(IOEnv.TRACE_FILE)
Traces == Data.traces

Rec == Traces[tid][1]
A == Rec.actual

\* refinement mapping of the recorded final state
StatusClass(s) == IF s \in 200..299 THEN "success" ELSE IF s \in 400..599 THEN "error" ELSE "other"
KindOf(a) ==
  IF a.status \notin 100..599 THEN "none"
  ELSE IF a.body = "fault" THEN "fault"
  ELSE IF a.body = "proper" /\ StatusClass(a.status) = "success" THEN "proper"
  ELSE IF a.body \in {"empty", "text"} /\ StatusClass(a.status) = "error" THEN "bare"
  ELSE "none"      \* e.g. success status with a body that is neither the response nor a fault

P == INSTANCE Pipeline WITH
       Part <- "all", EmitOnly <- FALSE,
       req <- Rec.case,
       stage <- "Done",
       pos <- 0,
       out <- [kind |-> KindOf(A), status |-> StatusClass(A.status)],
       handled <- A.handled,
       validated <- A.validated,
       changed <- ~A.state_same,
       flags <- [escaped |-> A.escaped # "none", spin |-> (A.spin \/ A.timeout), unbounded |-> A.unbounded_read,
                 expanded |-> A.expanded, fetched |-> (A.resolver_calls > 0 \/ A.socket_attempts > 0)]

Clause(name, cond) == IF cond THEN TRUE ELSE PrintT(<<"REJECT", tid, 1, name>>)

\* informational (not demanded by the statement): printed as NOTE lines
Note(name, cond) == IF cond THEN TRUE ELSE PrintT(<<"NOTE", tid, 1, name>>)

Judge ==
  /\ Clause("Total", P!NoSpin)
  /\ Clause("BoundedRead", P!BoundedRead)
  /\ Clause("NoEscape", P!NoEscape)
  /\ Clause("NoExpansion", P!NoExpansion)
  /\ Clause("NoFetch", P!NoFetch)
  /\ Clause("Outcome", P!Outcome)
  /\ Clause("OutcomeAllowed", P!FoldAgrees)
  /\ Clause("RejectIsNoop", P!RejectIsNoop)
  /\ Note("ValidatedFirst", P!ValidatedFirst)
  /\ Note("HandledOnlyIfAdmissible", P!HandledOnlyIfAdmissible)
  /\ Note("AcceptOnlyHandled", P!AcceptOnlyHandled)

TraceInit == /\ tid \in 1..Len(Traces)
             /\ l = 1
             /\ Judge

TraceNext == FALSE /\ UNCHANGED <<tid, l>>

TraceSpec == TraceInit /\ [][TraceNext]_<<tid, l>>

Total == Data.total
AllConsumed == TLCGet("distinct") = Total
=============================================================================
