---------------------------- MODULE PipelineTrace ----------------------------
(* Judges recorded executions of the real sdc11073 request pipeline           *)
(* (DispatchingRequestHandler on an in-memory connection,                     *)
(* MessageConverterMiddleware.do_post of a real provider / consumer) against  *)
(* Pipeline.tla.                                                              *)
(*                                                                            *)
(* One trace = one record [case, actual]: the abstract request printed by     *)
(* Pipeline (EmitSpec) and what the real code did with one concretisation.    *)
(* The recorded final state of the implementation is mapped onto the          *)
(* variables of Pipeline (req, stage = "Done", out, handled, validated,       *)
(* changed, flags) - it becomes a state of this specification - and the state *)
(* predicates of Pipeline are evaluated on it; a failing predicate is printed *)
(* as <<"REJECT", tid, 1, name@stage>> (stage = Issue(req), the stage of the   *)
(* model that decides the fate of the request).  Predicates the statement of C13 does not   *)
(* demand are reported as <<"NOTE", ...>> only.                               *)
EXTENDS Pipeline, IOUtils

VARIABLES tid

Data == JsonDeserialize(IOEnv.TRACE_FILE)
Traces == Data.traces

\* refinement mapping of the recorded final state
StatusClass(s) == IF s \in 200..299 THEN "success" ELSE IF s \in 400..599 THEN "error" ELSE "other"
KindOf(a) ==
  IF a.status \notin 100..599 THEN "none"
  ELSE IF a.body = "fault" THEN "fault"
  ELSE IF a.body = "proper" /\ StatusClass(a.status) = "success" THEN "proper"
  ELSE IF a.body \in {"empty", "text"} /\ StatusClass(a.status) = "error" THEN "bare"
  ELSE "none"      \* e.g. success status with a body that is neither the response nor a fault

Clause(name, cond) == IF cond THEN TRUE ELSE PrintT(<<"REJECT", tid, 1, name \o "@" \o Issue(req)>>)
Note(name, cond) == IF cond THEN TRUE ELSE PrintT(<<"NOTE", tid, 1, name>>)

Judge ==
  /\ Clause("Total", NoSpin)
  /\ Clause("BoundedRead", BoundedRead)
  /\ Clause("NoEscape", NoEscape)
  /\ Clause("NoExpansion", NoExpansion)
  /\ Clause("NoFetch", NoFetch)
  /\ Clause("OneResponse", OneResponse)
  /\ Clause("Outcome", Outcome)
  /\ Clause("OutcomeAllowed", FoldAgrees)
  /\ Clause("RejectIsNoop", RejectIsNoop)
  /\ Note("ValidatedFirst", ValidatedFirst)
  /\ Note("HandledOnlyIfAdmissible", HandledOnlyIfAdmissible)
  /\ Note("AcceptOnlyHandled", AcceptOnlyHandled)

TraceInit ==
  /\ tid \in 1..Len(Traces)
  /\ LET rec == Traces[tid][1]
         a == rec.actual IN
       /\ req = rec.case
       /\ stage = "Done"
       /\ pos = 0
       /\ out = [kind |-> KindOf(a), status |-> StatusClass(a.status)]
       /\ handled = a.handled
       /\ validated = a.validated
       /\ changed = ~a.state_same
       /\ flags = [escaped |-> a.escaped # "none", spin |-> (a.spin \/ a.timeout), unbounded |-> a.unbounded_read,
                   expanded |-> a.expanded, fetched |-> (a.resolver_calls > 0 \/ a.socket_attempts > 0),
                   \* (only a request whose framing is exact is ONE request for the server)
                   again |-> (a.extra_response /\ rec.case.via = "handler" /\ rec.case.method = "POST"
                              /\ rec.case.framing \in {"cl_exact", "chunked_ok"})]
  /\ Judge

TraceSpec == TraceInit /\ [][UNCHANGED <<vars, tid>>]_<<vars, tid>>

AllConsumed == TLCGet("distinct") = Data.total
=============================================================================
