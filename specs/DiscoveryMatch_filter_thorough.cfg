SPECIFICATION FilterSpec
CONSTANTS
  Which = "filter"
  DeepAlpha <- Alpha5
  DeepMax = 3
  WideAlpha <- AlphaAll
  WideMax = 2
  HeadMax = 1
  StrMax = 2
  ListMax = 2
  ScopeListMax = 2
INVARIANT LawFilterAgree
INVARIANT LawEmptyFilter
INVARIANT LawWeaker
INVARIANT LawStrStronger
