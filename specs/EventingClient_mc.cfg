SPECIFICATION Spec
CONSTANTS
  Subs <- McSubs
  ReqVals = {1, 3}
  MaxDur = 2
  MaxSteps = 6
VIEW view
INVARIANT TypeOK
INVARIANT BeliefNotLonger
INVARIANT BeliefHasCause
PROPERTY FoundOut
PROPERTY NoResurrection
PROPERTY RoundKeepsAlive
INVARIANT QuietWhenEnded
CHECK_DEADLOCK FALSE
