\* exhaustive check of the design; history hidden by VIEW (MaxOps = 0: hist stays constant)
SPECIFICATION Spec
CONSTANTS
  Eprs = {"e1"}
  LocalEprs = {"e1"}
  DupAll = FALSE
  UnknownEpr = "e9"
  Versions = {1, 2}
  MsgIds = {"m1", "m2", "m3"}
  Cap = 2
  Contents <- QContents
  PairContents <- QPair
  Profiles <- QProfiles
  Filters <- QFilters
  MaxOps = 0
VIEW view
INVARIANT InvHighest
INVARIANT InvMax
INVARIANT InvSeen
INVARIANT ProbeAnswer
INVARIANT ResolveAnswer
INVARIANT OnlyAnswers
PROPERTY ActOnce
PROPERTY Remembered
