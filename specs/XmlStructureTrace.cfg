\* judging recorded round trips of the real data types
SPECIFICATION TraceSpec
POSTCONDITION AllConsumed
