SPECIFICATION Spec
CONSTANTS
  Hs <- McHs
  Dyn <- McDyn
  MaxCommits = 3
  MaxDeliver = 4
  MaxEpoch = 1
VIEW view
INVARIANT TypeOK
INVARIANT Published
INVARIANT Mirror
PROPERTY NoRegress
PROPERTY StaleIsNoop
PROPERTY Frozen
PROPERTY LoadNotOlder
PROPERTY LoadEpoch
PROPERTY DupIsNoop
