----------------------------- MODULE HttpFramingMC -----------------------------
(* Enumerates one abstract domain of C17 (constant Part), checks the algebraic  *)
(* laws of the reference semantics on every element, and prints every element   *)
(* as a JSON line (<<"CASE", json>>) together with the values the harness needs  *)
(* to concretise it (body bytes, reference streams, closed-form lengths).        *)
EXTENDS HttpFramingDomains, TLC, Json

CONSTANTS Part,       \* "chunk" | "mutant" | "short" | "coding" | "nego" | "big" | "misc"
          BigCases    \* set of [n, c] records (bodies too large to build in TLC)

VARIABLE case

\* multi-megabyte bodies: only closed forms are evaluated
BigQuick == {[n |-> 262144, c |-> 512], [n |-> 300001, c |-> 65536]}
BigThorough == {[n |-> 262144, c |-> 1], [n |-> 1048576, c |-> 7], [n |-> 4194304, c |-> 512],
                [n |-> 4194305, c |-> 65536], [n |-> 1048577, c |-> 65536], [n |-> 2097152, c |-> 4096]}
BigDomain == {[kind |-> "big", n |-> b.n, c |-> b.c, pat |-> p, framed |-> FramedLen(b.n, b.c),
               chunks |-> NumChunks(b.n, b.c)] : b \in BigCases, p \in {"distinct", "framing"}}

Domain == CASE Part = "chunk" -> ChunkCases(MaxN, MaxC)
            [] Part = "mutant" -> MutantCases(MutN, MutC)
            [] Part = "short" -> ShortCases(ShortLen)
            [] Part = "coding" -> CodingCases(Registered)
            [] Part = "nego" -> NegoCases(MaxEntries)
            [] Part = "big" -> BigDomain
            \* several small domains in one run (saves JVM starts in the quick tier)
            [] Part = "misc" -> MutantCases(MutN, MutC) \cup ShortCases(ShortLen) \cup CodingCases(Registered) \cup BigDomain

Emit(cs) ==
  CASE cs.kind = "chunk" ->
         LET b == Body(cs.n, cs.pat) IN
         PrintT(<<"CASE", ToJson([kind |-> "chunk", n |-> cs.n, c |-> cs.c, pat |-> cs.pat, body |-> b,
                                  streams |-> [st \in Styles |-> Chunked(b, cs.c, st)]])>>)
    [] cs.kind = "coding" ->
         PrintT(<<"CASE", ToJson([kind |-> "coding", enc |-> cs.enc, label |-> cs.label, damage |-> cs.damage,
                                  framing |-> cs.framing, path |-> cs.path,
                                  expected |-> ExpectedCoding(cs, Registered)])>>)
    [] OTHER -> PrintT(<<"CASE", ToJson(cs)>>)

Init == case \in Domain /\ Emit(case)
Next == UNCHANGED case
Spec == Init /\ [][Next]_case

\* ------------------------------------------------------------------ laws
\* valid framing: the reference writer produces a strictly valid stream in every spelling, the reference decoder
\* returns the body, the chunk lengths add up, no chunk exceeds the chunk size, closed forms agree
ChunkLaw ==
  case.kind = "chunk" =>
    LET b == Body(case.n, case.pat)
        lens == ChunkLens(case.n, case.c)
    IN /\ \A st \in Styles : LET s == Chunked(b, case.c, st)
                                   P == Parse(s)
                               IN /\ ValidChunked(s) <=> (P.ok /\ ~P.lenient /\ P.used = Len(s))
                                  /\ P.ok /\ ~P.lenient /\ P.used = Len(s)
                                  /\ P.finished
                                  /\ P.body = b
       /\ Len(Chunked(b, case.c, "plain")) = FramedLen(case.n, case.c)
       /\ Len(lens) = NumChunks(case.n, case.c)
       /\ lens[Len(lens)] = 0
       /\ \A i \in 1..(Len(lens) - 1) : lens[i] \in 1..case.c
       /\ \A i \in 1..(Len(lens) - 2) : lens[i] = case.c
       \* a proper prefix of a valid stream is rejected as truncated - or, when only the terminator is cut,
       \* read leniently as the complete body; it is never read as something else
       /\ LET s == Chunked(b, case.c, "plain") IN
            \A k \in {0, 1, Len(s) \div 2, Len(s) - 5, Len(s) - 4, Len(s) - 3, Len(s) - 2, Len(s) - 1} :
               (k >= 0 /\ k < Len(s)) =>
                   LET P == Parse(SubSeq(s, 1, k)) IN
                   IF k >= Len(s) - 4 THEN P.ok /\ P.lenient /\ P.body = b
                   ELSE ~P.ok /\ P.why \in {"eof_in_size", "eof_in_data", "eof_in_crlf"}

\* malformed streams: truncation is always rejected with an eof reason; decoding never invents bytes
StreamLaw ==
  case.kind \in {"mutant", "short"} =>
    LET P == Parse(case.stream) IN
    /\ P.finished
    /\ P.ok => /\ P.used <= Len(case.stream)
               /\ Len(P.body) <= Len(case.stream)
               /\ \A i \in 1..Len(P.body) : P.body[i] \in Rng(case.stream)
               \* what was consumed is itself a complete stream with the same meaning
               /\ Parse(SubSeq(case.stream, 1, P.used)).body = P.body
               \* and no proper prefix of the consumed part is strictly accepted
               /\ \A k \in 0..(P.used - 1) : LET Q == Parse(SubSeq(case.stream, 1, k)) IN ~Q.ok \/ Q.lenient
    /\ ~P.ok => P.why \in {"eof_in_size", "eof_in_data", "eof_in_crlf", "bad_size", "negative_size", "no_crlf"}
    /\ (case.kind = "mutant" /\ case.mut = "trunc") =>
          \/ ~P.ok /\ P.why \in {"eof_in_size", "eof_in_data", "eof_in_crlf"}
          \/ P.ok /\ P.lenient /\ P.used = Len(case.stream)

CodingLaw ==
  case.kind = "coding" =>
    LET x == ExpectedCoding(case, Registered) IN
    /\ x \in {"same", "reject", "reject_or_same", "free"}
    /\ (x = "same") <=> (case.damage = "none" /\ case.label \in Registered /\ FamilyOf(case.label) = FamilyOf(case.enc))
    /\ case.label \notin Registered => x = "reject"
    /\ case.damage \in Structural => x = "reject"
    /\ CodingOutcomeOK(x, "reject") \/ x = "same"
    /\ CodingOutcomeOK(x, "other") => x = "free"

NegoLaw ==
  case.kind = "nego" =>
    LET h == case.hdr IN
    /\ \A en \in EnabledSets :
         /\ Allowed(h, en) \subseteq en
         /\ ChoiceOK(h, en, "none")
         /\ \A e \in en : ChoiceOK(h, en, e) <=> Acceptable(h, e)
         /\ \A en2 \in EnabledSets : Allowed(h, en \cap en2) = Allowed(h, en) \cap Allowed(h, en2)
    /\ \A e \in {"gzip", "lz4", "x-lz4"} :
         \* only zero qualities for e => never acceptable; nothing said about e and no wildcard => never acceptable
         /\ (Explicit(h, e) # {} /\ \A i \in Explicit(h, e) : h[i].q = "zero") => ~Acceptable(h, e)
         /\ (Explicit(h, e) = {} /\ ~\E i \in DOMAIN h : h[i].tok = "*") => ~Acceptable(h, e)
         /\ (\E i \in Explicit(h, e) : h[i].q \in {"absent", "half", "one"}) => Acceptable(h, e)
    /\ Len(h) = 0 => Allowed(h, {"gzip", "lz4", "x-lz4"}) = {}

BigLaw ==
  case.kind = "big" => /\ case.framed > case.n + 5
                       /\ case.chunks >= 2
                       /\ case.framed = FramedLen(case.n, case.c)

Laws == ChunkLaw /\ StreamLaw /\ CodingLaw /\ NegoLaw /\ BigLaw
=============================================================================
