---- MODULE ContextMC ----
EXTENDS Context
McDescr == {"pc", "lc"}
McCH == {"c1", "c2", "c3", "c4"}
SimCH == {"c1", "c2", "c3", "c4", "c5", "c6", "c7", "c8"}
EmitSim == EmitAtLevel(7)
====
