---- MODULE ContextMC ----
EXTENDS Context
ASSUME TLCSet(7, {})
McDescr == {"pc", "lc"}
McCH == {"c1", "c2", "c3", "c4"}
SimCH == {"c1", "c2", "c3", "c4", "c5", "c6", "c7", "c8"}
EmitSim == EmitAtLevel(7)
\* test purposes (breadth-first, one worker): the first (= a shortest) history of single-proposal calls for every
\* situation label - e.g. four calls until an association meets a completely disassociated state that was updated
\* after the associated one (random simulation reaches that about once in two hundred behaviours, mostly in rejected calls)
PurposeNext == \/ SetLocation("lc") \/ \E p \in Proposal : SetContextState(<<p>>)
PurposeSpec == Init /\ [][PurposeNext]_vars
EmitPurpose == (hist # <<>>) => LET fresh == hist[Len(hist)].sit \ TLCGet(7)
                                IN fresh # {} => (PrintT(<<"BEH", ToJson(hist)>>) /\ TLCSet(7, TLCGet(7) \cup fresh))
====
