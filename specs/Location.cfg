SPECIFICATION Spec
CONSTANTS
  Classes <- AllClasses
  Shapes = {"solo", "mid", "rot"}
  AbsentModes = {"none", "empty"}
  Schemes <- AllSchemes
  Auths <- AllAuths
  Frags <- AllFrags
INVARIANT LawRoundTrip
INVARIANT LawWiden
INVARIANT LawChange
INVARIANT LawPresence
INVARIANT LawForeign
INVARIANT LawIdent
CONSTRAINT EmitCase
