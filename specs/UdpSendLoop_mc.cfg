\* the check generates a copy with the parameter values and the loop constants read from the real module
SPECIFICATION LoopSpec
CONSTANTS
  UniMaxInitial = 500
  UniRepeat = 2
  UniMin = 50
  UniMax = 250
  UniUpper = 500
  MulMaxInitial = 500
  MulRepeat = 4
  MulMin = 50
  MulMax = 250
  MulUpper = 500
  Step = 1
  Idle = 100
  Busy = 10
  BTimes = {1, 60, 255, 300, 470, 700, 1300, 2400}
INVARIANT OnTime
INVARIANT InOrder
INVARIANT Complete
INVARIANT WireEnvelope
INVARIANT EmitCase
PROPERTY Terminates
