------------------------------ MODULE ChunkReader ------------------------------
(* Operational model of a de-chunking reader over a byte stream that may end    *)
(* anywhere (peer closed the connection) and may deliver data in pieces:        *)
(*   SizeLine -> Data(k) -> CrLf -> SizeLine ... -> Done | Error                 *)
(* Checked: the reader terminates on EVERY input of the domain (liveness under  *)
(* weak fairness: every proper prefix of a valid stream and every malformed     *)
(* class ends in Error, never in a loop), it never needs more than Len+1 reads, *)
(* and its result is exactly HttpFraming!Parse - the function that judges the   *)
(* real HTTPReader._read_dechunk in HttpFramingTrace.                           *)
EXTENDS HttpFramingDomains, TLC

CONSTANT StreamDomain   \* "short" | "mutant" | "both" | "tiny" (all prefixes of one valid stream; for the coverage run)

VARIABLES stream, pos, st, line, left, last, out, lenient, why, reads
vars == <<stream, pos, st, line, left, last, out, lenient, why, reads>>

\* = Chunked(XBody(3), 2, "plain"), written out: the coverage run must not evaluate the recursive operators
TinyBase == <<50, 13, 10, 120, 120, 13, 10, 49, 13, 10, 120, 13, 10, 48, 13, 10, 13, 10>>
ASSUME StreamDomain = "tiny" \/ TinyBase = Chunked(XBody(3), 2, "plain")
Streams == CASE StreamDomain = "short" -> ShortStreams(ShortLen)
             [] StreamDomain = "mutant" -> MutantStreams(MutN, MutC)
             [] StreamDomain = "both" -> ShortStreams(ShortLen) \cup MutantStreams(MutN, MutC)
             [] StreamDomain = "tiny" -> {SubSeq(TinyBase, 1, k) : k \in 0..Len(TinyBase)}

Init == /\ stream \in Streams
        /\ pos = 0 /\ st = "size" /\ line = <<>> /\ left = 0 /\ last = FALSE
        /\ out = <<>> /\ lenient = FALSE /\ why = "" /\ reads = 0

Avail == Len(stream) - pos
Fail(reason) == /\ st' = "error" /\ why' = reason
                /\ UNCHANGED <<stream, line, left, last, out, lenient>>
\* end of stream inside the terminator: all data has arrived (lenient reading, see HttpFraming!ParseStep)
DoneCut == /\ st' = "done" /\ lenient' = TRUE
           /\ UNCHANGED <<stream, line, left, last, out, why>>

\* one byte of the size line; the line is complete when it ends with CR LF
ReadSizeByte ==
  /\ st = "size"
  /\ reads' = reads + 1
  /\ IF Avail = 0 THEN (IF CutLastChunk(line) THEN DoneCut ELSE Fail("eof_in_size")) /\ pos' = pos
     ELSE LET ln == Append(line, stream[pos + 1])
              n == Len(ln)
          IN /\ pos' = pos + 1
             /\ IF n >= 2 /\ ln[n - 1] = CR /\ ln[n] = LF
                THEN LET sz == SizeOf(SizeLineTok(SubSeq(ln, 1, n - 2))) IN
                     IF ~sz.ok THEN Fail(sz.why)
                     ELSE /\ left' = sz.val /\ last' = (sz.val = 0) /\ lenient' = (lenient \/ sz.lenient)
                          /\ st' = IF sz.val = 0 THEN "crlf" ELSE "data"
                          /\ line' = <<>>
                          /\ UNCHANGED <<stream, out, why>>
                ELSE /\ line' = ln /\ UNCHANGED <<stream, st, left, last, out, lenient, why>>

\* a read of the chunk data returns between 1 and `left` bytes, or nothing at the end of the stream
ReadData ==
  /\ st = "data"
  /\ reads' = reads + 1
  /\ IF Avail = 0 THEN Fail("eof_in_data") /\ pos' = pos
     ELSE \E k \in 1..Min(left, Avail) :
            /\ pos' = pos + k
            /\ out' = out \o SubSeq(stream, pos + 1, pos + k)
            /\ left' = left - k
            /\ st' = IF left - k = 0 THEN "crlf" ELSE "data"
            /\ UNCHANGED <<stream, line, last, lenient, why>>

ReadCrLf ==
  /\ st = "crlf"
  /\ reads' = reads + 1
  /\ IF Avail < 2 THEN (IF last THEN DoneCut ELSE Fail("eof_in_crlf")) /\ pos' = Len(stream)
     ELSE /\ pos' = pos + 2
          /\ IF stream[pos + 1] = CR /\ stream[pos + 2] = LF
             THEN /\ st' = IF last THEN "done" ELSE "size"
                  /\ UNCHANGED <<stream, line, left, last, out, lenient, why>>
             ELSE Fail("no_crlf")

Next == ReadSizeByte \/ ReadData \/ ReadCrLf
Spec == Init /\ [][Next]_vars /\ WF_vars(Next)

Terminated == st \in {"done", "error"}
Terminates == <>Terminated

\* the operational reader and the judging function agree
Refines ==
  LET P == Parse(stream) IN
  /\ st = "done" => P.ok /\ out = P.body /\ pos = P.used /\ lenient = P.lenient
  /\ st = "error" => ~P.ok /\ why = P.why
ReadBound == reads <= Len(stream) + 1
TypeOK == /\ pos \in 0..Len(stream)
          /\ st \in {"size", "data", "crlf", "done", "error"}
          /\ Len(out) <= pos
=============================================================================
