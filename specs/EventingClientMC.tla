---- MODULE EventingClientMC ----
EXTENDS EventingClient
McSubs == <<"s1", "s2">>
OneSub == <<"s1">>
====
