SPECIFICATION Spec
CONSTANTS
  O = {"o1", "o2", "o3"}
  K = {"k1", "k2"}
  CDom <- GenCDom
  MDom <- GenMDom
  Indices = {"by_u", "by_g", "by_c", "by_m"}
  MaxOps = 10
CONSTRAINT EmitLeaf
