SPECIFICATION SpecT
CONSTANTS
  ReqHandles <- QuickReqHandles
  MaxLen = 1
  N1 = {0}
  N2 = {0}
  S3 = {TRUE}
  StoreIds <- AllStoreIds
  FRefs <- AllFRefs
  FVers <- AllFVers
  FLangs <- AllFLangs
  FWidths <- AllFWidths
  FLines <- AllFLines
INVARIANT LawS
INVARIANT LawT
CONSTRAINT EmitCase
