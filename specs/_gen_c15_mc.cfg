\* exhaustive enumeration of every draw outcome for both WS-Discovery parameter sets (Step = 1);
\* the check generates a copy with the values read from the real module and Step of the tier
SPECIFICATION Spec
CONSTANTS
  UniMaxInitial = 500
  UniRepeat = 2
  UniMin = 50
  UniMax = 250
  UniUpper = 500
  MulMaxInitial = 500
  MulRepeat = 4
  MulMin = 50
  MulMax = 250
  MulUpper = 500
  Step = 1
INVARIANT ParamsWellFormed
INVARIANT Laws
INVARIANT Emit
