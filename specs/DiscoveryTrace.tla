--------------------------- MODULE DiscoveryTrace ---------------------------
(***************************************************************************)
(* C14, part (b), code -> spec: recorded executions of the real            *)
(* WSDiscovery object (fed with SOAP datagrams through the read queue of   *)
(* its NetworkingThread, no sockets) are judged with the property-level    *)
(* predicates of Discovery.tla.                                            *)
(*                                                                         *)
(* Every record carries the input of the step (message or API call), the   *)
(* messages the node queued for sending, and the complete observation      *)
(* afterwards: published services, remote table, remembered ids.  The      *)
(* observation is bound to local/remote/seen; the ghost ann is computed    *)
(* here from the inputs alone:  an input counts as "acted upon" iff its id *)
(* was not among the ids the node remembered (observed) before the step.   *)
(* A failing clause is named in a REJECT line; validation continues with   *)
(* the observed state.                                                     *)
(***************************************************************************)
EXTENDS DiscoveryMC, IOUtils

VARIABLES tid, l

Data == JsonDeserialize(IOEnv.TRACE_FILE)
Traces == Data.traces

Clause(name, cond) == IF cond THEN TRUE ELSE PrintT(<<"REJECT", tid, l + 1, name>>)

Dummies == /\ maxv = [e \in AllEprs |-> 0] /\ sent = <<>> /\ lastOwn = NoIn /\ hist = <<>>
           /\ last = [kind |-> "Api", id |-> "", e |-> "", flt |-> NoFlt, dup |-> FALSE]

TraceInit == /\ tid \in 1..Len(Traces)
             /\ l = 1
             /\ Dummies
             /\ ann = {}
             /\ LET rec == Traces[tid][1] IN
                  /\ local = Rng(rec.obs.local) /\ remote = Rng(rec.obs.remote) /\ seen = rec.obs.seen
                  /\ IF local = {} /\ remote = {} THEN TRUE ELSE PrintT(<<"REJECT", tid, 1, "init_empty">>)

Step(rec) ==
  LET m == rec.msg
      L1 == Rng(rec.obs.local)
      R1 == Rng(rec.obs.remote)
      S1 == rec.obs.seen
      out == rec.sent
      isMsg == rec.act \in {"Recv", "Echo"}
      dup == isMsg /\ m.id \in Rng(seen)
      A1 == IF isMsg /\ ~dup THEN AnnAfter(ann, m) ELSE ann
  IN
  \* what the node has published is tracked from the API calls (Publish / Unpublish), not read from its own table: the
  \* published entry (with the MetadataVersion the node gave it) is taken over at Publish only
  /\ local' = (IF rec.act = "Publish" THEN (local \ Of(local, rec.e)) \cup Of(L1, rec.e)
               ELSE IF rec.act = "Unpublish" THEN local \ Of(local, rec.e)
               ELSE local)
  /\ remote' = R1 /\ seen' = S1 /\ ann' = A1
  /\ Clause("seen_bounded", Len(S1) <= rec.obs.cap)
  /\ IF rec.act = "Publish"
       THEN /\ Clause("api:publish", \E s \in L1 : /\ s.e = rec.e
                                                  /\ Rng(s.types) = Rng(rec.p.types)
                                                  /\ Rng(s.scopes) = Rng(rec.p.scopes)
                                                  /\ Rng(s.xaddrs) = Rng(rec.p.xaddrs))
            /\ Clause("highest_mv:Api", RemoteOK(R1, A1))
     ELSE IF rec.act = "Unpublish"
       THEN /\ Clause("highest_mv:Api", RemoteOK(R1, A1))
     ELSE IF dup
       \* ActOnce
       THEN /\ Clause("act_once:tables:" \o m.kind, R1 = remote)
            /\ Clause("act_once:answer:" \o m.kind, out = <<>>)
     ELSE \* HighestMv
          /\ Clause("highest_mv:" \o m.kind, RemoteOK(R1, A1))
          /\ Clause("remembered:" \o m.kind, Len(out) < rec.obs.cap => m.id \in Rng(S1))
          /\ IF m.kind = "Probe"
               \* ProbeAnswer
               THEN /\ Clause("probe_answer_set", ProbeAnswerSet(local, m.flt, out))
                    /\ Clause("probe_answer_content", ProbeAnswerContent(local, out))
                    /\ Clause("probe_answer_addressing", ProbeAnswerAddressing(m.id, out))
             ELSE IF m.kind = "Resolve"
               \* ResolveAnswer
               THEN /\ Clause("resolve_only_published", out # <<>> => Of(local, m.e) # {})
                    /\ Clause("resolve_answer", ResolveAnswerOK(local, m.e, m.id, out))
             ELSE Clause("no_answer:" \o m.kind, NoAnswers(out))

TraceNext == /\ l < Len(Traces[tid])
             /\ Step(Traces[tid][l + 1])
             /\ l' = l + 1 /\ tid' = tid
             /\ UNCHANGED <<maxv, sent, lastOwn, last, hist>>

TraceSpec == TraceInit /\ [][TraceNext]_<<vars, tid, l>>

Total == Data.total
AllConsumed == TLCGet("distinct") = Total
=============================================================================
