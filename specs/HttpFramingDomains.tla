--------------------------- MODULE HttpFramingDomains ---------------------------
(* The enumerated abstract domains of C17 (shared by HttpFramingMC and ChunkReader). *)
(* The sets take their bounds as parameters so that TLC builds only the one a run uses. *)
EXTENDS HttpFraming

CONSTANTS MaxN,        \* body lengths 0..MaxN
          MaxC,        \* chunk sizes 1..MaxC
          MutN, MutC,  \* base streams of the mutation domain: n \in 0..MutN data bytes, chunk size 1..MutC
          ShortLen,    \* all byte strings over Alphabet up to this length
          MaxEntries,  \* Accept-Encoding headers with 0..MaxEntries entries
          Registered   \* coding names registered in the real CompressionHandler (read at run time)

\* ---- valid framing
ChunkCases(maxn, maxc) == {[kind |-> "chunk", n |-> n, c |-> c, pat |-> pat] : n \in 0..maxn, c \in 1..maxc, pat \in Patterns}

\* ---- malformed / truncated framing
\* 0 1 - ; CR LF x
Alphabet == {48, 49, 45, 59, 13, 10, 120}
XBody(n) == IF n = 0 THEN <<>> ELSE [i \in 1..n |-> 120]
BaseStreams(mutn, mutc) == {[n |-> n, c |-> c, s |-> Chunked(XBody(n), c, "plain")] : n \in 0..mutn, c \in 1..mutc}
Mut(s) == {[mut |-> "trunc", s |-> SubSeq(s, 1, k)] : k \in 0..(Len(s) - 1)}
          \cup {[mut |-> "subst", s |-> [s EXCEPT ![p] = a]] : p \in 1..Len(s), a \in Alphabet}
          \cup {[mut |-> "delete", s |-> SubSeq(s, 1, p - 1) \o SubSeq(s, p + 1, Len(s))] : p \in 1..Len(s)}
          \cup {[mut |-> "insert", s |-> SubSeq(s, 1, p) \o <<a>> \o SubSeq(s, p + 1, Len(s))] :
                  p \in 0..Len(s), a \in Alphabet}
MutantCases(mutn, mutc) == UNION {{[kind |-> "mutant", mut |-> m.mut, stream |-> m.s] : m \in Mut(b.s)} : b \in BaseStreams(mutn, mutc)}
MutantStreams(mutn, mutc) == {m.stream : m \in MutantCases(mutn, mutc)}

ShortStreams(maxlen) == UNION {[1..k -> Alphabet] : k \in 0..maxlen}
ShortCases(maxlen) == {[kind |-> "short", stream |-> s] : s \in ShortStreams(maxlen)}

\* ---- content codings
UnregisteredLabels == {"deflate", "br", "identity", "GZIP"}
Labels(reg) == reg \cup UnregisteredLabels
Framings == {"cl", "chunked"}
Paths == {"request", "response", "get"}
CodingCases(reg) == {[kind |-> "coding", enc |-> e, label |-> lb, damage |-> d, framing |-> f, path |-> p] :
                  e \in reg, lb \in Labels(reg), d \in Damages, f \in Framings, p \in Paths}

\* ---- negotiation
Tokens == {"gzip", "lz4", "br", "identity", "*"}
Entries == [tok : Tokens, q : QClasses]
Headers(maxk) == UNION {[1..k -> Entries] : k \in 0..maxk}
NegoCases(maxk) == {[kind |-> "nego", hdr |-> h] : h \in Headers(maxk)}
EnabledSets == SUBSET {"gzip", "lz4", "x-lz4"}
=============================================================================
