SPECIFICATION Spec
CONSTANTS
  Clients <- McClients
  Actions <- PurposeActions
  Ids <- McIds
  ReqVals = {0}
  Filters <- PurposeFilters
  MaxDur = 2
  MaxErrors = 1
  MaxSteps = 6
VIEW view
CONSTRAINT EmitPurpose
CHECK_DEADLOCK FALSE
