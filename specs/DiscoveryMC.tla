----------------------------- MODULE DiscoveryMC -----------------------------
(* Constant domains for Discovery.tla: exhaustive check (small), behaviour    *)
(* emission by simulation / exhaustive tree (wide), trace validation.         *)
EXTENDS Discovery

UA == Uri("sdc.x", "h", <<"a">>)
UAB == Uri("sdc.x", "h", <<"a", "b">>)
UAenc == Uri("SDC.X", "H", <<"%61">>)
UAencB == Uri("SDC.X", "H", <<"%61", "b">>)
UAslash == Uri("sdc.x", "h", <<"a", "">>)
UB == Uri("sdc.x", "h", <<"b">>)
UAup == Uri("sdc.x", "h", <<"A">>)
UAsl == Uri("sdc.x", "h", <<"a%2Fa">>)
UNoAuth == Uri("sdc.x", "None", <<"a", "b">>)

C(t, s, x) == [types |-> t, scopes |-> s, xaddrs |-> x]
C0 == C(<<>>, <<>>, <<>>)
C1 == C(<<"n1:A">>, <<UA>>, <<"x1">>)
C2 == C(<<"n1:A", "n1:B">>, <<UAB, UB>>, <<"x1", "x2">>)
C3 == C(<<"n1:A">>, <<>>, <<"x1">>)
C4 == C(<<>>, <<UA>>, <<"x2">>)
C5 == C(<<"n1:B">>, <<UAenc>>, <<>>)
C6 == C(<<"n2:A">>, <<UB>>, <<"x2", "x1">>)

P1 == C(<<"n1:A">>, <<UAB>>, <<"x1">>)
P2 == C(<<"n1:A", "n1:B">>, <<UAencB, UB>>, <<"x1", "x2">>)
P3 == C(<<"n1:B">>, <<>>, <<"x2">>)
P4 == C(<<"n2:A">>, <<UAslash, UNoAuth>>, <<"x1">>)

F(t, s, r) == [types |-> t, scopes |-> s, rule |-> r]
L(items) == Opt(TRUE, items)
F0 == F(NoList, NoList, "absent")
F1 == F(L(<<"n1:A">>), NoList, "absent")
F2 == F(L(<<"n1:A", "n1:B">>), NoList, "absent")
F3 == F(L(<<"n2:A">>), NoList, "absent")
F4 == F(NoList, L(<<UA>>), "absent")
F5 == F(NoList, L(<<UA>>), "strcmp0")
F6 == F(NoList, L(<<UAB>>), "strcmp0")
F7 == F(NoList, L(<<UAup>>), "rfc3986")
F8 == F(L(<<"n1:A">>), L(<<UA, UB>>), "rfc3986")
F9 == F(L(<<>>), L(<<>>), "absent")
F10 == F(NoList, L(<<UAencB>>), "rfc3986")
F11 == F(NoList, L(<<UAslash>>), "absent")
F12 == F(L(<<"n1:B">>), L(<<UAenc>>), "rfc3986")
F13 == F(NoList, L(<<UNoAuth>>), "absent")
F14 == F(NoList, L(<<UAsl>>), "rfc3986")

\* exhaustive check
McContents == {C0, C1, C2}
McPair == {C1}
McProfiles == {P1, P2}
McFilters == {F0, F2, F4, F6}
\* quick variant of the exhaustive check
QContents == {C0, C2}
QPair == {C0}
QProfiles == {P2}
QFilters == {F2, F4}
\* behaviour emission
SimContents == {C0, C1, C2, C3, C4, C5, C6}
SimPair == {C0, C1, C2, C5}
SimProfiles == {P1, P2, P3, P4}
SimFilters == {F0, F1, F2, F3, F4, F5, F6, F7, F8, F9, F10, F11, F12, F13, F14}
\* exhaustive tree of short behaviours
TreeContents == {C0, C1, C5}
TreePair == {C1}
TreeProfiles == {P1, P2}
TreeFilters == {F1, F4, F6, F10}
==============================================================================
