----------------------------- MODULE DiscoveryMC -----------------------------
(* Constant domains for Discovery.tla: exhaustive check (small), behaviour    *)
(* emission by simulation / exhaustive tree (wide), trace validation.         *)
EXTENDS Discovery

UA == Uri("sdc.x", "h", <<"a">>)
UAB == Uri("sdc.x", "h", <<"a", "b">>)
UAenc == Uri("SDC.X", "H", <<"%61">>)
UAencB == Uri("SDC.X", "H", <<"%61", "b">>)
UAslash == Uri("sdc.x", "h", <<"a", "">>)
UB == Uri("sdc.x", "h", <<"b">>)
UAup == Uri("sdc.x", "h", <<"A">>)
UAsl == Uri("sdc.x", "h", <<"a%2Fa">>)
UNoAuth == Uri("sdc.x", "None", <<"a", "b">>)

C(t, s, x) == [types |-> t, scopes |-> s, xaddrs |-> x]
C0 == C(<<>>, <<>>, <<>>)
C1 == C(<<"n1:A">>, <<UA>>, <<"x1">>)
C2 == C(<<"n1:A", "n1:B">>, <<UAB, UB>>, <<"x1", "x2">>)
C3 == C(<<"n1:A">>, <<>>, <<"x1">>)
C4 == C(<<>>, <<UA>>, <<"x2">>)
C5 == C(<<"n1:B">>, <<UAenc>>, <<>>)
C6 == C(<<"n2:A">>, <<UB>>, <<"x2", "x1">>)

P1 == C(<<"n1:A">>, <<UAB>>, <<"x1">>)
P2 == C(<<"n1:A", "n1:B">>, <<UAencB, UB>>, <<"x1", "x2">>)
P3 == C(<<"n1:B">>, <<>>, <<"x2">>)
P4 == C(<<"n2:A">>, <<UAslash, UNoAuth>>, <<"x1">>)

F(t, s, r) == [types |-> t, scopes |-> s, rule |-> r]
L(items) == Opt(TRUE, items)
F0 == F(NoList, NoList, "absent")
F1 == F(L(<<"n1:A">>), NoList, "absent")
F2 == F(L(<<"n1:A", "n1:B">>), NoList, "absent")
F3 == F(L(<<"n2:A">>), NoList, "absent")
F4 == F(NoList, L(<<UA>>), "absent")
F5 == F(NoList, L(<<UA>>), "strcmp0")
F6 == F(NoList, L(<<UAB>>), "strcmp0")
F7 == F(NoList, L(<<UAup>>), "rfc3986")
F8 == F(L(<<"n1:A">>), L(<<UA, UB>>), "rfc3986")
F9 == F(L(<<>>), L(<<>>), "absent")
F10 == F(NoList, L(<<UAencB>>), "rfc3986")
F11 == F(NoList, L(<<UAslash>>), "absent")
F12 == F(L(<<"n1:B">>), L(<<UAenc>>), "rfc3986")
F13 == F(NoList, L(<<UNoAuth>>), "absent")
F14 == F(NoList, L(<<UAsl>>), "rfc3986")

\* exhaustive check
McContents == {C0, C1, C2}
McPair == {C1}
McProfiles == {P1, P2}
McFilters == {F0, F2, F4, F6}
\* quick variant of the exhaustive check
QContents == {C0, C2}
QPair == {C0}
QProfiles == {P2}
QFilters == {F2, F4}
\* behaviour emission
SimContents == {C0, C1, C2, C3, C4, C5, C6}
SimPair == {C0, C1, C2, C5}
SimProfiles == {P1, P2, P3, P4}
SimFilters == {F0, F1, F2, F3, F4, F5, F6, F7, F8, F9, F10, F11, F12, F13, F14}
\* long behaviours against the real capacity of the id memory (200): a few more ids than the memory holds
LongIds == {"m" \o ToString(i) : i \in 1..215}
\* exhaustive tree of short behaviours
TreeContents == {C0, C1, C5}
TreePair == {C1}
TreeProfiles == {P1, P2}
TreeFilters == {F1, F4, F6, F10}

\* ---- behaviour emission by simulation ------------------------------------------------------------
\* TLC's simulator picks uniformly among ALL successor states, which would make nine of ten steps a
\* two-match ProbeMatches or a duplicate.  SimNext is a restriction of Next (SimNext => Next) that first
\* draws the class of the step and then its parameters with RandomElement, so every class of step is
\* equally likely and one successor is computed per step.
FreshIds == MsgIds \ Rng(seen)
SeenIds == MsgIds \cap Rng(seen)
PubOk == {e \in LocalEprs : \A x \in Of(local, e) : x.mv < 3}
Classes == {"Hello", "PM1", "PM2", "RM", "Empty", "Bye", "Probe", "Resolve"}
           \cup (IF PubOk # {} THEN {"Publish"} ELSE {})
           \cup (IF SeenIds # {} THEN {"Dup", "DupSame"} ELSE {})
           \cup (IF lastOwn.kind # "None" THEN {"Echo"} ELSE {})
           \cup (IF local # {} THEN {"Unpublish", "ProbeHit", "ResolveHit"} ELSE {})
           \cup (IF remote # {} THEN {"ByeKnown", "Again"} ELSE {})
\* every draw is bound by \E over a singleton so that it is made exactly once
Pick(S) == {RandomElement(S)}
SimNext ==
  \E k \in Pick(Classes), id \in Pick(FreshIds) :
  CASE k = "Hello" -> \E as \in Pick(Anns1) : RecvHello(as, id)
    [] k = "PM1" -> \E as \in Pick(Anns1) : RecvProbeMatches(as, id)
    [] k = "PM2" -> \E as \in Pick(Anns2) : RecvProbeMatches2(as, id)
    [] k = "RM" -> \E as \in Pick(Anns1) : RecvResolveMatches(as, id)
    \* another announcement for an EPR that is in the table (version arbitration is exercised more often)
    [] k = "Again" -> \E r \in Pick(remote), v \in Pick(Versions), c \in Pick(Contents), kind \in Pick(AnnKinds) :
                         RecvFresh(In(kind, id, <<MkSvc(r.e, v, c)>>, "", NoFlt))
    [] k = "Empty" -> \E kind \in Pick({"ProbeMatches", "ResolveMatches"}) : RecvEmptyMatches(kind, id)
    [] k = "Bye" -> \E e \in Pick(Eprs) : RecvBye(e, id)
    [] k = "ByeKnown" -> \E r \in Pick(remote) : RecvBye(r.e, id)
    [] k = "Probe" -> \E f \in Pick(Filters) : RecvProbe(f, id)
    \* a filter that at least one published service passes
    [] k = "ProbeHit" -> LET fs == {f \in Filters : Matching(local, f) # {}} IN
                         \E f \in Pick(IF fs = {} THEN Filters ELSE fs) : RecvProbe(f, id)
    [] k = "Resolve" -> \E e \in Pick(LocalEprs \cup {UnknownEpr}) : RecvResolve(e, id)
    [] k = "ResolveHit" -> \E s \in Pick(local) : RecvResolve(s.e, id)
    [] k = "Dup" -> \E id2 \in Pick(SeenIds), m \in Pick(Shapes) : Duplicate([m EXCEPT !.id = id2])
    \* the same id on a message of a kind drawn first
    [] k = "DupSame" -> \E kind \in Pick(AnnKinds \cup {"Bye", "Probe", "Resolve"}) :
                        \E id2 \in Pick(SeenIds), m \in Pick({x \in Shapes : x.kind = kind}) :
                           Duplicate([m EXCEPT !.id = id2])
    [] k = "Echo" -> Echo
    [] k = "Publish" -> \E e \in Pick(PubOk), p \in Pick(Profiles) : Publish(e, p)
    [] k = "Unpublish" -> \E s \in Pick(local) : Unpublish(s.e)
SimSpec == Init /\ [][SimNext]_vars
==============================================================================
