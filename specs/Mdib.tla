-------------------------------- MODULE Mdib --------------------------------
(***************************************************************************)
(* Operational model of the provider MDIB and its transactions             *)
(* (sdc11073.mdib.providermdib / transactions / mdibbase), written like    *)
(* the code: one action per API call of an open transaction, Commit shaped *)
(* like process_transaction, version book-keeping through the saved        *)
(* versions of removed objects (handle_version_lookup).                    *)
(*                                                                         *)
(* Serves C02 (version counters), C03 (atomicity), C10 (context part) and  *)
(* generates the provider histories that drive C01/C04/C06.                *)
(*                                                                         *)
(* Value semantics: the model has no aliasing.  Whether the real objects   *)
(* alias is decided on the implementation by trace validation (MdibTrace). *)
(***************************************************************************)
EXTENDS Integers, Sequences, FiniteSets, TLC, Json

CONSTANTS H,          \* descriptor handles of the model universe
          CH,         \* context state handles
          Kind,       \* Kind[h] \in {"comp", "metric", "ctx"}
          InitParent, \* InitParent[h] : parent of h in the initial MDIB, "none" if h is initially absent
          Parents,    \* Parents[h] : set of parents a dynamic handle may be created under
          CtxOf,      \* CtxOf[c] : the context descriptor a context state handle belongs to
          Removable,  \* handles the drivers may delete (leaves whose real parent is outside the universe are not)
          Tok,        \* content tokens
          BeginKinds, \* transaction kinds the drivers may open
          OtherMds,   \* handles that the two-MDS concretisation places in the second MDS (situation labels only)
          KeepH,      \* handles whose entity the application may keep across transactions
          TrackH,     \* the handle whose life-cycle is tracked by trk (test purposes), "none" = no tracking
          MaxTx, MaxOps

VARIABLES m,     \* the MDIB: [D, S, C, mver, lastD, lastS, lastC]
          tx,    \* the open transaction (kind "none" when there is none)
          ntx,   \* number of finished transactions
          hist,  \* emitted behaviour (hidden by VIEW in exhaustive runs)
          trk,   \* life-cycle word of TrackH: one letter per finished transaction that touched it
                 \* (A add, D delete, U update, S state update; lower case = aborted)
          keptv, \* DescriptorVersion the kept entity had when it was obtained (how stale it is when it is used)
          kept   \* handle of the entity object the application obtained between two transactions and still holds
                 \* ("none": none); it is written / refreshed / changed LATER, when the MDIB has moved on

vars == <<m, tx, ntx, hist, trk, kept, keptv>>
view == <<m, tx, ntx, kept, keptv>>
trkview == <<m, tx, ntx, trk, kept, keptv>>

Ext == "ext"          \* parent outside the model universe (e.g. the MDS)
NoneP == "none"

NoD == [present |-> FALSE, parent |-> NoneP, ver |-> 0, tok |-> 0]
NoS == [present |-> FALSE, sver |-> 0, dver |-> 0, tok |-> 0]
NoC == [present |-> FALSE, d |-> NoneP, sver |-> 0, dver |-> 0, tok |-> 0, assoc |-> "No", bind |-> -1, unbind |-> -1]
NoTx == [kind |-> "none", d |-> <<>>, s |-> <<>>, c |-> <<>>, nops |-> 0, rej |-> 0, kb |-> -1]

Single(h) == Kind[h] # "ctx"     \* descriptor kinds with exactly one (single) state

InitM == [D |-> [h \in H |-> IF InitParent[h] = NoneP THEN NoD
                             ELSE [present |-> TRUE, parent |-> InitParent[h], ver |-> 0, tok |-> 0]],
          S |-> [h \in H |-> IF InitParent[h] = NoneP \/ ~Single(h) THEN NoS
                             ELSE [present |-> TRUE, sver |-> 0, dver |-> 0, tok |-> 0]],
          C |-> [c \in CH |-> NoC],
          mver |-> 0,
          lastD |-> [h \in H |-> -1], lastS |-> [h \in H |-> -1], lastC |-> [c \in CH |-> -1]]

Init == m = InitM /\ tx = NoTx /\ ntx = 0 /\ hist = <<>> /\ trk = <<>> /\ kept = NoneP /\ keptv = 0

\* ------------------------------------------------------------------ helpers
Idx(seq, key, v) == IF \E i \in 1..Len(seq) : seq[i][key] = v
                    THEN CHOOSE i \in 1..Len(seq) : seq[i][key] = v ELSE 0
InD(h) == Idx(tx.d, "h", h) # 0
InS(h) == Idx(tx.s, "h", h) # 0
InC(c) == Idx(tx.c, "c", c) # 0
Open(k) == tx.kind = k /\ tx.nops < MaxOps
TrkLetter == IF \E i \in 1..Len(tx.d) : tx.d[i].h = TrackH
             THEN LET it == tx.d[CHOOSE i \in 1..Len(tx.d) : tx.d[i].h = TrackH]
                  IN CASE it.op = "crt" -> "A" [] it.op = "del" -> "D" [] OTHER -> "U"
             ELSE IF \E i \in 1..Len(tx.s) : tx.s[i].h = TrackH THEN "S" ELSE "-"
Lower(x) == CASE x = "A" -> "a" [] x = "D" -> "d" [] x = "U" -> "u" [] x = "S" -> "s" [] OTHER -> x
Log(rec) == /\ hist' = Append(hist, rec)
            /\ trk' = IF TrackH # "none" /\ rec.act \in {"Commit", "Abort"} /\ TrkLetter # "-"
                      THEN Append(trk, IF rec.act = "Commit" THEN TrkLetter ELSE Lower(TrkLetter))
                      ELSE trk
            /\ kept' = IF rec.act = "KeepEntity" THEN rec.h ELSE kept
            /\ keptv' = IF rec.act = "KeepEntity" THEN m.D[rec.h].ver ELSE keptv
Op(t) == [t EXCEPT !.nops = @ + 1]
NextVer(last) == IF last >= 0 THEN last + 1 ELSE 0
StateKind(h) == Kind[h]
StateTxKinds == {Kind[h] : h \in H} \ {"ctx"}
TxKinds == StateTxKinds \cup {"context", "descriptor"}
StateOpen == tx.kind \in StateTxKinds /\ tx.nops < MaxOps

Children(D, h) == {x \in H : D[x].present /\ D[x].parent = h}
RECURSIVE Subtree(_, _)
Subtree(D, h) == {h} \cup UNION {Subtree(D, x) : x \in Children(D, h)}


\* ------------------------------------------------------------------ situations (coverage labels of a finished transaction)
\* The drivers pick the behaviours they replay so that every situation label that TLC reached is covered at least once
\* (greedy set cover), instead of trusting a random sample: what kind of entity an item touches, how many context states
\* / children it has at that moment, how the item entered the transaction, how many items share a context descriptor.
Cap2(n) == IF n > 2 THEN 2 ELSE n
NCtx(h) == Cardinality({c \in CH : m.C[c].present /\ m.C[c].d = h})
Fan(h) == IF ~m.D[h].present THEN 0 ELSE IF Kind[h] = "ctx" THEN Cap2(NCtx(h)) ELSE Cap2(Cardinality(Children(m.D, h)))
SameD(t, d) == Cap2(Cardinality({i \in 1..Len(t.c) : t.c[i].d = d}))
\* how many descriptor versions the kept entity is behind when it is written
Behind(h) == Cap2(m.D[h].ver - keptv)
\* in which order the states of a transaction belong to the two MDS of the two-MDS concretisation (runs compressed):
\* reports are grouped by MDS, "ABA" is the order in which a grouping that only looks at neighbours goes wrong
RECURSIVE MdsPat(_, _)
MdsPat(s, last) == IF s = <<>> THEN ""
                   ELSE LET x == IF Head(s).h \in OtherMds THEN "B" ELSE "A"
                        IN (IF x = last THEN "" ELSE x) \o MdsPat(Tail(s), x)
\* an updated descriptor whose children are created / deleted in the same transaction: how many of them were staged
\* before and after it (the parent's version is raised once per child while the items are applied in staging order,
\* and set from the staged copy when its own item is reached)
KidsOf(t, i, rng) == Cap2(Cardinality({j \in rng : t.d[j].op \in {"crt", "del"} /\ t.d[j].parent = t.d[i].h}))
ParentPat(t, how) ==
  {"P:" \o ToString(KidsOf(t, i, 1..(i - 1))) \o ":" \o ToString(KidsOf(t, i, (i + 1)..Len(t.d))) \o ":" \o how
     : i \in {j \in 1..Len(t.d) : t.d[j].op = "upd" /\ KidsOf(t, j, 1..Len(t.d)) > 0}}
SitOf(t, how) ==
  {"T:" \o t.kind \o ":" \o how \o ":" \o (IF t.rej = 1 THEN "rej" ELSE "-")
        \o ":" \o (IF t.d = <<>> /\ t.s = <<>> /\ t.c = <<>> THEN "empty" ELSE "-")}
  \cup (IF t.s # <<>> /\ how = "commit" THEN {"M:" \o t.kind \o ":" \o MdsPat(t.s, "")} ELSE {})
 \cup ParentPat(t, how)
  \* a context descriptor is updated while it owns a context state that was disassociated and unbound earlier
  \cup {"U:" \o t.d[i].op \o ":owns-unbound-state:" \o how
          : i \in {j \in 1..Len(t.d) : Kind[t.d[j].h] = "ctx" /\ t.d[j].op = "upd"
                                        /\ \E c \in CH : m.C[c].present /\ m.C[c].d = t.d[j].h /\ m.C[c].unbind >= 0 /\ ~InC(c)}}
  \cup (IF t.kb >= 0 THEN {"K:" \o t.kind \o ":behind" \o ToString(t.kb) \o ":" \o how} ELSE {})
  \cup {"D:" \o t.d[i].op \o ":" \o Kind[t.d[i].h] \o ":" \o ToString(Fan(t.d[i].h)) \o ":" \o how : i \in 1..Len(t.d)}
  \cup {"S:" \o t.s[i].op \o ":" \o t.s[i].via \o ":" \o Kind[t.s[i].h] \o ":" \o t.kind \o ":" \o how : i \in 1..Len(t.s)}
  \cup {"C:" \o t.c[i].op \o ":" \o t.c[i].assoc \o ":" \o ToString(SameD(t, t.c[i].d)) \o ":" \o t.kind \o ":" \o how
          : i \in 1..Len(t.c)}

\* ------------------------------------------------------------------ begin / abort
Begin(k) == /\ tx.kind = "none" /\ ntx < MaxTx
            /\ tx' = [NoTx EXCEPT !.kind = k]
            /\ UNCHANGED <<m, ntx>>
            /\ Log([act |-> "Begin", kind |-> k, res |-> "ok"])

\* application code raises: inside the transaction body ("body"), or inside the pre-commit handler the application (the
\* product with its role providers) installed on the MDIB ("hook": the body has ended normally, the commit has begun)
AbortBy(how) == /\ tx.kind # "none"
                /\ tx' = NoTx /\ ntx' = ntx + 1 /\ UNCHANGED m
                /\ Log([act |-> "Abort", how |-> how, res |-> "ok",
                        sit |-> SitOf(tx, "abort") \cup {"H:" \o how \o ":" \o tx.kind \o ":"
                                                            \o (IF tx.d = <<>> /\ tx.s = <<>> /\ tx.c = <<>> THEN "empty" ELSE "-")}])
Abort == \E how \in {"body", "hook"} : AbortBy(how)

\* an API call the transaction rejects (exception caught by the application, transaction goes on)
Rejected(rec) == /\ tx.rej = 0
                 /\ tx' = [Op(tx) EXCEPT !.rej = 1] /\ UNCHANGED <<m, ntx>>
                 /\ Log(rec @@ [res |-> "rejected"])

\* ------------------------------------------------------------------ state transactions
SGet(h) == /\ StateOpen
           /\ IF m.S[h].present /\ ~InS(h) /\ StateKind(h) = tx.kind
              THEN /\ tx' = Op([tx EXCEPT !.s = Append(@, [h |-> h, op |-> "upd", via |-> "get", sver |-> m.S[h].sver + 1,
                                                             dver |-> m.S[h].dver, tok |-> m.S[h].tok])])
                   /\ UNCHANGED <<m, ntx>>
                   /\ Log([act |-> "GetState", h |-> h, res |-> "ok"])
              ELSE Rejected([act |-> "GetState", h |-> h])

SetSTok(h, t) == /\ tx.kind \in StateTxKinds \cup {"descriptor"} /\ tx.nops < MaxOps /\ InS(h)
                 /\ tx.s[Idx(tx.s, "h", h)].tok # t /\ tx.s[Idx(tx.s, "h", h)].via = "get"
                 /\ tx' = Op([tx EXCEPT !.s[Idx(tx.s, "h", h)].tok = t])
                 /\ UNCHANGED <<m, ntx>>
                 /\ Log([act |-> "SetStateTok", h |-> h, t |-> t, res |-> "ok"])

RemoveAt(seq, i) == [j \in 1..(Len(seq) - 1) |-> IF j < i THEN seq[j] ELSE seq[j + 1]]

SUnget(h) == /\ StateOpen /\ InS(h) /\ tx.s[Idx(tx.s, "h", h)].via = "get"
             /\ tx' = Op([tx EXCEPT !.s = RemoveAt(@, Idx(tx.s, "h", h))])
             /\ UNCHANGED <<m, ntx>>
             /\ Log([act |-> "UngetState", h |-> h, res |-> "ok"])

\* entity interface: entities.by_handle(h), change the state content, write_entity
SWriteEntityAs(h, t, name) ==
  /\ StateOpen /\ m.D[h].present /\ Single(h) /\ m.S[h].present
  /\ IF StateKind(h) = tx.kind
     THEN /\ LET item == [h |-> h, op |-> "upd", via |-> "ent", sver |-> m.S[h].sver + 1, dver |-> m.D[h].ver, tok |-> t]
                 i == Idx(tx.s, "h", h)
             IN tx' = Op([tx EXCEPT !.s = IF i = 0 THEN Append(@, item) ELSE [@ EXCEPT ![i] = item],
                                    !.kb = IF name = "WriteKeptEntity" THEN Behind(h) ELSE @])
          /\ UNCHANGED <<m, ntx>>
          /\ Log([act |-> name, h |-> h, t |-> t, res |-> "ok"])
     ELSE Rejected([act |-> name, h |-> h, t |-> t])
SWriteEntity(h, t) == SWriteEntityAs(h, t, "WriteEntity")
\* write_entities with a list of two entities: all or nothing - if one of them does not fit the transaction the call is
\* refused and NEITHER is staged (the order in the list does not matter)
SWriteEntities(h1, h2, t) ==
  /\ StateOpen /\ h1 # h2
  /\ \A h \in {h1, h2} : m.D[h].present /\ Single(h) /\ m.S[h].present
  /\ IF StateKind(h1) = tx.kind /\ StateKind(h2) = tx.kind
     THEN /\ LET It(h) == [h |-> h, op |-> "upd", via |-> "ent", sver |-> m.S[h].sver + 1, dver |-> m.D[h].ver, tok |-> t]
                 Put(s, h) == LET i == Idx(s, "h", h) IN IF i = 0 THEN Append(s, It(h)) ELSE [s EXCEPT ![i] = It(h)]
             IN tx' = Op([tx EXCEPT !.s = Put(Put(@, h1), h2)])
          /\ UNCHANGED <<m, ntx>>
          /\ Log([act |-> "WriteEntities", hs |-> <<h1, h2>>, t |-> t, res |-> "ok"])
     ELSE /\ (StateKind(h1) = tx.kind \/ StateKind(h2) = tx.kind)     \* at least one of them fits
          /\ Rejected([act |-> "WriteEntities", hs |-> <<h1, h2>>, t |-> t,
                       sit |-> {"W:refused:" \o tx.kind \o ":" \o (IF StateKind(h1) = tx.kind THEN "first-fits" ELSE "second-fits")}])
\* the entity was obtained before earlier transactions changed the MDIB (versions and content of the object are old)
SWriteKept(h, t) == kept = h /\ SWriteEntityAs(h, t, "WriteKeptEntity")

\* ------------------------------------------------------------------ context state transactions
CGet(c) == /\ Open("context")
           /\ IF m.C[c].present /\ ~InC(c)
              THEN /\ tx' = Op([tx EXCEPT !.c = Append(@, [m.C[c] EXCEPT !.sver = @ + 1] @@ [c |-> c, op |-> "upd"])])
                   /\ UNCHANGED <<m, ntx>>
                   /\ Log([act |-> "GetContextState", c |-> c, res |-> "ok"])
              ELSE Rejected([act |-> "GetContextState", c |-> c])

\* mk_context_state(descriptor, handle or None, set_associated)
CMk(c, assoc, explicit) ==
  /\ Open("context")
  /\ LET d == CtxOf[c] IN
     IF m.D[d].present /\ ~m.C[c].present /\ ~InC(c)
     THEN /\ (~explicit => m.lastC[c] < 0)
          /\ tx' = Op([tx EXCEPT !.c = Append(@,
                       [c |-> c, op |-> "new", present |-> TRUE, d |-> d,
                        sver |-> IF explicit THEN NextVer(m.lastC[c]) ELSE 0,
                        dver |-> m.D[d].ver, tok |-> 0,
                        assoc |-> IF assoc THEN "Assoc" ELSE "No",
                        bind |-> IF assoc THEN m.mver + 1 ELSE -1, unbind |-> -1])])
          /\ UNCHANGED <<m, ntx>>
          /\ Log([act |-> "MkContextState", c |-> c, d |-> d, assoc |-> assoc, explicit |-> explicit, res |-> "ok"])
     ELSE /\ explicit
          /\ Rejected([act |-> "MkContextState", c |-> c, d |-> d, assoc |-> assoc, explicit |-> explicit])

SetCTok(c, t) == /\ Open("context") /\ InC(c)
                 /\ tx.c[Idx(tx.c, "c", c)].op # "del" /\ tx.c[Idx(tx.c, "c", c)].tok # t
                 /\ tx' = Op([tx EXCEPT !.c[Idx(tx.c, "c", c)].tok = t])
                 /\ UNCHANGED <<m, ntx>>
                 /\ Log([act |-> "SetContextTok", c |-> c, t |-> t, res |-> "ok"])

\* disassociate_all(descriptor, ignored_handle)
RECURSIVE DisAll(_, _)
DisAll(items, cs) ==
  IF cs = {} THEN items
  ELSE LET c == CHOOSE x \in cs : TRUE
           o == m.C[c]
       IN DisAll(Append(items, [o EXCEPT !.sver = @ + 1, !.assoc = "Dis",
                                         !.unbind = IF o.unbind = -1 THEN m.mver + 1 ELSE o.unbind]
                               @@ [c |-> c, op |-> "upd"]), cs \ {c})
CDisAll(d, ign) ==
  /\ Open("context") /\ Kind[d] = "ctx" /\ m.D[d].present
  /\ LET cs == {c \in CH : /\ m.C[c].present /\ m.C[c].d = d /\ c # ign /\ ~InC(c)
                           /\ (m.C[c].assoc # "Dis" \/ m.C[c].unbind = -1)}
     IN tx' = Op([tx EXCEPT !.c = DisAll(@, cs)])
  /\ UNCHANGED <<m, ntx>>
  /\ Log([act |-> "DisassociateAll", d |-> d, ign |-> ign, res |-> "ok"])

\* entity interface in a context transaction: entities.by_handle(descriptor), change / add / drop a state, write_entity
CEntUpdate(c, t) ==
  /\ Open("context") /\ m.C[c].present
  /\ LET item == [m.C[c] EXCEPT !.sver = @ + 1, !.tok = t] @@ [c |-> c, op |-> "upd"]
         i == Idx(tx.c, "c", c)
     IN tx' = Op([tx EXCEPT !.c = IF i = 0 THEN Append(@, item) ELSE [@ EXCEPT ![i] = item]])
  /\ UNCHANGED <<m, ntx>>
  /\ Log([act |-> "EntityUpdateContextState", c |-> c, t |-> t, res |-> "ok"])

CEntNew(c) ==
  /\ Open("context") /\ ~m.C[c].present /\ ~InC(c) /\ m.D[CtxOf[c]].present
  /\ tx' = Op([tx EXCEPT !.c = Append(@, [c |-> c, op |-> "new", present |-> TRUE, d |-> CtxOf[c],
                                          sver |-> NextVer(m.lastC[c]), dver |-> m.D[CtxOf[c]].ver, tok |-> 0,
                                          assoc |-> "No", bind |-> -1, unbind |-> -1])])
  /\ UNCHANGED <<m, ntx>>
  /\ Log([act |-> "EntityNewContextState", c |-> c, res |-> "ok"])

\* a context state dropped from the entity: it is deleted from the MDIB (no report can announce it)
CEntDelete(c) ==
  /\ Open("context") /\ m.C[c].present /\ ~InC(c)
  /\ tx' = Op([tx EXCEPT !.c = Append(@, m.C[c] @@ [c |-> c, op |-> "del"])])
  /\ UNCHANGED <<m, ntx>>
  /\ Log([act |-> "EntityDeleteContextState", c |-> c, res |-> "ok"])

\* ------------------------------------------------------------------ descriptor transactions
DGet(h) == /\ Open("descriptor")
           /\ IF m.D[h].present /\ ~InD(h)
              THEN /\ tx' = Op([tx EXCEPT !.d = Append(@, [h |-> h, op |-> "upd", parent |-> m.D[h].parent,
                                                             ver |-> m.D[h].ver + 1, tok |-> m.D[h].tok])])
                   /\ UNCHANGED <<m, ntx>>
                   /\ Log([act |-> "GetDescriptor", h |-> h, res |-> "ok"])
              ELSE Rejected([act |-> "GetDescriptor", h |-> h])

SetDTok(h, t) == /\ Open("descriptor") /\ InD(h)
                 /\ LET i == Idx(tx.d, "h", h) IN
                      /\ tx.d[i].op # "del" /\ tx.d[i].tok # t
                      /\ tx' = Op([tx EXCEPT !.d[i].tok = t])
                 /\ UNCHANGED <<m, ntx>>
                 /\ Log([act |-> "SetDescriptorTok", h |-> h, t |-> t, res |-> "ok",
                         sit |-> {"I:" \o Kind[h] \o ":" \o tx.d[Idx(tx.d, "h", h)].op}])   \* in-place change of a handed-out descriptor

\* API precondition (not checked by the code): the parent exists - in the MDIB and not below a descriptor that
\* this transaction deletes, or created earlier in this transaction
DeletedInTx == {tx.d[i].h : i \in {j \in 1..Len(tx.d) : tx.d[j].op = "del"}}
RECURSIVE Ancestors(_)
Ancestors(h) == IF h = Ext \/ h = NoneP \/ ~m.D[h].present THEN {} ELSE {h} \cup Ancestors(m.D[h].parent)
ParentAvailable(p) == \/ p = Ext
                      \/ (m.D[p].present /\ Ancestors(p) \cap DeletedInTx = {})
                      \/ (InD(p) /\ tx.d[Idx(tx.d, "h", p)].op = "crt")

\* add_descriptor(container, state_container = state or None)
DAdd(h, p, withState) ==
  /\ Open("descriptor") /\ p \in Parents[h]
  /\ IF ~m.D[h].present /\ ~InD(h)
     THEN /\ ParentAvailable(p)
          /\ (withState => Single(h))
          /\ LET dv == NextVer(m.lastD[h]) IN
             tx' = Op([tx EXCEPT
                  !.d = Append(@, [h |-> h, op |-> "crt", parent |-> p, ver |-> dv, tok |-> 0]),
                  !.s = IF withState
                        THEN Append(@, [h |-> h, op |-> "new", via |-> "get", sver |-> NextVer(m.lastS[h]), dver |-> dv, tok |-> 0])
                        ELSE @])
          /\ UNCHANGED <<m, ntx>>
          /\ Log([act |-> "AddDescriptor", h |-> h, p |-> p, withState |-> withState, res |-> "ok"])
     ELSE Rejected([act |-> "AddDescriptor", h |-> h, p |-> p, withState |-> withState])

\* (API precondition, see ParentAvailable: nothing is created in this transaction below the deleted subtree)
DRemove(h) == /\ Open("descriptor") /\ h \in Removable
              /\ (m.D[h].present => \A i \in 1..Len(tx.d) : tx.d[i].op = "crt" => tx.d[i].parent \notin Subtree(m.D, h))
              /\ IF m.D[h].present /\ ~InD(h)
                 THEN /\ tx' = Op([tx EXCEPT !.d = Append(@, [h |-> h, op |-> "del", parent |-> m.D[h].parent,
                                                                ver |-> m.D[h].ver, tok |-> m.D[h].tok])])
                      /\ UNCHANGED <<m, ntx>>
                      /\ Log([act |-> "RemoveDescriptor", h |-> h, res |-> "ok"])
                 ELSE Rejected([act |-> "RemoveDescriptor", h |-> h])
\* the same through the entity interface (remove_entity of an entity object obtained from the MDIB)
DRemoveEntity(h) == /\ Open("descriptor") /\ h \in Removable /\ m.D[h].present /\ ~InD(h) /\ Single(h) /\ m.S[h].present
                    /\ \A i \in 1..Len(tx.d) : tx.d[i].op = "crt" => tx.d[i].parent \notin Subtree(m.D, h)
                    /\ tx' = Op([tx EXCEPT !.d = Append(@, [h |-> h, op |-> "del", parent |-> m.D[h].parent,
                                                              ver |-> m.D[h].ver, tok |-> m.D[h].tok])])
                    /\ UNCHANGED <<m, ntx>>
                    /\ Log([act |-> "RemoveEntity", h |-> h, res |-> "ok"])

\* get_state inside a descriptor transaction: only for a descriptor that is part of the transaction
DGetState(h) ==
  /\ Open("descriptor") /\ Single(h)
  /\ IF InD(h) /\ tx.d[Idx(tx.d, "h", h)].op # "del" /\ ~InS(h) /\ m.S[h].present
     THEN /\ tx' = Op([tx EXCEPT !.s = Append(@, [h |-> h, op |-> "upd", via |-> "get", sver |-> m.S[h].sver + 1,
                                                    dver |-> m.S[h].dver, tok |-> m.S[h].tok])])
          /\ UNCHANGED <<m, ntx>>
          /\ Log([act |-> "GetState", h |-> h, res |-> "ok"])
     ELSE Rejected([act |-> "GetState", h |-> h])

\* entity interface in a descriptor transaction: by_handle(h), change descriptor and state content, write_entity
DWriteEntityAs(h, t, name) ==
  /\ Open("descriptor") /\ m.D[h].present /\ Single(h) /\ m.S[h].present
  /\ IF ~InD(h)
     THEN /\ tx' = Op([tx EXCEPT
                !.d = Append(@, [h |-> h, op |-> "upd", parent |-> m.D[h].parent, ver |-> m.D[h].ver + 1, tok |-> t]),
                !.s = LET item == [h |-> h, op |-> "upd", via |-> "ent", sver |-> m.S[h].sver + 1, dver |-> m.D[h].ver + 1, tok |-> t]
                          i == Idx(tx.s, "h", h)
                      IN IF i = 0 THEN Append(@, item) ELSE [@ EXCEPT ![i] = item],
                !.kb = IF name = "WriteKeptEntity" THEN Behind(h) ELSE @])
          /\ UNCHANGED <<m, ntx>>
          /\ Log([act |-> name, h |-> h, t |-> t, res |-> "ok"])
     ELSE Rejected([act |-> name, h |-> h, t |-> t])
DWriteEntity(h, t) == DWriteEntityAs(h, t, "WriteEntity")
\* descriptor transaction: write_entities with a list of two entities (the library writes parents first, whatever the
\* order of the list); both must be writable, else the call is refused
DWriteEntities(h1, h2, t) ==
  /\ Open("descriptor") /\ h1 # h2
  /\ \A h \in {h1, h2} : m.D[h].present /\ Single(h) /\ m.S[h].present
  /\ IF ~InD(h1) /\ ~InD(h2)
     THEN /\ LET DI(h) == [h |-> h, op |-> "upd", parent |-> m.D[h].parent, ver |-> m.D[h].ver + 1, tok |-> t]
                 SI(h) == [h |-> h, op |-> "upd", via |-> "ent", sver |-> m.S[h].sver + 1, dver |-> m.D[h].ver + 1, tok |-> t]
                 PutS(s, h) == LET i == Idx(s, "h", h) IN IF i = 0 THEN Append(s, SI(h)) ELSE [s EXCEPT ![i] = SI(h)]
                 \* parents first
                 a == IF m.D[h1].parent = h2 THEN h2 ELSE h1
                 b == IF a = h1 THEN h2 ELSE h1
             IN tx' = Op([tx EXCEPT !.d = Append(Append(@, DI(a)), DI(b)), !.s = PutS(PutS(@, a), b)])
          /\ UNCHANGED <<m, ntx>>
          /\ Log([act |-> "DWriteEntities", hs |-> <<h1, h2>>, t |-> t, res |-> "ok"])
     ELSE Rejected([act |-> "DWriteEntities", hs |-> <<h1, h2>>, t |-> t])
DWriteKept(h, t) == kept = h /\ DWriteEntityAs(h, t, "WriteKeptEntity")

\* entity interface for a CONTEXT descriptor in a descriptor transaction: by_handle(d), change the descriptor, optionally
\* add a state (new_state) and / or drop one, write_entity: the descriptor and ALL states of the entity are written
RECURSIVE CtxItems(_, _, _)
CtxItems(items, cs, dv) ==
  IF cs = {} THEN items
  ELSE LET c == CHOOSE x \in cs : TRUE
       IN CtxItems(Append(items, [m.C[c] EXCEPT !.sver = @ + 1, !.dver = dv] @@ [c |-> c, op |-> "upd"]), cs \ {c}, dv)
DWriteEntityCtx(d, t, newc, dropc) ==
  /\ Open("descriptor") /\ Kind[d] = "ctx" /\ m.D[d].present
  /\ newc \in {NoneP} \cup {c \in CH : CtxOf[c] = d /\ ~m.C[c].present /\ ~InC(c)}
  /\ dropc \in {NoneP} \cup {c \in CH : m.C[c].present /\ m.C[c].d = d /\ ~InC(c)}
  /\ LET rec == [act |-> "WriteEntityCtx", d |-> d, t |-> t, c |-> newc, drop |-> dropc] IN
     IF ~InD(d)
     THEN LET dv == m.D[d].ver + 1
              keep == {c \in CH : m.C[c].present /\ m.C[c].d = d /\ c # dropc}
              i1 == CtxItems(tx.c, keep, dv)
              i2 == IF newc = NoneP THEN i1
                    ELSE Append(i1, [c |-> newc, op |-> "new", present |-> TRUE, d |-> d, sver |-> NextVer(m.lastC[newc]),
                                     dver |-> dv, tok |-> 0, assoc |-> "No", bind |-> -1, unbind |-> -1])
              i3 == IF dropc = NoneP THEN i2 ELSE Append(i2, m.C[dropc] @@ [c |-> dropc, op |-> "del"])
          IN /\ tx' = Op([tx EXCEPT !.d = Append(@, [h |-> d, op |-> "upd", parent |-> m.D[d].parent, ver |-> dv, tok |-> t]),
                                    !.c = i3])
             /\ UNCHANGED <<m, ntx>>
             /\ Log(rec @@ [res |-> "ok"])
     ELSE Rejected(rec)

\* entities.new_entity(...) + write_entity
DNewEntity(h, p) ==
  /\ Open("descriptor") /\ p \in Parents[h] /\ Single(h)
  /\ ~m.D[h].present /\ ~InD(h) /\ p # Ext /\ m.D[p].present /\ ParentAvailable(p)
  /\ LET dv == NextVer(m.lastD[h]) IN
     tx' = Op([tx EXCEPT
          !.d = Append(@, [h |-> h, op |-> "crt", parent |-> p, ver |-> dv, tok |-> 0]),
          !.s = Append(@, [h |-> h, op |-> "new", via |-> "ent", sver |-> NextVer(m.lastS[h]), dver |-> dv, tok |-> 0])])
  /\ UNCHANGED <<m, ntx>>
  /\ Log([act |-> "NewEntity", h |-> h, p |-> p, res |-> "ok"])

\* ------------------------------------------------------------------ commit (process_transaction)
Created(t) == {t.d[i].h : i \in {j \in 1..Len(t.d) : t.d[j].op = "crt"}}
Deleted(t) == {t.d[i].h : i \in {j \in 1..Len(t.d) : t.d[j].op = "del"}}

\* _update_corresponding_state(descriptor h) on accumulator a = [m, t]
CorrState(a, h) ==
  LET dv == a.m.D[h].ver IN
  IF Kind[h] = "ctx"
  THEN LET cs == {c \in CH : a.m.C[c].present /\ a.m.C[c].d = h}
           RECURSIVE Go(_, _)
           Go(items, rest) ==
             IF rest = {} THEN items
             ELSE LET c == CHOOSE x \in rest : TRUE
                      i == Idx(items, "c", c)
                  IN IF i # 0
                     THEN Go([items EXCEPT ![i].sver = @ + 1, ![i].dver = dv], rest \ {c})
                     ELSE Go(Append(items, [a.m.C[c] EXCEPT !.sver = @ + 1, !.dver = dv] @@ [c |-> c, op |-> "upd"]),
                             rest \ {c})
       IN [a EXCEPT !.t.c = Go(a.t.c, cs)]
  ELSE LET i == Idx(a.t.s, "h", h) IN
       IF i # 0 THEN [a EXCEPT !.t.s[i].dver = dv]
       ELSE IF a.m.S[h].present
            THEN [a EXCEPT !.t.s = Append(@, [h |-> h, op |-> "upd", via |-> "int", sver |-> a.m.S[h].sver + 1, dver |-> dv,
                                               tok |-> a.m.S[h].tok])]
            ELSE a

BumpParent(a, p) ==
  IF p = Ext \/ p = NoneP \/ ~a.m.D[p].present THEN a
  ELSE CorrState([a EXCEPT !.m.D[p].ver = @ + 1], p)

RemoveSubtree(mm, h) ==
  LET sub == Subtree(mm.D, h)
      cs == {c \in CH : mm.C[c].present /\ mm.C[c].d \in sub}
  IN [mm EXCEPT
       !.D = [x \in H |-> IF x \in sub THEN NoD ELSE @[x]],
       !.S = [x \in H |-> IF x \in sub THEN NoS ELSE @[x]],
       !.C = [c \in CH |-> IF c \in cs THEN NoC ELSE @[c]],
       !.lastD = [x \in H |-> IF x \in sub /\ mm.D[x].present THEN mm.D[x].ver ELSE @[x]],
       !.lastS = [x \in H |-> IF x \in sub /\ mm.S[x].present THEN mm.S[x].sver ELSE @[x]],
       !.lastC = [c \in CH |-> IF c \in cs THEN mm.C[c].sver ELSE @[c]]]

ApplyD(a, it) ==
  CASE it.op = "crt" ->
         LET a1 == [a EXCEPT !.m.D[it.h] = [present |-> TRUE, parent |-> it.parent, ver |-> it.ver, tok |-> it.tok]]
             a2 == IF it.parent \notin Created(a.t) THEN BumpParent(a1, it.parent) ELSE a1
         IN CorrState(a2, it.h)
    [] it.op = "del" ->
         IF ~a.m.D[it.h].present THEN a   \* already removed with an ancestor in this commit
         ELSE LET a1 == [a EXCEPT !.m = RemoveSubtree(a.m, it.h)]
              IN IF it.parent \notin Deleted(a.t) THEN BumpParent(a1, it.parent) ELSE a1
    [] it.op = "upd" ->
         IF ~a.m.D[it.h].present THEN a
         ELSE CorrState([a EXCEPT !.m.D[it.h].ver = it.ver, !.m.D[it.h].tok = it.tok], it.h)

RECURSIVE FoldD(_, _, _)
FoldD(a, items, i) == IF i > Len(items) THEN a ELSE FoldD(ApplyD(a, items[i]), items, i + 1)

ApplyS(mm, it) == [mm EXCEPT !.S[it.h] = [present |-> TRUE, sver |-> it.sver, dver |-> it.dver, tok |-> it.tok]]
RECURSIVE FoldS(_, _, _)
FoldS(mm, items, i) == IF i > Len(items) THEN mm ELSE FoldS(ApplyS(mm, items[i]), items, i + 1)

ApplyC(mm, it) == IF it.op = "del"
                  THEN [mm EXCEPT !.C[it.c] = NoC, !.lastC[it.c] = mm.C[it.c].sver]
                  ELSE
                  [mm EXCEPT !.C[it.c] = [present |-> TRUE, d |-> it.d, sver |-> it.sver, dver |-> it.dver,
                                           tok |-> it.tok, assoc |-> it.assoc, bind |-> it.bind, unbind |-> it.unbind]]
RECURSIVE FoldC(_, _, _)
FoldC(mm, items, i) == IF i > Len(items) THEN mm ELSE FoldC(ApplyC(mm, items[i]), items, i + 1)

Empty(t) == IF t.kind = "descriptor" THEN t.d = <<>>
            ELSE IF t.kind = "context" THEN t.c = <<>> ELSE t.s = <<>>

Committed(mm, t) ==
  IF Empty(t) THEN mm
  ELSE LET m1 == [mm EXCEPT !.mver = @ + 1]
       IN IF t.kind = "descriptor"
          THEN LET a == FoldD([m |-> m1, t |-> t], t.d, 1)
                   \* states of descriptors that were deleted in this commit are dropped
                   ss == SelectSeq(a.t.s, LAMBDA it : a.m.D[it.h].present)
                   cc == SelectSeq(a.t.c, LAMBDA it : a.m.D[it.d].present)
               IN FoldC(FoldS(a.m, ss, 1), cc, 1)
          ELSE IF t.kind = "context" THEN FoldC(m1, t.c, 1)
          ELSE FoldS(m1, t.s, 1)

Commit == /\ tx.kind # "none"
          /\ m' = Committed(m, tx)
          /\ tx' = NoTx /\ ntx' = ntx + 1
          /\ Log([act |-> "Commit", res |-> "ok", sit |-> SitOf(tx, "commit")])

\* the application changes an object it obtained from the MDIB outside of any transaction (C03 isolation):
\* src names the hand-out channel.  In the model nothing happens.
\* (kept_raw: the kept entity object itself, as it is - after it was written in a transaction it is still the
\*  application's private object.  Its label: kind of the entity, whether the last transaction wrote it, how that ended.)
LastEnd == LET ends == {i \in DOMAIN hist : hist[i].act \in {"Commit", "Abort"}} IN
           IF ends = {} THEN 0 ELSE CHOOSE i \in ends : \A j \in ends : j <= i
LastBegin == LET bs == {i \in DOMAIN hist : hist[i].act = "Begin"} IN IF bs = {} THEN 0 ELSE CHOOSE i \in bs : \A j \in bs : j <= i
RawSit == IF kept = NoneP THEN {}
          ELSE {"K:raw:" \o Kind[kept] \o ":"
                  \o (IF \E i \in LastBegin..Len(hist) : i > 0 /\ hist[i].act = "WriteKeptEntity" /\ hist[i].res = "ok"
                      THEN "written" ELSE "-")
                  \o ":" \o (IF LastEnd = 0 THEN "-" ELSE hist[LastEnd].act)}
MutateCopy(src, t) == /\ tx.kind = "none" /\ ntx > 0 /\ ntx < MaxTx
                      /\ Len(hist) > 0 /\ hist[Len(hist)].act # "MutateCopy"
                      /\ UNCHANGED <<m, tx, ntx>>
                      /\ Log([act |-> "MutateCopy", src |-> src, t |-> t, res |-> "ok",
                              sit |-> IF src = "kept_raw" THEN RawSit ELSE {}])

\* the application obtains an entity between two transactions and keeps the object
KeepEntity(h) == /\ tx.kind = "none" /\ kept = NoneP /\ ntx < MaxTx
                 /\ m.D[h].present /\ (Single(h) => m.S[h].present)
                 /\ UNCHANGED <<m, tx, ntx>>
                 /\ Log([act |-> "KeepEntity", h |-> h, res |-> "ok"])

Next == \/ \E src \in {"getter", "entity", "result"}, t \in Tok : MutateCopy(src, t)
        \* the kept entity is refreshed with update() and then changed: "kept_new" changes only what update() added
        \/ \E src \in {"kept_upd", "kept_new", "kept_raw"}, t \in Tok : kept # NoneP /\ m.D[kept].present /\ MutateCopy(src, t)
        \/ \E h \in KeepH : KeepEntity(h)
        \/ \E h \in H, t \in Tok : SWriteKept(h, t) \/ DWriteKept(h, t)
        \/ \E h1, h2 \in H, t \in Tok : SWriteEntities(h1, h2, t) \/ DWriteEntities(h1, h2, t)
        \/ \E h \in H : DRemoveEntity(h)
        \/ \E d \in H, t \in Tok, nc \in CH \cup {NoneP}, dc \in CH \cup {NoneP} : DWriteEntityCtx(d, t, nc, dc)
        \/ \E k \in BeginKinds : Begin(k)
        \/ Abort \/ Commit
        \/ \E h \in H : SGet(h) \/ SUnget(h) \/ DGet(h) \/ DRemove(h) \/ DGetState(h)
        \/ \E h \in H, t \in Tok : SetSTok(h, t) \/ SetDTok(h, t) \/ SWriteEntity(h, t) \/ DWriteEntity(h, t)
        \/ \E h \in H, p \in H \cup {Ext}, w \in BOOLEAN : DAdd(h, p, w)
        \/ \E h \in H, p \in H : DNewEntity(h, p)
        \/ \E c \in CH : CGet(c) \/ CEntNew(c) \/ CEntDelete(c)
        \/ \E c \in CH, t \in Tok : CEntUpdate(c, t)
        \/ \E c \in CH, a \in BOOLEAN, e \in BOOLEAN : CMk(c, a, e)
        \/ \E c \in CH, t \in Tok : SetCTok(c, t)
        \/ \E d \in H, ign \in CH \cup {NoneP} : CDisAll(d, ign)

Spec == Init /\ [][Next]_vars

\* ------------------------------------------------------------------ properties (C02, C03)
Gapless == [][m'.mver \in {m.mver, m.mver + 1}]_vars
EmptyNoBump == [][(Commit /\ Empty(tx)) => m' = m]_vars
NonEmptyBumps == [][(Commit /\ ~Empty(tx)) => m'.mver = m.mver + 1]_vars
AbortNoop == [][Abort => m' = m]_vars
OnlyCommitChanges == [][m' # m => Commit]_vars

\* version counters never decrease - including across absence (judged through the saved versions)
MonotoneD == [][\A h \in H : /\ (m.D[h].present /\ m'.D[h].present => m'.D[h].ver >= m.D[h].ver)
                             /\ (m.D[h].present /\ ~m'.D[h].present => m'.lastD[h] >= m.D[h].ver)
                             /\ (~m.D[h].present /\ m'.D[h].present => m'.D[h].ver > m.lastD[h])
                             /\ m'.lastD[h] >= m.lastD[h]]_vars
MonotoneS == [][\A h \in H : /\ (m.S[h].present /\ m'.S[h].present => m'.S[h].sver >= m.S[h].sver)
                             /\ (m.S[h].present /\ ~m'.S[h].present => m'.lastS[h] >= m.S[h].sver)
                             /\ (~m.S[h].present /\ m'.S[h].present => m'.S[h].sver > m.lastS[h])]_vars
MonotoneC == [][\A c \in CH : /\ (m.C[c].present /\ m'.C[c].present => m'.C[c].sver >= m.C[c].sver)
                              /\ (m.C[c].present /\ ~m'.C[c].present => m'.lastC[c] >= m.C[c].sver)
                              /\ (~m.C[c].present /\ m'.C[c].present => m'.C[c].sver > m.lastC[c])]_vars
ChangeBumpsD == [][\A h \in H : (m.D[h].present /\ m'.D[h].present /\ m'.D[h].tok # m.D[h].tok)
                                   => m'.D[h].ver > m.D[h].ver]_vars
ChangeBumpsS == [][\A h \in H : (m.S[h].present /\ m'.S[h].present
                                   /\ (m'.S[h].tok # m.S[h].tok \/ m'.S[h].dver # m.S[h].dver))
                                   => m'.S[h].sver > m.S[h].sver]_vars
ChangeBumpsC == [][\A c \in CH : (m.C[c].present /\ m'.C[c].present /\ m'.C[c] # m.C[c])
                                   => m'.C[c].sver > m.C[c].sver]_vars

RefConsistentOf(mm) ==
  /\ \A h \in H : mm.S[h].present => (mm.D[h].present /\ mm.S[h].dver = mm.D[h].ver)
  /\ \A c \in CH : mm.C[c].present => (mm.D[mm.C[c].d].present /\ mm.C[c].dver = mm.D[mm.C[c].d].ver)
  /\ \A h \in H : mm.D[h].present => (mm.D[h].parent = Ext \/ mm.D[mm.D[h].parent].present)
RefConsistent == RefConsistentOf(m)

TypeOK == /\ m.mver \in Nat /\ ntx \in 0..MaxTx
          /\ tx.kind \in TxKinds \cup {"none"}

\* ------------------------------------------------------------------ behaviour emission
Done == tx.kind = "none" /\ ntx = MaxTx
EmitDone == Done => PrintT(<<"BEH", ToJson(hist)>>)
\* test purposes: breadth-first search prints the (shortest) history of every state between two transactions;
\* the driver keeps the first history per life-cycle word
EmitTrk == (tx.kind = "none" /\ Len(trk) > 0) => PrintT(<<"TRK", trk, ToJson(hist)>>)
=============================================================================
