------------------------------- MODULE Query -------------------------------
(* C20 - query services return exactly the selected states and texts.                     *)
(*                                                                                        *)
(* Reference semantics of the four BICEPS query operations over a small abstract domain:  *)
(*   SelMdState(M, req)  GetMdState:       empty list: all states; context-state handle:  *)
(*                                         that state; descriptor handle: all its states  *)
(*   SelCtx(M, req)      GetContextStates: the same over context states, and an MDS       *)
(*                                         handle: all context states of that MDS         *)
(*   Sat(t, f)           GetLocalizedText: text t satisfies every GIVEN constraint of f   *)
(*                       (reference, version, language, text width, number of lines)      *)
(*   LatestGlobal/LatestPerRef, Languages  the unconstrained answer / supported languages *)
(* Results are SETS (order is free); "each at most once" is judged on the recorded        *)
(* response sequence in QueryTrace.tla.                                                   *)
(*                                                                                        *)
(* Behaviours: one state per case (Init-only).  Three domains:                            *)
(*   "h"  MDIB variant x request (sequence of <= MaxLen handles)                          *)
(*   "s"  a stored text set (also the GetSupportedLanguages case)                         *)
(*   "t"  stored text set x filter                                                        *)
(* The laws of the reference are invariants, so a mistake in the reference is found by    *)
(* TLC before anything is compared with the code.                                         *)
EXTENDS Naturals, Sequences, FiniteSets, TLC, Json

CONSTANTS ReqHandles,   \* abstract handles a request is drawn from
          MaxLen,       \* longest request
          N1, N2,       \* numbers of context states of the two context descriptors
          S3,           \* does descriptor "s3" have a state
          StoreIds,     \* identifiers of the stored text sets
          FRefs, FVers, FLangs, FWidths, FLines   \* values of the five constraint kinds (<<>> = not given)

VARIABLES case, dom

Rng(q) == {q[i] : i \in DOMAIN q}

(* ====================================================================================== *)
(* Part 1: handle selection                                                               *)
(* ====================================================================================== *)
\* An MDIB as far as the query services are concerned:
\*   M.desc    descriptor handles            M.mds   handles of MDS descriptors
\*   M.single  descriptor handles that own a (single) state
\*   M.ctx     context states [h |-> own handle, d |-> descriptor handle, m |-> handle of the MDS of d]
\* A state is named [k |-> "S" | "C", h |-> own handle (descriptor handle for single states), d |-> descriptor handle].
SState(d) == [k |-> "S", h |-> d, d |-> d]
CState(c) == [k |-> "C", h |-> c.h, d |-> c.d]
SingleStates(M) == {SState(d) : d \in M.single}
CtxStates(M) == {CState(c) : c \in M.ctx}
AllStates(M) == SingleStates(M) \cup CtxStates(M)

\* handles are unique over descriptors and context states; states belong to descriptors; MDSs are descriptors
WF(M) == /\ M.mds \subseteq M.desc
         /\ M.single \subseteq M.desc
         /\ \A c \in M.ctx : c.d \in M.desc /\ c.m \in M.mds /\ c.h \notin M.desc
         /\ \A c1, c2 \in M.ctx : c1.h = c2.h => c1 = c2
         /\ \A c \in M.ctx : c.d \notin M.single

IsCtxHandle(M, h) == \E c \in M.ctx : c.h = h
StateWithHandle(M, h) == {s \in CtxStates(M) : s.h = h}
OfDescriptor(M, h) == {s \in AllStates(M) : s.d = h}
CtxOfDescriptor(M, h) == {s \in CtxStates(M) : s.d = h}
CtxOfMds(M, h) == {CState(c) : c \in {x \in M.ctx : x.m = h}}

\* resolution of ONE handle, in the order of the BICEPS text (multi-state handle first, then descriptor handle,
\* for GetContextStates then MDS handle); an unknown handle resolves to nothing
MdOne(M, h) == IF IsCtxHandle(M, h) THEN StateWithHandle(M, h) ELSE OfDescriptor(M, h)
CtxOne(M, h) == IF IsCtxHandle(M, h) THEN StateWithHandle(M, h)
                ELSE IF h \in M.mds THEN CtxOfMds(M, h)
                ELSE CtxOfDescriptor(M, h)

SelMdState(M, req) == IF req = <<>> THEN AllStates(M) ELSE UNION {MdOne(M, h) : h \in Rng(req)}
SelCtx(M, req) == IF req = <<>> THEN CtxStates(M) ELSE UNION {CtxOne(M, h) : h \in Rng(req)}

\* the same selections, formulated per STATE (independent second formulation, used by the laws only)
McOf(M, s) == (CHOOSE c \in M.ctx : c.h = s.h).m
HitsMd(s, h) == h = s.d \/ (s.k = "C" /\ h = s.h)
HitsCtx(M, s, h) == h = s.d \/ h = s.h \/ h = McOf(M, s)
SelMd2(M, req) == {s \in AllStates(M) : req = <<>> \/ \E i \in DOMAIN req : HitsMd(s, req[i])}
SelCtx2(M, req) == {s \in CtxStates(M) : req = <<>> \/ \E i \in DOMAIN req : HitsCtx(M, s, req[i])}

Known(M, h) == h \in M.desc \/ IsCtxHandle(M, h)
Reverse(q) == [i \in DOMAIN q |-> q[Len(q) + 1 - i]]
OnlyKnown(M, q) == SelectSeq(q, LAMBDA h : Known(M, h))

(* ---- abstract MDIB variants: one MDS, three single-state descriptors (s3 with or without state), two context  *)
(* descriptors with 0..2 context states each                                                                     *)
Variants == [n1 : N1, n2 : N2, s3 : S3]
CtxOf(d, hs, n) == {[h |-> hs[i], d |-> d, m |-> "mds"] : i \in 1..n}
MdibOf(v) == [desc |-> {"mds", "s1", "s2", "s3", "cd1", "cd2"},
              mds |-> {"mds"},
              single |-> {"mds", "s1", "s2"} \cup (IF v.s3 THEN {"s3"} ELSE {}),
              ctx |-> CtxOf("cd1", <<"c11", "c12">>, v.n1) \cup CtxOf("cd2", <<"c21", "c22">>, v.n2)]
AllReqHandles == {"mds", "s1", "s2", "s3", "cd1", "cd2", "c11", "c12", "c21", "c22", "unk"}
QuickReqHandles == AllReqHandles \ {"s2", "c21", "c22"}
Requests == UNION {[1..n -> ReqHandles] : n \in 0..MaxLen}
HCases == [kind : {"h"}, v : Variants, req : Requests]

HandleLaw(M, req) ==
  /\ WF(M)
  /\ SelMdState(M, req) \subseteq AllStates(M)
  /\ SelCtx(M, req) \subseteq CtxStates(M)
  /\ SelMdState(M, req) \subseteq SelMdState(M, <<>>)
  /\ SelCtx(M, req) \subseteq SelCtx(M, <<>>)
  \* handle-wise resolution = state-wise membership
  /\ SelMdState(M, req) = SelMd2(M, req)
  /\ SelCtx(M, req) = SelCtx2(M, req)
  \* order and repetition of handles are irrelevant
  /\ SelMdState(M, Reverse(req)) = SelMdState(M, req)
  /\ SelCtx(M, Reverse(req)) = SelCtx(M, req)
  /\ SelMdState(M, req \o req) = SelMdState(M, req)
  /\ SelCtx(M, req \o req) = SelCtx(M, req)
  \* unknown handles contribute nothing (a non-empty list of unknown handles selects nothing, not everything)
  /\ req # <<>> =>
       /\ OnlyKnown(M, req) # <<>> => /\ SelMdState(M, OnlyKnown(M, req)) = SelMdState(M, req)
                                     /\ SelCtx(M, OnlyKnown(M, req)) = SelCtx(M, req)
       /\ OnlyKnown(M, req) = <<>> => SelMdState(M, req) = {} /\ SelCtx(M, req) = {}
  \* a non-empty list is the union of its one-handle lists
  /\ req # <<>> => /\ SelMdState(M, req) = UNION {SelMdState(M, <<req[i]>>) : i \in DOMAIN req}
                   /\ SelCtx(M, req) = UNION {SelCtx(M, <<req[i]>>) : i \in DOMAIN req}
  \* the two services agree on context states unless an MDS handle is asked
  /\ (req # <<>> /\ Rng(req) \cap M.mds = {}) => SelCtx(M, req) = SelMdState(M, req) \cap CtxStates(M)
  /\ (Rng(req) \cap M.mds # {}) => CtxOfMds(M, CHOOSE m \in Rng(req) \cap M.mds : TRUE) \subseteq SelCtx(M, req)
  \* every state can be asked for: the empty list is the union over all handles
  /\ AllStates(M) = UNION {MdOne(M, h) : h \in M.desc \cup {c.h : c \in M.ctx}}

(* ====================================================================================== *)
(* Part 2: localized texts                                                                *)
(* ====================================================================================== *)
\* a text: [ref, ver, lang, width, lines]; a filter: five sequences, <<>> = constraint not given
Refs == {"r1", "r2"}
Vers == {0, 1}   \* 0 is a legal pm:ReferencedVersion: a request for version 0 is a version constraint, not "no version"
Langs == {"en", "de"}
Widths == {"xs", "s", "l"}
\* (3: a text whose middle line is empty - every line counts, also one without content)
LineCounts == {1, 2, 3}
Texts == [ref : Refs, ver : Vers, lang : Langs, width : Widths, lines : LineCounts]

WRank(w) == CASE w = "xs" -> 0 [] w = "s" -> 1 [] w = "m" -> 2 [] w = "l" -> 3 [] w = "xl" -> 4 [] w = "xxl" -> 5
              [] OTHER -> 99

SatRef(t, f) == f.ref = <<>> \/ t.ref \in Rng(f.ref)
SatVer(t, f) == f.ver = <<>> \/ t.ver \in Rng(f.ver)
SatLang(t, f) == f.lang = <<>> \/ t.lang \in Rng(f.lang)
\* BICEPS: a text matches a requested width / number of lines if its own is less than or equal to it
SatWidth(t, f) == f.width = <<>> \/ \E w \in Rng(f.width) : WRank(t.width) <= WRank(w)
SatLines(t, f) == f.lines = <<>> \/ \E n \in Rng(f.lines) : t.lines <= n
Sat(t, f) == SatRef(t, f) /\ SatVer(t, f) /\ SatLang(t, f) /\ SatWidth(t, f) /\ SatLines(t, f)
Matching(S, f) == {t \in S : Sat(t, f)}
NoConstraint(f) == f.ref = <<>> /\ f.ver = <<>> /\ f.lang = <<>> /\ f.width = <<>> /\ f.lines = <<>>

\* "the latest version": of the whole store, or of each referenced text (the statement admits both readings)
LatestGlobal(S) == {t \in S : \A u \in S : u.ver <= t.ver}
LatestPerRef(S) == {t \in S : \A u \in S : u.ref = t.ref => u.ver <= t.ver}
Languages(S) == {t.lang : t \in S}

(* ---- stored text sets: (ref, version) pattern x languages x (width, lines) pattern, and a few ragged ones *)
RVPat(n) == CASE n = "a1" -> {<<"r1", 0>>}
              [] n = "a2" -> {<<"r1", 1>>}
              [] n = "a12" -> {<<"r1", 0>>, <<"r1", 1>>}
              [] n = "ab1" -> {<<"r1", 0>>, <<"r2", 0>>}
              [] n = "rag" -> {<<"r1", 0>>, <<"r1", 1>>, <<"r2", 0>>}
              [] n = "full" -> Refs \X Vers
LGPat(n) == CASE n = "en" -> {"en"} [] n = "both" -> {"en", "de"}
WLPat(n) == CASE n = "x1" -> {<<"xs", 1>>}
              [] n = "s2" -> {<<"s", 2>>}
              [] n = "l1" -> {<<"l", 1>>}
              [] n = "x1l2" -> {<<"xs", 1>>, <<"l", 2>>}
              [] n = "x2l1" -> {<<"xs", 2>>, <<"l", 1>>}
              [] n = "s12" -> {<<"s", 1>>, <<"s", 2>>}
              [] n = "s13" -> {<<"s", 1>>, <<"s", 3>>}
              [] n = "all" -> Widths \X LineCounts
T(r, v, g, w, n) == [ref |-> r, ver |-> v, lang |-> g, width |-> w, lines |-> n]
Special(n) == CASE n = "empty" -> {}
                \* the two languages offer different widths
                [] n = "raglang" -> {T("r1", 0, "en", "xs", 1), T("r1", 0, "en", "l", 2), T("r1", 0, "de", "s", 1)}
                \* the two references offer different widths / lines, and different latest versions
                [] n = "ragref" -> {T("r1", 0, "en", "xs", 1), T("r1", 1, "en", "l", 2), T("r2", 0, "en", "s", 2),
                                    T("r2", 0, "de", "s", 1)}
                \* only one language has the latest version
                [] n = "ragver" -> {T("r1", 0, "en", "s", 1), T("r1", 1, "en", "s", 1), T("r1", 0, "de", "s", 1),
                                    T("r2", 1, "de", "l", 2)}
StoreOf(p) == IF p.rv = "x" THEN Special(p.lg)
              ELSE {T(rv[1], rv[2], g, wl[1], wl[2]) : rv \in RVPat(p.rv), g \in LGPat(p.lg), wl \in WLPat(p.wl)}

AllRV == {"a1", "a12", "ab1", "rag", "full"}
AllLG == {"en", "both"}
AllWL == {"x1", "s2", "x1l2", "x2l1", "s12", "s13", "all"}
AllSpecials == {"empty", "raglang", "ragref", "ragver"}
AllStoreIds == [rv : AllRV, lg : {"both"}, wl : AllWL] \cup [rv : {"a1", "full"}, lg : {"en"}, wl : AllWL]
                 \cup [rv : {"x"}, lg : AllSpecials, wl : {"-"}]
QuickStoreIds == [rv : {"rag", "full"}, lg : {"both"}, wl : {"x2l1", "all"}]
                   \cup [rv : {"a1"}, lg : {"en"}, wl : {"s2", "s13"}]
                   \cup [rv : {"x"}, lg : {"empty", "ragref", "ragver"}, wl : {"-"}]

AllFRefs == {<<>>, <<"r1">>, <<"r1", "r2">>, <<"rx">>, <<"rx", "r1">>}
AllFVers == {<<>>, <<0>>, <<1>>, <<2>>}
AllFLangs == {<<>>, <<"de">>, <<"en", "de">>, <<"xx">>}
AllFWidths == {<<>>, <<"xs">>, <<"s">>, <<"m">>, <<"l">>, <<"xs", "l">>}
AllFLines == {<<>>, <<1>>, <<2>>, <<1, 2>>}
QuickFRefs == {<<>>, <<"r1">>, <<"r1", "r2">>, <<"rx">>}
QuickFVers == {<<>>, <<0>>, <<1>>}
QuickFLangs == {<<>>, <<"de">>, <<"en", "de">>, <<"xx">>}
QuickFWidths == {<<>>, <<"xs">>, <<"m">>, <<"xs", "l">>}
QuickFLines == {<<>>, <<1>>, <<1, 2>>}
Filters == [ref : FRefs, ver : FVers, lang : FLangs, width : FWidths, lines : FLines]
NoFilter == [ref |-> <<>>, ver |-> <<>>, lang |-> <<>>, width |-> <<>>, lines |-> <<>>]

SCases == [kind : {"s"}, p : StoreIds]
TCases == [kind : {"t"}, p : StoreIds, f : Filters]

Drop(f, k) == [f EXCEPT ![k] = <<>>]
Kinds == {"ref", "ver", "lang", "width", "lines"}
StoreLaw(S) ==
  /\ S \subseteq Texts
  /\ Matching(S, NoFilter) = S
  /\ LatestGlobal(S) \subseteq LatestPerRef(S)
  /\ LatestPerRef(S) \subseteq S
  /\ (S = {}) = (LatestGlobal(S) = {})
  /\ \A t, u \in LatestGlobal(S) : t.ver = u.ver
  /\ \A r \in {t.ref : t \in S} : \E t \in LatestPerRef(S) : t.ref = r
  /\ (Languages(S) = {}) = (S = {})
  /\ Languages(S) \subseteq Langs
TextLaw(S, f) ==
  /\ Matching(S, f) \subseteq S
  \* dropping a constraint can only admit more texts; all constraints dropped admits every text
  /\ \A k \in Kinds : Matching(S, f) \subseteq Matching(S, Drop(f, k))
  \* matching is decided text by text
  /\ Matching(S, f) = UNION {Matching({t}, f) : t \in S}
  \* the widest width / largest number of lines of the domain constrain nothing
  /\ Matching(S, [f EXCEPT !.width = <<"xxl">>]) = Matching(S, Drop(f, "width"))
  /\ Matching(S, [f EXCEPT !.lines = <<3>>]) = Matching(S, Drop(f, "lines"))
  \* a constraint naming only values that occur nowhere admits nothing
  /\ f.ref = <<"rx">> => Matching(S, f) = {}
  /\ f.lang = <<"xx">> => Matching(S, f) = {}
  /\ f.ver = <<2>> => Matching(S, f) = {}
  /\ NoConstraint(f) = (f = NoFilter)

(* ====================================================================================== *)
(* behaviours: one state per case                                                         *)
(* ====================================================================================== *)
\* dom: the abstract MDIB / stored text set of the case (a state variable so that it is computed once per case)
InitH == case \in HCases /\ dom = MdibOf(case.v)
InitT == case \in SCases \cup TCases /\ dom = StoreOf(case.p)
Next == FALSE /\ UNCHANGED <<case, dom>>
Init == InitH \/ InitT
Spec == Init /\ [][Next]_<<case, dom>>

LawH == case.kind = "h" => HandleLaw(dom, case.req)
LawS == case.kind = "s" => StoreLaw(dom)
LawT == case.kind = "t" => TextLaw(dom, case.f)

Payload == CASE case.kind = "h" -> case
             [] case.kind = "s" -> [kind |-> "s", p |-> case.p, texts |-> dom]
             [] case.kind = "t" -> case
EmitCase == PrintT(<<"CASE", ToJson(Payload)>>)

\* the abstract MDIB variants (concretised by the harness on a real provider)
ASSUME PrintT(<<"VARIANTS", ToJson({[v |-> v, M |-> MdibOf(v)] : v \in Variants})>>)
=============================================================================
