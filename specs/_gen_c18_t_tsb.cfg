SPECIFICATION Spec
CONSTANTS
  Part = "ts"
  Big = FALSE
  TsDense = 20000
  TsWin = 1000
  Ts2Dense = 2000
  DecCoMax = 12
INVARIANT Law
INVARIANT Emit
