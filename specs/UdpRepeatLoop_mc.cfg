\* exhaustive check of the design; history hidden by VIEW
SPECIFICATION Spec
CONSTANTS
  Own = {"m1", "m2", "m3"}
  Foreign = {"f1", "f2", "f3"}
  MaxOps = 1000
VIEW view
INVARIANT OwnIgnored
INVARIANT OwnPreRegistered
INVARIANT ForeignOnce
