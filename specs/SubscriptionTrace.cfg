SPECIFICATION TraceSpec
VIEW View
POSTCONDITION AllConsumed
