SPECIFICATION Spec
CONSTANTS
  Descr <- McDescr
  CH <- McCH
  MaxCalls = 3
VIEW view
INVARIANT OneAssoc
PROPERTY UnbindMarked
PROPERTY BindMarked
