----------------------------- MODULE QueryTrace -----------------------------
(* Judges what the real query services returned (recorded by verif/checks/c20.py through  *)
(* the real consumer service clients) with the operators of Query.tla.                    *)
(*                                                                                        *)
(* A trace = one real provider content followed by the queries sent to it:                *)
(*   record 1   kind "mdib":  the MDIB as read from the provider tables (concrete handles) *)
(*                            + the abstract variant and the abstract -> concrete map      *)
(*           or kind "store": the texts in the provider's localization storage             *)
(*                            + the answer of GetSupportedLanguages                        *)
(*   record n   kind "q":     request handle list, answers of GetMdState / GetContextStates *)
(*           or kind "text":  filter, answer of GetLocalizedText                           *)
(* Every failing clause is named in a REJECT line; clauses "machinery:*" say that the      *)
(* harness did not build what the specification asked for (never a verdict on the code).   *)
EXTENDS Query, IOUtils

VARIABLES tid, l

Data == JsonDeserialize(IOEnv.TRACE_FILE)
Traces == Data.traces

ClauseAt(pos, name, cond) == IF cond THEN TRUE ELSE PrintT(<<"REJECT", tid, pos, name>>)

NoDup(q) == \A i, j \in DOMAIN q : q[i] = q[j] => i = j

(* ---------------------------------------------------------------- handles *)
AsM(j) == [desc |-> Rng(j.desc), mds |-> Rng(j.mds), single |-> Rng(j.single),
           ctx |-> {[h |-> c.h, d |-> c.d, m |-> c.m] : c \in Rng(j.ctx)}]
AsState(j) == [k |-> j.k, h |-> j.h, d |-> j.d]
AsVariant(j) == [n1 |-> j.n1, n2 |-> j.n2, s3 |-> j.s3]

\* the real MDIB contains the image of the abstract variant, and the abstract "unknown" handles are unknown in it
Binding(M, v, map) ==
  LET A == MdibOf(v) IN
    /\ v \in [n1 : 0..2, n2 : 0..2, s3 : BOOLEAN]
    /\ \A d \in A.desc : map[d] \in M.desc /\ ((map[d] \in M.single) = (d \in A.single))
    /\ map["mds"] \in M.mds
    /\ {c \in M.ctx : c.d \in {map["cd1"], map["cd2"]}} = {[h |-> map[c.h], d |-> map[c.d], m |-> map[c.m]] : c \in A.ctx}
    /\ \A h \in AllReqHandles : (~Known(A, h)) => ~Known(M, map[h])
    /\ \A g, h \in AllReqHandles : map[g] = map[h] => g = h

JudgeMdib(pos, rec) ==
  LET M == AsM(rec.M) IN
    /\ ClauseAt(pos, "machinery:wf", WF(M))
    /\ ClauseAt(pos, "machinery:binding", Binding(M, AsVariant(rec.v), rec.map))

JudgeSel(pos, name, expected, a) ==
  /\ ClauseAt(pos, name \o "_total", a.exc = "")
  /\ a.exc = "" =>
       LET R == {AsState(s) : s \in Rng(a.resp)} IN
         /\ ClauseAt(pos, name \o "_only_selected", R \subseteq expected)
         /\ ClauseAt(pos, name \o "_all_selected", expected \subseteq R)
         /\ ClauseAt(pos, name \o "_at_most_once", NoDup(a.resp))

JudgeQuery(pos, first, rec) ==
  LET M == AsM(first.M) IN
    /\ JudgeSel(pos, "md", SelMdState(M, rec.req), rec.md)
    /\ JudgeSel(pos, "ctx", SelCtx(M, rec.req), rec.ctx)

(* ---------------------------------------------------------------- texts *)
Core(t) == [ref |-> t.ref, ver |-> t.ver, lang |-> t.lang, width |-> t.width, lines |-> t.lines]
AsFilter(j) == [ref |-> j.ref, ver |-> j.ver, lang |-> j.lang, width |-> j.width, lines |-> j.lines]
AsStoreId(j) == [rv |-> j.rv, lg |-> j.lg, wl |-> j.wl]
StoreIn(rec) == {Core(t) : t \in Rng(rec.texts)}

JudgeStore(pos, rec) ==
  LET S == StoreIn(rec) IN
    /\ ClauseAt(pos, "machinery:store", AsStoreId(rec.p) \in AllStoreIds /\ S = StoreOf(AsStoreId(rec.p))
                                         /\ Len(rec.texts) = Cardinality(S))
    /\ ClauseAt(pos, "langs_total", rec.langs.exc = "")
    /\ rec.langs.exc = "" =>
         /\ ClauseAt(pos, "langs_only_stored", Rng(rec.langs.resp) \subseteq Languages(S))
         /\ ClauseAt(pos, "langs_all_stored", Languages(S) \subseteq Rng(rec.langs.resp))

JudgeText(pos, first, rec) ==
  LET S == StoreIn(first)
      f == AsFilter(rec.f)
      a == rec.a
  IN
    \* the documented call form of the service client reaches the wire
    /\ ClauseAt(pos, "text_request_sendable", rec.sendable)
    /\ ClauseAt(pos, "text_total", a.exc = "")
    /\ a.exc = "" =>
         LET R == {Core(t) : t \in Rng(a.resp)} IN
           /\ ClauseAt(pos, "text_from_store", R \subseteq S /\ \A t \in Rng(a.resp) : t.same)
           /\ ClauseAt(pos, "text_ref", \A t \in R : SatRef(t, f))
           /\ ClauseAt(pos, "text_version", \A t \in R : SatVer(t, f))
           /\ ClauseAt(pos, "text_lang", \A t \in R : SatLang(t, f))
           /\ ClauseAt(pos, "text_width", \A t \in R : SatWidth(t, f))
           /\ ClauseAt(pos, "text_lines", \A t \in R : SatLines(t, f))
           /\ NoConstraint(f) => ClauseAt(pos, "text_default_latest", R \in {LatestGlobal(S), LatestPerRef(S)})
           \* which reading of "the latest version" the code follows where the two differ (information only)
           /\ (NoConstraint(f) /\ LatestGlobal(S) # LatestPerRef(S)) =>
                PrintT(<<"NOTE", tid, pos, IF R = LatestGlobal(S) THEN "latest_of_store"
                                           ELSE IF R = LatestPerRef(S) THEN "latest_per_ref" ELSE "neither">>)

(* ---------------------------------------------------------------- one state per record *)
JudgeFirst(rec) == CASE rec.kind = "mdib" -> JudgeMdib(1, rec)
                     [] rec.kind = "store" -> JudgeStore(1, rec)
                     [] OTHER -> ClauseAt(1, "machinery:first_record", FALSE)
JudgeRec(pos, first, rec) ==
  CASE rec.kind = "q" /\ first.kind = "mdib" -> JudgeQuery(pos, first, rec)
    [] rec.kind = "text" /\ first.kind = "store" -> JudgeText(pos, first, rec)
    [] OTHER -> ClauseAt(pos, "machinery:record_kind", FALSE)

TraceInit == /\ tid \in 1..Len(Traces)
             /\ l = 1
             /\ case = 0 /\ dom = 0
             /\ JudgeFirst(Traces[tid][1])

TraceNext == /\ l < Len(Traces[tid])
             /\ JudgeRec(l + 1, Traces[tid][1], Traces[tid][l + 1])
             /\ l' = l + 1 /\ tid' = tid /\ UNCHANGED <<case, dom>>

TraceSpec == TraceInit /\ [][TraceNext]_<<case, dom, tid, l>>

Total == Data.total
AllConsumed == TLCGet("distinct") = Total
=============================================================================
