SPECIFICATION TraceSpec
POSTCONDITION AllConsumed
