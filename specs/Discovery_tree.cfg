\* all behaviours of exactly MaxOps steps (history is part of the state)
SPECIFICATION Spec
CONSTANTS
  Eprs = {"e1", "e2"}
  LocalEprs = {"e1", "e2"}
  DupAll = TRUE
  UnknownEpr = "e9"
  Versions = {1, 2}
  MsgIds = {"m1", "m2"}
  Cap = 2
  Contents <- TreeContents
  PairContents <- TreePair
  Profiles <- TreeProfiles
  Filters <- TreeFilters
  MaxOps = 2
CONSTRAINT EmitLeaf
