SPECIFICATION TraceSpec
CONSTANTS
  Own = {"m1", "m2", "m3"}
  Foreign = {"f1", "f2", "f3"}
  MaxOps = 0
POSTCONDITION AllConsumed
