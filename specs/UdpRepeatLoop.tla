---------------------------- MODULE UdpRepeatLoop ----------------------------
(***************************************************************************)
(* C15, second sentence: "Messages the node sent itself are ignored when   *)
(* multicast loops them back."                                             *)
(*                                                                         *)
(* Operational model of the message-id memory of NetworkingThread:         *)
(*   Send(m)     add_outbound_message: the own MessageID is registered as  *)
(*               known BEFORE the datagrams are queued                     *)
(*   RecvOwn(m)  a datagram carrying an own id arrives (multicast loop     *)
(*               back, any of the 1 + repeat copies): ignored              *)
(*   RecvNew(f)  first datagram of a foreign message: handed to the        *)
(*               discovery layer, id remembered                            *)
(*   RecvDup(f)  further copies of a foreign message: ignored              *)
(* The memory is modelled unbounded (the real one keeps the last 200 ids): *)
(* the replay also runs behaviours on a node that has already seen a full  *)
(* memory of foreign ids, so that forgetting the WRONG id shows up.        *)
(***************************************************************************)
EXTENDS Naturals, Sequences, FiniteSets, TLC, Json

CONSTANTS Own,      \* message ids this node may send
          Foreign,  \* message ids of other nodes
          MaxOps    \* bound on the history length (behaviour emission)

VARIABLES sent,       \* own ids handed to the networking thread so far
          seen,       \* known message ids
          delivered,  \* sequence of ids handed to the discovery layer
          hist        \* action history (hidden by VIEW in the exhaustive cfg)

vars == <<sent, seen, delivered, hist>>
view == <<sent, seen, delivered>>

Rng(s) == {s[i] : i \in DOMAIN s}

Init == sent = {} /\ seen = {} /\ delivered = <<>> /\ hist = <<[act |-> "Init", id |-> "-", res |-> "ok"]>>

Log(a, id, res) == Len(hist) <= MaxOps /\ hist' = Append(hist, [act |-> a, id |-> id, res |-> res])

SendCore(m) == /\ m \in Own \ sent
               /\ sent' = sent \cup {m}
               /\ seen' = seen \cup {m}
               /\ UNCHANGED delivered
Send(m) == SendCore(m) /\ Log("Send", m, "queued")

RecvOwnCore(m) == m \in sent /\ UNCHANGED <<sent, seen, delivered>>
RecvOwn(m) == RecvOwnCore(m) /\ Log("Recv", m, "ignored")

RecvNewCore(f) == /\ f \in Foreign \ seen
                  /\ seen' = seen \cup {f}
                  /\ delivered' = Append(delivered, f)
                  /\ UNCHANGED sent
RecvNew(f) == RecvNewCore(f) /\ Log("Recv", f, "delivered")

RecvDupCore(f) == f \in Foreign \cap seen /\ UNCHANGED <<sent, seen, delivered>>
RecvDup(f) == RecvDupCore(f) /\ Log("Recv", f, "ignored")

Next == \/ \E m \in Own : Send(m) \/ RecvOwn(m)
        \/ \E f \in Foreign : RecvNew(f) \/ RecvDup(f)

Spec == Init /\ [][Next]_vars

\* ---- the property -----------------------------------------------------------------
OwnIgnored == Rng(delivered) \cap Own = {}
OwnPreRegistered == sent \subseteq seen
\* sanity of the model: every foreign message is handed over exactly once
ForeignOnce == /\ \A i, j \in DOMAIN delivered : i # j => delivered[i] # delivered[j]
               /\ Rng(delivered) = seen \cap Foreign

\* ---- behaviour emission --------------------------------------------------------------
Bounded == Len(hist) <= MaxOps + 1
EmitAt(d) == (Len(hist) = d) => PrintT(<<"BEH", ToJson(hist)>>)
EmitLeaf == Bounded /\ EmitAt(MaxOps + 1)
=============================================================================
