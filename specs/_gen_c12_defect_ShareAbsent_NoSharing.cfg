\* exhaustive check of the design: 3 instances, 2 written values, all API calls; history hidden by VIEW
SPECIFICATION Spec
CONSTANTS
  N = 3
  NVals = 2
  Ops = {"New", "ParseAbsent", "ParsePresent", "DeepCopy", "MkCopy", "UpdateFrom", "MutateNested", "Drop"}
  MaxOps = 0
  ShareAbsent = TRUE
  ShallowCopy = FALSE
VIEW view
INVARIANT NoSharing
