\* all histories of exactly MaxOps API calls (history is part of the state); one BEH line per history
SPECIFICATION Spec
CONSTANTS
  N = 3
  NVals = 2
  Ops = {"New", "ParseAbsent", "ParsePresent", "DeepCopy", "MkCopy", "UpdateFrom", "MutateNested", "Drop"}
  MaxOps = 3
  ShareAbsent = FALSE
  ShallowCopy = FALSE
CONSTRAINT EmitLeaf
