SPECIFICATION TraceSpec
CONSTANTS
  Eprs = {"e1", "e2"}
  LocalEprs = {"e1", "e2"}
  DupAll = FALSE
  UnknownEpr = "e9"
  Versions = {1, 2, 3}
  MsgIds = {"m1", "m2", "m3"}
  Cap = 2
  Contents <- SimContents
  PairContents <- SimPair
  Profiles <- SimProfiles
  Filters <- SimFilters
  MaxOps = 0
POSTCONDITION AllConsumed
