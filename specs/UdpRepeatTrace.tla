--------------------------- MODULE UdpRepeatTrace ---------------------------
(***************************************************************************)
(* code -> spec: judges what the real NetworkingThread put on its send     *)
(* queue (one record per driven case) with the clause operators of         *)
(* UdpRepeat.tla.  Every trace has exactly one record:                     *)
(*   ps     "unicast" | "multicast"  (by destination of the queued message) *)
(*   kind   which real sender produced the message (informational)         *)
(*   d0, g  the outcomes fed to the two random draws (ms)                  *)
(*   cfg    the parameter object the real code passed to the scheduler     *)
(*   draw   [d0lo, d0hi, glo, ghi] inclusive outcome ranges the code asked *)
(*          the random source for                                          *)
(*   off    offsets (send_time - now) of the queued entries in microseconds *)
(*   known  own MessageID is in the known-id memory after queuing          *)
(*   loop   "ignored" | "delivered" : own datagram fed back to the receiver *)
(*   tx     number of datagrams the real send loop wrote to the socket for  *)
(*          this message, or -1 when the send loop was not driven           *)
(* A failing clause is named in a REJECT line.                             *)
(***************************************************************************)
EXTENDS UdpRepeat, IOUtils

VARIABLES tid, l

Data == JsonDeserialize(IOEnv.TRACE_FILE)
Traces == Data.traces

Clause(name, cond) == IF cond THEN TRUE ELSE PrintT(<<"REJECT", tid, l, name>>)

U == 1000   \* recorded unit: microseconds

Judge(rec) ==
  LET p == P(rec.cfg.maxInitial, rec.cfg.repeat, rec.cfg.min, rec.cfg.max, rec.cfg.upper)
      off == rec.off
      ref == Schedule(p, rec.d0, rec.g)
  IN /\ Clause("param_set", p = ParamSet(rec.ps))
     /\ Clause("draw_initial_delay", DrawInitialOK(p, rec.draw.d0lo, rec.draw.d0hi))
     /\ Clause("draw_first_gap", DrawGapOK(p, rec.draw.glo, rec.draw.ghi))
     /\ Clause("count", CountOK(p, off))
     /\ Clause("initial_delay", InitialOK(p, U, off))
     /\ Clause("first_gap", FirstGapOK(p, U, off))
     /\ Clause("doubling_capped", FollowOK(p, U, off))
     /\ Clause("own_id_known", rec.known)
     /\ Clause("loopback_ignored", rec.loop = "ignored")
     /\ Clause("transmit_count", rec.tx = 0 - 1 \/ rec.tx = 1 + p.repeat)
     /\ Clause("reference", Len(off) = Len(ref) /\ \A i \in 1..Len(ref) : off[i] = U * ref[i])

TraceInit == /\ tid \in 1..Len(Traces)
             /\ l = 1
             /\ case = [ps |-> Traces[tid][1].ps, d0 |-> Traces[tid][1].d0, g |-> Traces[tid][1].g]
             /\ Judge(Traces[tid][1])

TraceNext == UNCHANGED <<case, tid, l>>

TraceSpec == TraceInit /\ [][TraceNext]_<<case, tid, l>>

Total == Data.total
AllConsumed == TLCGet("distinct") = Total
=============================================================================
