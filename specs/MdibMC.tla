---- MODULE MdibMC ----
EXTENDS Mdib
ASSUME TLCSet(7, {})
McH == {"vmd", "ch", "m1", "dA", "dB", "pc"}
McCH == {"c1", "c2"}
McKind == [h \in McH |-> CASE h \in {"m1", "dB"} -> "metric" [] h = "pc" -> "ctx" [] OTHER -> "comp"]
McInitParent == [h \in McH |-> CASE h = "vmd" -> "ext" [] h = "ch" -> "vmd" [] h = "m1" -> "ch" [] h = "pc" -> "ext"
                                 [] OTHER -> "none"]
McParents == [h \in McH |-> CASE h = "dA" -> {"vmd"} [] h = "dB" -> {"ch", "dA"} [] h = "m1" -> {"ch"}
                              [] h = "ch" -> {"vmd"} [] OTHER -> {}]
McCtxOf == [c \in McCH |-> "pc"]
\* simulation universe: adds alert / operation / real-time-sample leaves (state transactions of every kind)
SimH == McH \cup {"al", "op", "rt", "asy", "sco", "m2"}
McOtherMds == {"m2", "sco", "asy"}
SimKind == [h \in SimH |-> CASE h \in {"m1", "dB", "m2"} -> "metric" [] h = "pc" -> "ctx" [] h \in {"al", "asy"} -> "alert"
                              [] h = "op" -> "op" [] h = "rt" -> "rt" [] OTHER -> "comp"]
SimInitParent == [h \in SimH |-> CASE h = "vmd" -> "ext" [] h = "ch" -> "vmd" [] h = "m1" -> "ch" [] h = "pc" -> "ext"
                                   [] h = "op" -> "ext" [] h \in {"al", "rt", "asy", "sco"} -> "vmd" [] h = "m2" -> "ch" [] OTHER -> "none"]
SimParents == [h \in SimH |-> CASE h = "dA" -> {"vmd"} [] h = "dB" -> {"ch", "dA"} [] h = "m1" -> {"ch"}
                                [] h = "ch" -> {"vmd"} [] OTHER -> {}]
McRemovable == McH
SimRemovable == McH
AllKinds == TxKinds
\* tiny universe for the life-cycle purposes of one dynamic descriptor
TrkH == {"ch", "dB"}
TrkKind == [h \in TrkH |-> IF h = "dB" THEN "metric" ELSE "comp"]
TrkInitParent == [h \in TrkH |-> IF h = "ch" THEN "ext" ELSE "none"]
TrkParents == [h \in TrkH |-> IF h = "dB" THEN {"ch"} ELSE {}]
TrkRemovable == {"dB"}
TrkCH == {}
TrkCtxOf == <<>>
\* test purposes for one descriptor transaction (breadth-first, one worker): the first (= a shortest) history for every
\* situation label of a committed / aborted descriptor transaction of up to four calls - random simulation reaches the
\* longer ones (two children of one parent created / deleted and the parent updated after them) far too rarely
EmitDPurpose == (hist # <<>> /\ hist[Len(hist)].act \in {"Commit", "Abort"})
                => LET fresh == hist[Len(hist)].sit \ TLCGet(7)
                   IN fresh # {} => (PrintT(<<"BEH", ToJson(hist)>>) /\ TLCSet(7, TLCGet(7) \cup fresh))
\* test purposes over several transactions (context + descriptor transactions only): situations that need a history,
\* e.g. a context descriptor updated while it owns a state that an earlier transaction disassociated and unbound
HistoryLabels == {"U:upd:owns-unbound-state:commit", "U:upd:owns-unbound-state:abort"}
EmitCPurpose == (hist # <<>> /\ hist[Len(hist)].act \in {"Commit", "Abort"})
                => LET fresh == (hist[Len(hist)].sit \cap HistoryLabels) \ TLCGet(7)
                   IN fresh # {} => (PrintT(<<"BEH", ToJson(hist)>>) /\ TLCSet(7, TLCGet(7) \cup fresh))
\* test purposes for the kept entity object: keep it, write it in a transaction of its kind, commit / abort, change it
EmitKPurpose == (hist # <<>> /\ hist[Len(hist)].act = "MutateCopy" /\ hist[Len(hist)].src = "kept_raw")
                => LET fresh == hist[Len(hist)].sit \ TLCGet(7)
                   IN fresh # {} => (PrintT(<<"BEH", ToJson(hist)>>) /\ TLCSet(7, TLCGet(7) \cup fresh))
KpH == {"ch", "m1", "al", "op", "rt", "pc"}      \* one entity of every kind
KpKind == [h \in KpH |-> SimKind[h]]
KpInitParent == [h \in KpH |-> "ext"]
KpParents == [h \in KpH |-> {}]
CpH == {"pc", "vmd"}
CpKind == [h \in CpH |-> IF h = "pc" THEN "ctx" ELSE "comp"]
CpInitParent == [h \in CpH |-> "ext"]
CpParents == [h \in CpH |-> {}]
====
