----------------------------- MODULE Invocation -----------------------------
(***************************************************************************)
(* BICEPS invocation-state protocol (C09).                                 *)
(*                                                                         *)
(* Provider part (ServiceWithOperations._handle_operation_request, sco):   *)
(*   a request gets the next transaction id; unknown operation -> response *)
(*   Fail, no report; direct processing -> report F, response F; queued    *)
(*   -> response Wait, worker reports Wait, Start, F; a raising handler    *)
(*   yields F = Fail with error information.                               *)
(*                                                                         *)
(* Consumer part (OperationsManager): reports of one transaction arrive in *)
(*   emission order, but in ANY position relative to the HTTP response and *)
(*   to the messages of other transactions.                                *)
(***************************************************************************)
EXTENDS Integers, Sequences, FiniteSets, TLC, Json

CONSTANTS MaxReq,        \* number of requests of the provider part
          Tx,            \* transactions of the consumer part (set of small naturals)
          Shapes         \* Shapes[t] = [resp, reps, direct] : response state, report states in emission order,
                         \*              direct = reports are emitted before the response (direct processing)

Final == {"Fin", "FinMod", "Fail", "Cnclld", "CnclldMan"}
NonFinal == {"Wait", "Start"}

\* ------------------------------------------------------------------ provider part
VARIABLES txid, reqs, phist, epoch
pvars == <<txid, reqs, phist, epoch>>

Outcome == {"fin", "finmod", "fail", "raise"}
FinalOf(o) == CASE o = "fin" -> "Fin" [] o = "finmod" -> "FinMod" [] OTHER -> "Fail"

PInit == txid = 0 /\ reqs = <<>> /\ phist = <<>> /\ epoch = 0
\* idle: what happened in the operations worker since the previous request - "none": nothing; "quiet": it was idle long
\* enough to run its time-out housekeeping; "raises": ... and the application's time-out handler of an operation raised.
\* None of this has any effect on how requests are answered.
Idle == {"none", "quiet", "raises"}
\* reboot: before this request the provider was restarted (a new instance at the same address: its transaction ids
\* start again) and the consumer reconnected with restart().  Transaction ids are unique and increasing per provider
\* instance; what the consumer collected for the transactions of the former instance belongs to nothing any more.
Request(known, queued, o, idle, reboot) ==
  /\ Len(reqs) < MaxReq
  /\ (reboot => (Len(reqs) > 0 /\ idle = "none"))
  /\ LET tx == IF reboot THEN 1 ELSE txid + 1
         ep == IF reboot THEN epoch + 1 ELSE epoch
         f == FinalOf(o)
         r == IF ~known THEN [tx |-> tx, ep |-> ep, resp |-> "Fail", reports |-> <<>>, err |-> TRUE]
              ELSE IF queued THEN [tx |-> tx, ep |-> ep, resp |-> "Wait", reports |-> <<"Wait", "Start", f>>, err |-> o = "raise"]
              ELSE [tx |-> tx, ep |-> ep, resp |-> f, reports |-> <<f>>, err |-> o = "raise"]
     IN reqs' = Append(reqs, r) /\ txid' = tx /\ epoch' = ep
  /\ phist' = Append(phist, [act |-> "Request", known |-> known, queued |-> queued, outcome |-> o, idle |-> idle,
                              reboot |-> reboot])
PNext == \E k \in BOOLEAN, q \in BOOLEAN, o \in Outcome, idle \in Idle, rb \in BOOLEAN : Request(k, q, o, idle, rb)

\* the response state followed by the reports, with a leading report that only repeats the response dropped
Legal(resp, reps) ==
  LET s == IF reps # <<>> /\ Head(reps) = resp THEN reps ELSE <<resp>> \o reps
  IN \/ (Len(s) = 3 /\ s[1] = "Wait" /\ s[2] = "Start" /\ s[3] \in Final)
     \/ (Len(s) = 1 /\ s[1] \in Final)
TxIdsIncrease == \A i, j \in DOMAIN reqs : (i < j /\ reqs[i].ep = reqs[j].ep) => reqs[i].tx < reqs[j].tx
LegalSeq == \A i \in DOMAIN reqs : Legal(reqs[i].resp, reqs[i].reports)
PEmit == (Len(reqs) = MaxReq) => PrintT(<<"BEH", ToJson(phist)>>)

\* ------------------------------------------------------------------ consumer part
VARIABLES sent,      \* sent[t] : number of reports of t that have arrived
          responded, \* set of transactions whose HTTP response has been processed
          pending,   \* pending[t] : report parts collected for a registered transaction (or "none")
          recent,    \* report parts that arrived for unregistered transactions (the bounded deque of the code)
          fut,       \* fut[t] : [n |-> completions, state, parts]
          chist
cvars == <<sent, responded, pending, recent, fut, chist>>
cview == <<sent, responded, pending, recent, fut>>

NoPend == [on |-> FALSE, parts |-> <<>>]
RespState(t) == Shapes[t].resp
Reps(t) == Shapes[t].reps
Direct(t) == Shapes[t].direct

CInit == /\ sent = [t \in Tx |-> 0] /\ responded = {}
         /\ pending = [t \in Tx |-> NoPend] /\ recent = <<>>
         /\ fut = [t \in Tx |-> [n |-> 0, state |-> "none", parts |-> <<>>]]
         /\ chist = <<>>

Complete(t, st, parts) == [fut EXCEPT ![t] = [n |-> @.n + 1, state |-> st, parts |-> parts]]

\* on_operation_invoked_report for the next report of transaction t
ReportArrives(t) ==
  /\ sent[t] < Len(Reps(t))
  /\ LET st == Reps(t)[sent[t] + 1]
         part == <<t, st>> IN
       /\ sent' = [sent EXCEPT ![t] = @ + 1]
       /\ IF pending[t].on
          THEN IF st \in NonFinal
               THEN /\ pending' = [pending EXCEPT ![t].parts = Append(@, part)] /\ UNCHANGED <<recent, fut>>
               ELSE /\ fut' = Complete(t, st, Append(pending[t].parts, part))
                    /\ pending' = [pending EXCEPT ![t] = NoPend] /\ UNCHANGED recent
          ELSE /\ recent' = Append(recent, part) /\ UNCHANGED <<pending, fut>>
  /\ UNCHANGED responded
  /\ chist' = Append(chist, [act |-> "Report", t |-> t, i |-> sent[t] + 1])

\* call_operation after post_message returned the response of transaction t
ResponseArrives(t) ==
  /\ t \notin responded
  /\ (~Direct(t) \/ sent[t] = Len(Reps(t)))     \* direct processing: the report is sent before the response
  /\ responded' = responded \cup {t}
  /\ LET parts == SelectSeq(recent, LAMBDA p : p[1] = t)
         finals == SelectSeq(parts, LAMBDA p : p[2] \in Final) IN
       IF RespState(t) \in {"Fail", "Cnclld", "CnclldMan"}
       THEN fut' = Complete(t, RespState(t), parts) /\ UNCHANGED pending     \* as the property demands (see C09)
       ELSE IF finals # <<>>
            THEN fut' = Complete(t, finals[1][2], parts) /\ UNCHANGED pending
            ELSE pending' = [pending EXCEPT ![t] = [on |-> TRUE, parts |-> parts]] /\ UNCHANGED fut
  /\ UNCHANGED <<sent, recent>>
  /\ chist' = Append(chist, [act |-> "Response", t |-> t])

CNext == \E t \in Tx : ReportArrives(t) \/ ResponseArrives(t)
CSpec == CInit /\ PInit /\ [][CNext /\ UNCHANGED pvars]_<<cvars, pvars>>
PSpec == PInit /\ CInit /\ [][PNext /\ UNCHANGED cvars]_<<cvars, pvars>>

AllDone == responded = Tx /\ \A t \in Tx : sent[t] = Len(Reps(t))
PartsOf(t) == [i \in 1..Len(Reps(t)) |-> <<t, Reps(t)[i]>>]
FinalState(t) == IF Reps(t) = <<>> THEN RespState(t) ELSE Reps(t)[Len(Reps(t))]
CompletesOnce == AllDone => \A t \in Tx : /\ fut[t].n = 1
                                          /\ fut[t].state = FinalState(t)
                                          /\ fut[t].parts = PartsOf(t)
NeverTwice == \A t \in Tx : fut[t].n <= 1
CEmit == AllDone => PrintT(<<"BEH", ToJson(chist)>>)
=============================================================================
