\* the check generates a copy with the parameter values read from the real module
SPECIFICATION TraceSpec
CONSTANTS
  UniMaxInitial = 500
  UniRepeat = 2
  UniMin = 50
  UniMax = 250
  UniUpper = 500
  MulMaxInitial = 500
  MulRepeat = 4
  MulMin = 50
  MulMax = 250
  MulUpper = 500
  Step = 1
  Idle = 100
  Busy = 10
  BTimes = {1}
POSTCONDITION AllConsumed
