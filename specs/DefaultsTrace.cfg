SPECIFICATION TraceSpec
CONSTANTS
  N = 3
  NVals = 2
  Ops = {"New", "ParseAbsent", "ParsePresent", "DeepCopy", "MkCopy", "UpdateFrom", "MutateNested", "Drop"}
  MaxOps = 0
  ShareAbsent = FALSE
  ShallowCopy = FALSE
POSTCONDITION AllConsumed
