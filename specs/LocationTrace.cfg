SPECIFICATION TraceSpec
CONSTANTS
  Classes <- AllClasses
  Shapes = {"solo", "mid", "rot"}
  AbsentModes = {"none", "empty"}
  Schemes <- AllSchemes
  Auths <- AllAuths
  Frags <- AllFrags
POSTCONDITION AllConsumed
