SPECIFICATION Spec
CONSTANTS
  H <- TrkH
  CH <- TrkCH
  Kind <- TrkKind
  InitParent <- TrkInitParent
  Parents <- TrkParents
  CtxOf <- TrkCtxOf
  Removable <- TrkRemovable
  OtherMds <- McOtherMds
  BeginKinds = {"descriptor", "metric"}
  KeepH = {}
  TrackH = "dB"
  Tok = {0, 1}
  MaxTx = 5
  MaxOps = 1
VIEW trkview
CONSTRAINT EmitTrk
