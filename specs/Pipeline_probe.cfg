SPECIFICATION Spec
CONSTANTS
  ProviderTargets = {"GetMdib", "SetValue", "TransferGet", "GetContainmentTree"}
  ConsumerTargets = {"EpisodicMetricReport"}
  GetTargets = {"GetWsdl"}
  NumTargets = {"SetValue", "EpisodicMetricReport"}
  ReqTargets = {"SetValue", "EpisodicMetricReport"}
  EmptyBodyTargets = {"TransferGet"}
  UnimplTargets = {"GetContainmentTree"}
  MutatingTargets = {"SetValue", "EpisodicMetricReport"}
  Part = "all"
  EmitOnly = FALSE
INVARIANT TypeOK
INVARIANT ReadProgress
INVARIANT Outcome
INVARIANT FoldAgrees
INVARIANT NoEscape
INVARIANT NoSpin
INVARIANT BoundedRead
INVARIANT NoExpansion
INVARIANT NoFetch
INVARIANT RejectIsNoop
INVARIANT ValidatedFirst
INVARIANT HandledOnlyIfAdmissible
INVARIANT AcceptOnlyHandled
PROPERTY Total
