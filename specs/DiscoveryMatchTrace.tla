------------------------ MODULE DiscoveryMatchTrace ------------------------
(***************************************************************************)
(* C14, part (a), code -> spec: the results of the real match_scope,       *)
(* matches_filter and filter_services on the concretised cases are judged  *)
(* with the operators of DiscoveryMatch.tla.  A trace is just a batch of   *)
(* independent records [kind, case, actual]; one state per record.         *)
(*   kind "scope"  : actual = sequence of "T"/"F"/"exc:<Type>", one entry  *)
(*                   per way the harness passes the rule to match_scope    *)
(*   kind "filter" : actual = sequence of "T"/"F"/"exc:<Type>"             *)
(*   kind "select" : actual = [res, idx] (idx = 1-based indices returned)  *)
(***************************************************************************)
EXTENDS DiscoveryMatch, Json, IOUtils

VARIABLES tid, l

Data == JsonDeserialize(IOEnv.TRACE_FILE)
Traces == Data.traces

Clause(name, cond) == IF cond THEN TRUE ELSE PrintT(<<"REJECT", tid, l + 1, name>>)
Clause1(name, cond) == IF cond THEN TRUE ELSE PrintT(<<"REJECT", tid, 1, name>>)

B(x) == IF x THEN "T" ELSE "F"
AllAre(seq, v) == \A i \in DOMAIN seq : seq[i] = v

Judge(rec) ==
  CASE rec.kind = "scope" -> AllAre(rec.actual, B(MatchScope(rec.case.a, rec.case.b, rec.case.rule)))
    [] rec.kind = "filter" -> AllAre(rec.actual, B(MatchesFilter(rec.case.srv, rec.case.flt)))
    [] rec.kind = "select" -> rec.actual.res = "ok" /\ SeqRng(rec.actual.idx) = Select(rec.case.srvs, rec.case.flt)
                              /\ Len(rec.actual.idx) = Cardinality(Select(rec.case.srvs, rec.case.flt))
    [] OTHER -> FALSE

Name(rec) == IF rec.kind = "scope" THEN "scope:" \o rec.case.rule
             ELSE IF rec.kind = "filter" THEN "filter:" \o rec.case.flt.rule ELSE rec.kind

TraceInit == /\ tid \in 1..Len(Traces)
             /\ l = 1
             /\ LET rec == Traces[tid][1] IN Clause1(Name(rec), Judge(rec))

TraceNext == /\ l < Len(Traces[tid])
             /\ LET rec == Traces[tid][l + 1] IN Clause(Name(rec), Judge(rec))
             /\ l' = l + 1 /\ tid' = tid

TraceSpec == TraceInit /\ [][TraceNext]_<<tid, l>>

Total == Data.total
AllConsumed == TLCGet("distinct") = Total
=============================================================================
