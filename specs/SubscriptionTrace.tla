-------------------------- MODULE SubscriptionTrace --------------------------
(***************************************************************************)
(* Abstract obligations of C08 on recorded executions of the real          *)
(* subscription managers.  The abstract table is reconstructed from the    *)
(* observed responses (granted durations) and the scripted delivery        *)
(* outcomes; times are centiseconds of the virtual clock.                  *)
(* What is deliberately NOT demanded: whether Renew / GetStatus /          *)
(* Unsubscribe for a subscription that is no longer live but may not yet   *)
(* have been removed by housekeeping faults or succeeds.                   *)
(***************************************************************************)
EXTENDS Integers, Sequences, FiniteSets, TLC, Json, IOUtils

VARIABLES tid, l, st, now, conn
Data == JsonDeserialize(IOEnv.TRACE_FILE)
Traces == Data.traces
Total == Data.total
MaxDur == Data.maxdur      \* centiseconds
MaxErrors == Data.maxerrors
Clause(name, cond) == IF cond THEN TRUE ELSE PrintT(<<"REJECT", tid, l + 1, name>>)
Rng(s) == {s[i] : i \in DOMAIN s}

Ids == 1..9
NoSub == [issued |-> FALSE, owner |-> "none", filter |-> {}, started |-> 0, dur |-> 0, errors |-> 0,
          unsub |-> FALSE, ended |-> FALSE, endTo |-> FALSE, unsubAt |-> 0, gone |-> FALSE]
\* housekeeping that runs two ticks or more after an Unsubscribe has removed that subscription: the provider no longer
\* knows it (one tick is the grace period of the implementation; "more than one" is demanded with a margin)
Removable(s, t) == s.issued /\ s.unsub /\ (t - s.unsubAt) >= 200
Alive(s, t) == s.issued /\ ~s.unsub /\ ~s.ended /\ (t - s.started) < s.dur /\ s.errors < MaxErrors

GrantOK(req, granted) == granted > 0 /\ granted <= MaxDur /\ (req > 0 => granted <= req)
SentOf(rec, kind) == {x \in Rng(rec.sent) : x.kind = kind}
Once(rec) == \A i, j \in DOMAIN rec.sent : (i # j) => (rec.sent[i].id # rec.sent[j].id \/ rec.sent[i].kind # rec.sent[j].kind)

\* ---- recorded with the real SoapClient of the provider (rec.real): a socket-level failure while a notification is
\* exchanged (rec.broke: the subscriber endpoints it was scripted for) leaves the pooled connection to that endpoint
\* closed; until the provider holds no subscription of that endpoint any more (housekeeping) further notifications to
\* it may fail locally instead of being transmitted.  Everyone else is judged by what really was on the wire.
Clients == {"A", "B"}
Broken(rec, s) == rec.real /\ s.issued /\ s.owner \in Clients /\ (conn[s.owner] \/ s.owner \in Rng(rec.broke))
Refused(rec, s) == rec.real /\ s.owner \in Rng(rec.refused_at_connect)

Common(rec) == /\ Clause("table_lookups_agree", rec.agree)

Step(rec) ==
  CASE rec.act = "Subscribe" ->
         /\ Clause("subscribe_accepted", rec.res = "ok")
         /\ Clause("granted_within_request_and_maximum", rec.res = "ok" => GrantOK(rec.req, rec.granted))
         /\ Clause("no_notification_without_report", rec.sent = <<>>)
         /\ st' = IF rec.res = "ok"
                  THEN [st EXCEPT ![rec.id] = [issued |-> TRUE, owner |-> rec.c, filter |-> Rng(rec.f), started |-> rec.now,
                                               dur |-> rec.granted, errors |-> 0, unsub |-> FALSE, ended |-> FALSE,
                                               endTo |-> rec.endTo, unsubAt |-> 0, gone |-> FALSE]]
                  ELSE st
    [] rec.act \in {"Renew", "GetStatus", "Unsubscribe"} ->
         LET s == st[rec.id] IN
         /\ Clause("unknown_subscription_faults", ~s.issued => rec.res = "fault")
         /\ Clause("removed_subscription_faults", s.gone => rec.res = "fault")
         /\ Clause("removed_subscription_changes_nothing", s.gone => rec.table = Traces[tid][l].table)
         /\ Clause("unknown_subscription_changes_nothing", ~s.issued => rec.table = Traces[tid][l].table)
         /\ Clause("live_subscription_is_served", Alive(s, rec.now) => rec.res = "ok")
         /\ Clause("granted_within_request_and_maximum",
                   (rec.act = "Renew" /\ rec.res = "ok") => GrantOK(rec.req, rec.granted))
         /\ Clause("status_consistent_with_grant",
                   (rec.act = "GetStatus" /\ rec.res = "ok" /\ Alive(s, rec.now))
                      => (rec.remaining - (s.dur - (rec.now - s.started)) \in -100..100))
         /\ Clause("no_notification_without_report", rec.sent = <<>>)
         /\ st' = IF rec.res # "ok" THEN st
                  ELSE IF rec.act = "Renew" THEN [st EXCEPT ![rec.id].started = rec.now, ![rec.id].dur = rec.granted]
                  ELSE IF rec.act = "Unsubscribe" THEN [st EXCEPT ![rec.id].unsub = TRUE,
                                                                  \* (every accepted Unsubscribe restarts the grace period, as in Subscription.tla)
                                                                  ![rec.id].unsubAt = rec.now]
                  ELSE st
    [] rec.act = "Report" ->
         LET expect == {i \in Ids : Alive(st[i], rec.now) /\ rec.a \in st[i].filter}
             got == {x.id : x \in SentOf(rec, rec.a)}
             \* attempted: on the wire, or refused when the provider tried to open the connection
             attempted == got \cup {i \in expect : Refused(rec, st[i])} IN
         /\ Clause("delivered_to_every_live_matching_subscription", \A i \in expect : i \in attempted \/ Broken(rec, st[i]))
         /\ Clause("delivered_only_to_live_matching_subscriptions", got \subseteq expect)
         /\ Clause("delivered_once", Once(rec))
         /\ Clause("only_this_report", \A x \in Rng(rec.sent) : x.kind = rec.a /\ x.addr = "notify")
         /\ st' = [i \in Ids |-> IF i \in attempted
                                 THEN [st[i] EXCEPT !.errors = IF st[i].owner \in Rng(rec.fail) THEN @ + 1 ELSE 0]
                                 ELSE IF i \in expect THEN [st[i] EXCEPT !.errors = @ + 1]    \* failed locally
                                 ELSE st[i]]
    [] rec.act = "ReportDuring" ->
         \* rec.sent is in wire order; the event (Unsubscribe of rec.j / Tick) happened while the first notification was
         \* on its way: the first one was live before, every later one is live after the event, at its own send time
         LET st1 == IF rec.ev = "Unsubscribe" /\ st[rec.j].issued /\ rec.evres = "ok" THEN [st EXCEPT ![rec.j].unsub = TRUE, ![rec.j].unsubAt = rec.now]
                    \* a Subscribe served right after the subscribers were selected: a subscription from now on
                    ELSE IF rec.ev = "Subscribe" /\ rec.evres = "ok"
                      THEN [st EXCEPT ![rec.j] = [issued |-> TRUE, owner |-> rec.c, filter |-> Rng(rec.f), started |-> rec.now,
                                                  dur |-> rec.granted, errors |-> 0, unsub |-> FALSE, ended |-> FALSE,
                                                  endTo |-> rec.endTo, unsubAt |-> 0, gone |-> FALSE]]
                    ELSE st
             Match(s, i, t) == Alive(s[i], t) /\ rec.a \in s[i].filter
             got == {x.id : x \in SentOf(rec, rec.a)} IN
         /\ Clause("delivered_only_to_subscriptions_live_at_send_time",
                   \A k \in DOMAIN rec.sent :
                      IF k = 1 /\ rec.ev # "Subscribe" THEN Match(st, rec.sent[k].id, now) ELSE Match(st1, rec.sent[k].id, rec.now))
         /\ Clause("delivered_to_every_live_matching_subscription",
                   \A i \in Ids : (Match(st, i, now) /\ Match(st1, i, rec.now)) => (i \in got \/ Broken(rec, st[i])))
         /\ Clause("subscribe_accepted", rec.ev = "Subscribe" => (rec.evres = "ok" /\ GrantOK(rec.req, rec.granted)))
         /\ Clause("delivered_once", Once(rec))
         /\ Clause("only_this_report", \A x \in Rng(rec.sent) : x.kind = rec.a /\ x.addr = "notify")
         /\ st' = [i \in Ids |-> IF i \in got THEN [st1[i] EXCEPT !.errors = 0]
                                 ELSE IF Match(st, i, now) /\ Broken(rec, st[i]) THEN [st1[i] EXCEPT !.errors = @ + 1]
                                 ELSE st1[i]]
    [] rec.act = "Stop" ->
         LET live == {i \in Ids : Alive(st[i], rec.now)}
             ends == {x.id : x \in SentOf(rec, "End")} IN
         /\ Clause("end_to_every_live_subscription",
                   \* (real SoapClient: once a SubscriptionEnd exchange with an endpoint failed at socket level in this
                   \*  step, the pooled connection is closed and further messages to that endpoint are not transmitted)
                   rec.sendEnd => \A i \in live : \/ i \in ends
                                                   \/ (~st[i].endTo /\ Broken(rec, st[i]))
                                                   \/ (st[i].endTo /\ rec.real /\ st[i].owner \in Rng(rec.broke_end)))
         /\ Clause("no_end_when_switched_off", ~rec.sendEnd => rec.sent = <<>>)
         /\ Clause("end_exactly_once", Once(rec))
         /\ Clause("end_addressed_to_endto_else_notifyto",
                   \A x \in SentOf(rec, "End") : x.addr = IF st[x.id].endTo THEN "end" ELSE "notify")
         /\ Clause("only_end_messages", \A x \in Rng(rec.sent) : x.kind = "End")
         /\ st' = [i \in Ids |-> [st[i] EXCEPT !.ended = TRUE]]
    [] rec.act = "Housekeeping" ->
         /\ Clause("no_notification_without_report", rec.sent = <<>>)
         /\ Clause("housekeeping_removes_unsubscribed", \A i \in Ids : Removable(st[i], rec.now) => i \notin Rng(rec.table))
         /\ st' = [i \in Ids |-> IF Removable(st[i], rec.now) THEN [st[i] EXCEPT !.gone = TRUE] ELSE st[i]]
    [] OTHER ->   \* Tick
         /\ Clause("no_notification_without_report", rec.sent = <<>>)
         /\ st' = st

\* the connection to an endpoint is fresh again once the provider holds no subscription of that endpoint any more
ConnNext(rec) ==
  conn' = [c \in Clients |->
             IF rec.act = "Housekeeping"
             THEN conn[c] /\ (\E i \in Ids : st[i].issued /\ st[i].owner = c /\ i \in Rng(rec.table))
             ELSE conn[c] \/ (rec.real /\ c \in Rng(rec.broke))]

TraceInit == tid \in 1..Len(Traces) /\ l = 1 /\ st = [i \in Ids |-> NoSub] /\ now = 0 /\ conn = [c \in Clients |-> FALSE]
TraceNext == /\ l < Len(Traces[tid])
             /\ LET rec == Traces[tid][l + 1] IN Step(rec) /\ Common(rec) /\ ConnNext(rec) /\ now' = rec.now
             /\ l' = l + 1 /\ tid' = tid
TraceSpec == TraceInit /\ [][TraceNext]_<<tid, l, st, now, conn>>
View == <<tid, l>>
AllConsumed == TLCGet("distinct") = Total
=============================================================================
