--------------------------- MODULE EventingClient ---------------------------
(***************************************************************************)
(* The consumer side of WS-Eventing: sdc11073.consumer.subscription        *)
(* (ConsumerSubscription + ConsumerSubscriptionManager) composed with the   *)
(* event source as the provider's subscription manager really answers.      *)
(* Not one of the listed properties (C08 is the provider side); the model   *)
(* exists because the consumer's belief about its subscriptions is what     *)
(* every mirror (C01, C06) silently relies on.                              *)
(*                                                                         *)
(*   P[i]  the source's table: known (it holds an entry for i), exp (when   *)
(*         the entry expires), unsubAt (when it was unsubscribed, or -1)    *)
(*   C[i]  the client's belief: sub (is_subscribed), exp (expires_at),      *)
(*         granted (granted_expires)                                        *)
(*   tab   the subscriptions the client's manager holds (renew loop)        *)
(*                                                                         *)
(* Every request has a fate: "ok" - it reaches the source, which answers as *)
(* its table demands (Renew / GetStatus / Unsubscribe for an id it holds no *)
(* entry for: a fault; an entry that has expired or was unsubscribed but is *)
(* still in the table is served - a Renew revives it; that is what the code *)
(* does, and C08 deliberately demands neither); "status" - an HTTP error    *)
(* status comes back; "conn" - the connection breaks; "other" - any other   *)
(* exception in the transport.  One action per public call; the manager's   *)
(* loop body is one action (Round).  Every action is defined through the    *)
(* pure operator Effect, which the trace specification evaluates on the     *)
(* recorded pre-state of every step.                                        *)
(***************************************************************************)
EXTENDS Integers, Sequences, FiniteSets, TLC, Json

CONSTANTS Subs,       \* subscription ids, in the order the manager holds them (a sequence)
          ReqVals,    \* durations a Subscribe / Renew asks for (ticks)
          MaxDur,     \* the source never grants more
          MaxSteps

VARIABLES now, P, C, tab, hist
vars == <<now, P, C, tab, hist>>
view == <<now, P, C, tab>>

Ids == {Subs[k] : k \in DOMAIN Subs}
Fates == {"ok", "status", "conn", "other"}
Min(a, b) == IF a < b THEN a ELSE b
Max(a, b) == IF a > b THEN a ELSE b
NoP == [known |-> FALSE, exp |-> 0, unsubAt |-> -1]
NoC == [sub |-> FALSE, exp |-> 0, granted |-> 0]

Init == /\ now = 0 /\ P = [i \in Ids |-> NoP] /\ C = [i \in Ids |-> NoC] /\ tab = {} /\ hist = <<>>

\* state record the effects work on
St == [now |-> now, P |-> P, C |-> C, tab |-> tab]
NoOut == [ret |-> -1, raised |-> FALSE, sent |-> <<>>]
Out(s, ret, raised, sent) == [now |-> s.now, P |-> s.P, C |-> s.C, tab |-> s.tab, ret |-> ret, raised |-> raised, sent |-> sent]
Req(kind, i) == [kind |-> kind, i |-> i]

\* what a request meets: the fate of the transport, then the table of the source
Answer(s, i, fate) == IF fate = "ok" THEN (IF s.P[i].known THEN "ok" ELSE "fault") ELSE fate
Served(ans) == ans \in {"ok", "fault"}      \* the request reached the source

\* subscribe(): files the subscription in the manager, asks for d ticks.  The time is taken BEFORE the answer is
\* evaluated: the belief never outlives the grant.  A refusal (HTTP status) is logged, not raised.
SubscribeEff(s, i, d, fate) ==
  LET s1 == [s EXCEPT !.tab = @ \cup {i}, !.C[i] = NoC] IN
  IF fate = "ok"
  THEN LET g == Min(d, MaxDur) IN
       Out([s1 EXCEPT !.P[i] = [known |-> TRUE, exp |-> s.now + g, unsubAt |-> -1],
                      !.C[i] = [sub |-> TRUE, exp |-> s.now + g, granted |-> g]], -1, FALSE, <<Req("Subscribe", i)>>)
  ELSE Out(s1, -1, fate # "status", <<Req("Subscribe", i)>>)

\* renew(d): nothing is sent when the client does not believe in the subscription; any failure ends the belief
RenewEff(s, i, d, fate) ==
  IF ~s.C[i].sub THEN Out(s, 0, FALSE, <<>>)
  ELSE LET ans == Answer(s, i, fate) IN
       IF ans = "ok"
       THEN LET g == Min(d, MaxDur) IN
            Out([s EXCEPT !.P[i].exp = s.now + g, !.C[i].exp = s.now + g, !.C[i].granted = g], g, FALSE, <<Req("Renew", i)>>)
       ELSE Out([s EXCEPT !.C[i].sub = FALSE], 0, FALSE, <<Req("Renew", i)>>)

\* get_status(): the remaining time as the source sees it; any failure ends the belief
StatusEff(s, i, fate) ==
  IF ~s.C[i].sub THEN Out(s, 0, FALSE, <<>>)
  ELSE LET ans == Answer(s, i, fate) IN
       IF ans = "ok" THEN Out(s, Max(s.P[i].exp - s.now, 0), FALSE, <<Req("GetStatus", i)>>)
       ELSE Out([s EXCEPT !.C[i].sub = FALSE], 0, FALSE, <<Req("GetStatus", i)>>)

\* unsubscribe(): a failure is raised to the caller and the belief stays; the source keeps the entry (marked) until
\* its housekeeping removes it
UnsubEff(s, i, fate) ==
  IF ~s.C[i].sub THEN Out(s, -1, FALSE, <<>>)
  ELSE LET ans == Answer(s, i, fate) IN
       IF ans = "ok" THEN Out([s EXCEPT !.P[i].unsubAt = s.now, !.C[i].sub = FALSE], -1, FALSE, <<Req("Unsubscribe", i)>>)
       ELSE Out(s, -1, TRUE, <<Req("Unsubscribe", i)>>)

\* one iteration of the manager's flexible renew loop: every held subscription whose remaining time is at most half
\* of what was granted is renewed with the default duration (the source grants its maximum)
Due(s, i) == 2 * (s.C[i].exp - s.now) <= s.C[i].granted
RECURSIVE RoundFrom(_, _, _, _)
RoundFrom(k, fates, s, sent) ==
  IF k > Len(Subs) THEN Out(s, -1, FALSE, sent)
  ELSE LET i == Subs[k] IN
       IF i \in s.tab /\ Due(s, i)
       THEN LET e == RenewEff(s, i, MaxDur + 1, fates[i]) IN
            RoundFrom(k + 1, fates, [now |-> e.now, P |-> e.P, C |-> e.C, tab |-> e.tab], sent \o e.sent)
       ELSE RoundFrom(k + 1, fates, s, sent)

\* unsubscribe_all(): every held subscription is unsubscribed, failures are swallowed (the result says so), the
\* manager holds nothing afterwards
RECURSIVE UnsubAllFrom(_, _, _, _, _)
UnsubAllFrom(k, fates, s, sent, good) ==
  IF k > Len(Subs) THEN Out([s EXCEPT !.tab = {}], IF good THEN 1 ELSE 0, FALSE, sent)
  ELSE LET i == Subs[k] IN
       IF i \in s.tab
       THEN LET e == UnsubEff(s, i, fates[i]) IN
            UnsubAllFrom(k + 1, fates, [now |-> e.now, P |-> e.P, C |-> e.C, tab |-> e.tab], sent \o e.sent, good /\ ~e.raised)
       ELSE UnsubAllFrom(k + 1, fates, s, sent, good)

\* the source's own steps
Expired(s, i) == s.P[i].exp - s.now <= 0
Obsolete(s, i) == s.P[i].known /\ (Expired(s, i) \/ (s.P[i].unsubAt >= 0 /\ s.now > s.P[i].unsubAt + 1))
HousekeepEff(s) == Out([s EXCEPT !.P = [i \in Ids |-> IF Obsolete(s, i) THEN NoP ELSE s.P[i]]], -1, FALSE, <<>>)
\* the source ends everything it holds (shutdown before a restart): a SubscriptionEnd goes to every entry that was
\* not unsubscribed; the client's manager ends the belief of every subscription it still holds whose message arrives
Ended(s) == {i \in Ids : s.P[i].known /\ s.P[i].unsubAt < 0}
EndAllEff(s, delivered) ==
  Out([s EXCEPT !.P = [i \in Ids |-> NoP],
                !.C = [i \in Ids |-> IF i \in Ended(s) /\ i \in delivered /\ i \in s.tab THEN [s.C[i] EXCEPT !.sub = FALSE]
                                      ELSE s.C[i]]], -1, FALSE, <<>>)

Effect(s, a) ==
  CASE a.act = "Subscribe" -> SubscribeEff(s, a.i, a.d, a.fate)
    [] a.act = "Renew" -> RenewEff(s, a.i, a.d, a.fate)
    [] a.act = "GetStatus" -> StatusEff(s, a.i, a.fate)
    [] a.act = "Unsubscribe" -> UnsubEff(s, a.i, a.fate)
    [] a.act = "Round" -> RoundFrom(1, a.fates, s, <<>>)
    [] a.act = "UnsubscribeAll" -> UnsubAllFrom(1, a.fates, s, <<>>, TRUE)
    [] a.act = "Tick" -> Out([s EXCEPT !.now = @ + 1], -1, FALSE, <<>>)
    [] a.act = "Housekeeping" -> HousekeepEff(s)
    [] a.act = "EndAll" -> EndAllEff(s, a.delivered)

\* ------------------------------------------------------------------ actions
Do(a) == /\ Len(hist) < MaxSteps
         /\ LET e == Effect(St, a) IN now' = e.now /\ P' = e.P /\ C' = e.C /\ tab' = e.tab
         /\ hist' = Append(hist, a)

Subscribe(i, d, fate) == ~C[i].sub /\ ~P[i].known /\ fate \in {"ok", "status"}
                         /\ Do([act |-> "Subscribe", i |-> i, d |-> d, fate |-> fate])
Renew(i, d, fate) == i \in tab /\ Do([act |-> "Renew", i |-> i, d |-> d, fate |-> fate])
GetStatus(i, fate) == i \in tab /\ Do([act |-> "GetStatus", i |-> i, fate |-> fate])
Unsubscribe(i, fate) == i \in tab /\ Do([act |-> "Unsubscribe", i |-> i, fate |-> fate])
Round(fates) == tab # {} /\ Do([act |-> "Round", fates |-> fates])
UnsubscribeAll(fates) == tab # {} /\ Do([act |-> "UnsubscribeAll", fates |-> fates])
Tick == Do([act |-> "Tick"])
Housekeeping == (\E i \in Ids : Obsolete(St, i)) /\ Do([act |-> "Housekeeping"])
EndAll(delivered) == (\E i \in Ids : P[i].known) /\ Do([act |-> "EndAll", delivered |-> delivered])

FateMaps == [Ids -> {"ok", "status", "conn"}]
Next == \/ \E i \in Ids, d \in ReqVals, f \in Fates : Subscribe(i, d, f) \/ Renew(i, d, f)
        \/ \E i \in Ids, f \in Fates : GetStatus(i, f) \/ Unsubscribe(i, f)
        \/ Tick \/ Housekeeping
        \/ \E dl \in SUBSET Ids : EndAll(dl)
        \/ \E fm \in FateMaps : Round(fm) \/ UnsubscribeAll(fm)
Spec == Init /\ [][Next]_vars

\* ------------------------------------------------------------------ properties
TypeOK == /\ now \in Nat /\ tab \subseteq Ids
          /\ \A i \in Ids : C[i].sub \in BOOLEAN /\ P[i].known \in BOOLEAN /\ C[i].granted \in 0..MaxDur

Serving(i) == P[i].known /\ P[i].unsubAt < 0
\* the client never believes in a longer life than the source granted
BeliefNotLonger == \A i \in Ids : (C[i].sub /\ Serving(i)) => C[i].exp <= P[i].exp
\* the client believes only in what an accepted Subscribe granted
BeliefHasCause == \A i \in Ids : C[i].sub => C[i].granted \in 1..MaxDur
\* a subscription the source holds no entry for is found out by the next Renew / GetStatus, whatever its fate
FoundOut == [][\A i \in Ids : (C[i].sub /\ ~P[i].known) =>
                 \A d \in ReqVals, f \in Fates : (Renew(i, d, f) \/ GetStatus(i, f)) => ~C'[i].sub]_vars
\* belief only ends; it never starts again without an accepted Subscribe
NoResurrection == [][\A i \in Ids : (~C[i].sub /\ C'[i].sub) => \E d \in ReqVals : Subscribe(i, d, "ok")]_vars
\* a round keeps alive what it can reach in time: due + served + answered => believed and extended to the maximum
RoundKeepsAlive == [][\A fm \in FateMaps : Round(fm) =>
                        \A i \in tab : (C[i].sub /\ Due(St, i) /\ P[i].known /\ fm[i] = "ok") =>
                                          (C'[i].sub /\ C'[i].exp = now + MaxDur /\ P'[i].exp = now + MaxDur)]_vars
\* nothing is ever sent for a subscription the client does not believe in (Subscribe excepted)
QuietWhenEnded == \A a \in {[act |-> x, i |-> i, d |-> 1, fate |-> "ok"] : x \in {"Renew", "GetStatus", "Unsubscribe"}, i \in Ids} :
                     ~C[a.i].sub => Effect(St, a).sent = <<>>

Emit == (Len(hist) = MaxSteps) => PrintT(<<"BEH", ToJson(hist)>>)
=============================================================================
