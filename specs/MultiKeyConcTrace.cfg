SPECIFICATION TraceSpec
POSTCONDITION AllConsumed
