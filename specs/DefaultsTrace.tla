--------------------------- MODULE DefaultsTrace ---------------------------
(* Batch validation of recorded executions of the real sdc11073 classes against   *)
(* Defaults.tla.  One trace = one history replayed for one (class, member) pair;   *)
(* every record carries what the application can observe after the call:          *)
(*   live   instances held,                                                        *)
(*   val    abstract value (canonical form) of the member of every instance,       *)
(*   ref    identity of the mutable objects the member value consists of: own      *)
(*          number = all private, number of a lower instance = at least one python *)
(*          object in common with it, 0 = in common with the class default,        *)
(*   fresh  value of the member of a cls() constructed after the call.             *)
(* The recorded state is bound to the variables of Defaults.tla and each step is   *)
(* judged with the operators of Defaults.tla; a failing clause is named in a       *)
(* REJECT line and validation goes on with the recorded state.                     *)
EXTENDS Defaults, IOUtils

VARIABLES tid, l

Data == JsonDeserialize(IOEnv.TRACE_FILE)
Traces == Data.traces

Rng(s) == {s[k] : k \in DOMAIN s}

Clause(name, cond) == IF cond THEN TRUE ELSE PrintT(<<"REJECT", tid, l + 1, name>>)

\* Binding: the values are bound through private cells (an instance may share only a PART of its value
\* with another one, so values of sharers may differ); the recorded identities are judged by NoSharingIn.
LiveOf(rec) == Rng(rec.live)
SharesOf(rec) == [i \in Inst |-> rec.ref[i]]
OwnCells == [i \in Inst |-> i]
HeapOf(rec) == [c \in Cells |-> IF c = Dflt THEN rec.fresh
                                ELSE IF c \in LiveOf(rec) THEN rec.val[c] ELSE D0]

TraceInit == /\ tid \in 1..Len(Traces)
             /\ l = 1
             /\ hist = <<>>
             /\ LET rec == Traces[tid][1] IN
                  /\ live = LiveOf(rec) /\ ref = OwnCells /\ heap = HeapOf(rec)
                  /\ IF live = {} /\ DefaultStable THEN TRUE ELSE PrintT(<<"REJECT", tid, 1, "default_stable">>)

StepOK(rec) ==
  CASE rec.act = "New" -> ObsNew(rec.i)
    [] rec.act = "ParseAbsent" -> ObsParseAbsent(rec.i)
    [] rec.act = "ParsePresent" -> ObsParsePresent(rec.i, rec.v)
    [] rec.act \in {"DeepCopy", "MkCopy"} -> ObsCopy(rec.s, rec.i)
    [] rec.act = "UpdateFrom" -> ObsUpdateFrom(rec.s, rec.i)
    [] rec.act = "MutateNested" -> ObsMutate(rec.i, rec.v)
    [] rec.act = "Drop" -> ObsDrop(rec.i)
    [] OTHER -> FALSE

TraceNext == /\ l < Len(Traces[tid])
             /\ LET rec == Traces[tid][l + 1] IN
                  /\ live' = LiveOf(rec) /\ ref' = OwnCells /\ heap' = HeapOf(rec)
                  /\ Clause("step", StepOK(rec))
                  /\ Clause("isolated", Others(rec.i))
                  /\ Clause("default_untouched", heap'[Dflt] = heap[Dflt])
                  /\ Clause("default_stable", DefaultStable')
                  /\ Clause("no_sharing", NoSharingIn(LiveOf(rec), SharesOf(rec)))
             /\ l' = l + 1 /\ tid' = tid /\ hist' = hist

TraceSpec == TraceInit /\ [][TraceNext]_<<vars, tid, l>>

Total == Data.total
AllConsumed == TLCGet("distinct") = Total
=============================================================================
