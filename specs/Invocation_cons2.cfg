SPECIFICATION CSpec
CONSTANTS
  MaxReq = 0
  Tx = {1, 2}
  Shapes <- Shapes2
INVARIANT CompletesOnce
INVARIANT NeverTwice
CONSTRAINT CEmit
