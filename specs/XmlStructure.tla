------------------------------ MODULE XmlStructure ------------------------------
(***************************************************************************)
(* C05 - BICEPS / WS-* data types round-trip losslessly through XML.       *)
(*                                                                         *)
(* Reference semantics of the DESCRIPTOR ALGEBRA of                        *)
(* sdc11073/xml_types/xml_structure.py: a data type is a sequence of       *)
(* declared members; every member is declared by a property descriptor     *)
(*   p = [k  : kind of the descriptor (where / how the value lives in XML),*)
(*        opt: is_optional,                                                *)
(*        df : "none" | "default" | "implied"  (default_py_value /         *)
(*             implied_py_value of the declaration),                       *)
(*        ml : min_length (node text only),                                *)
(*        slf: the member is the node itself (sub_element_name = None),    *)
(*        st : the scalar is a string (empty text reads as '')]            *)
(* and holds an abstract value v; Write(p, v) is the abstract XML of the   *)
(* member, Read(p, x) the value read from abstract XML, Get(p, v) what the *)
(* python getter shows (implied value for a missing one).                  *)
(*                                                                         *)
(* abstract value  [t, id, x, items]:                                      *)
(*   t = "none"                      no value (python None)                *)
(*   t = "sc",  id                   scalar: "a" "b" some values, "bd" a   *)
(*                                   boundary value, "d" / "i" the declared*)
(*                                   default / implied value, "e" the empty*)
(*                                   string, "now" the clock               *)
(*   t = "obj", id, x                object of the declared class (x: of a *)
(*                                   derived class -> xsi:type); id "h":   *)
(*                                   holder object of a list (items)       *)
(*   t = "list", items               list of item ids ("..X" substituted)  *)
(* abstract XML of one member [n, ids, x]: n XML nodes (attribute or child *)
(* elements) carrying the content ids; n = 0: the part is absent.          *)
(*                                                                         *)
(* The behaviour is trivial (Init picks any case, nothing changes): TLC    *)
(* visits every (descriptor x value class) combination, checks the laws    *)
(* RT1 / RT2 / Absent of the reference on it and prints it (Emit) for the  *)
(* harness that instantiates it on every concrete member of every class of *)
(* the library.  XmlStructureTrace.tla judges the recorded results of the  *)
(* real round trips with the operators defined here.                       *)
(***************************************************************************)
EXTENDS Integers, Sequences, FiniteSets, TLC, Json

VARIABLE case

\* ------------------------------------------------------------------ kinds
ScalarKinds == {"attr", "nodetext", "nodeqname", "dob"}
ObjKinds    == {"sub", "container"}
PackKinds   == {"attrlist", "wordlist", "qnamelist"}      \* one XML node holds all items, blank separated
EachKinds   == {"textlist", "sublist", "containerlist"}   \* one child element per item
WrapKinds   == {"ext", "anylist", "anynode"}              \* one wrapper element, the items are its children
ListKinds   == PackKinds \cup EachKinds \cup WrapKinds
Kinds       == ScalarKinds \cup ObjKinds \cup ListKinds \cup {"subwithlist", "curtime"}

\* what the constructors of xml_structure.py allow / fix
WellFormed(p) ==
  /\ (p.df = "implied" => p.opt)
  /\ (p.ml = 1 => p.k = "nodetext")
  /\ (p.st => p.k \in {"attr", "nodetext"})
  /\ (p.slf => p.k \in {"nodetext", "wordlist", "anylist", "anynode", "container"})
  /\ (p.slf /\ p.k = "nodetext" => p.st /\ ~p.opt)
  /\ (p.slf => p.df = "none")                            \* the node itself cannot be absent
  /\ (p.k \in ListKinds \cup {"curtime", "nodeqname"} => p.df = "none")
  /\ (p.k = "subwithlist" => p.df = "default" /\ ~p.opt)
  /\ (p.k \in {"ext", "attrlist", "curtime"} => p.opt)
  /\ (p.k \in ObjKinds => p.df # "implied")

Descr == {p \in [k : Kinds, opt : BOOLEAN, df : {"none", "default", "implied"}, ml : {0, 1},
                 slf : BOOLEAN, st : BOOLEAN] : WellFormed(p)}

\* ------------------------------------------------------------------ values
None       == [t |-> "none", id |-> "-", x |-> FALSE, items |-> <<>>]
Sc(id)     == [t |-> "sc", id |-> id, x |-> FALSE, items |-> <<>>]
Obj(id, x) == [t |-> "obj", id |-> id, x |-> x, items |-> <<>>]
Lst(items) == [t |-> "list", id |-> "-", x |-> FALSE, items |-> items]
Holder(items) == [t |-> "obj", id |-> "h", x |-> FALSE, items |-> items]

IsListy(p) == p.k \in ListKinds
D(p) == IF p.k = "subwithlist" THEN Holder(<<>>) ELSE IF p.k \in ObjKinds THEN Obj("d", FALSE) ELSE Sc("d")
I(p) == IF p.k \in ObjKinds THEN Obj("i", FALSE) ELSE Sc("i")

\* value classes of a descriptor ("stripped": written with a value, then the part is removed from the XML)
CanBeNone(p) == p.opt
CanStrip(p) == p.opt \/ p.df = "default"
VCs(p) ==
  CASE p.k = "curtime" -> {"init"}
    [] p.k \in ScalarKinds ->
         {"one", "two", "bound"}
         \cup (IF p.opt \/ p.df = "default" THEN {"init"} ELSE {})
         \cup (IF CanBeNone(p) THEN {"absent"} ELSE {})
         \cup (IF CanStrip(p) THEN {"stripped"} ELSE {})
         \cup (IF p.df # "none" THEN {"eqd"} ELSE {})
    [] p.k \in ObjKinds ->
         {"one", "full", "xsi"}
         \cup (IF p.opt \/ p.df = "default" THEN {"init"} ELSE {})
         \cup (IF CanBeNone(p) THEN {"absent"} ELSE {})
         \cup (IF CanStrip(p) THEN {"stripped"} ELSE {})
         \cup (IF p.df # "none" THEN {"eqd"} ELSE {})
    [] p.k = "anynode" ->
         {"one", "many"} \cup (IF p.opt THEN {"init", "absent", "stripped"} ELSE {})
    [] p.k \in ListKinds ->
         {"init", "empty", "one", "many"}
         \cup (IF p.k \in {"sublist", "containerlist"} THEN {"xsi"} ELSE {})
         \* items at the border of the item value space (for string items: text with non-XML white space - NBSP, EM SPACE,
         \* NEL, LINE SEPARATOR - which is ONE item of an xsd:list: only #x20 #x9 #xA #xD separate items)
         \cup (IF p.k \in {"attrlist", "textlist"} THEN {"bound"} ELSE {})
         \cup (IF CanBeNone(p) THEN {"absent", "stripped"} ELSE {})
    [] p.k = "subwithlist" -> {"init", "empty", "one", "many", "stripped"}

\* the python value of a value class
Val(p, vc) ==
  CASE vc = "init" -> IF p.df = "default" THEN D(p)
                      ELSE IF IsListy(p) /\ p.k # "anynode" THEN Lst(<<>>) ELSE None
    [] vc \in {"absent", "stripped"} -> None
    [] vc = "eqd" -> IF p.df = "default" THEN D(p) ELSE I(p)
    [] vc = "empty" -> IF p.k = "subwithlist" THEN Holder(<<>>) ELSE Lst(<<>>)
    [] vc = "one" -> IF p.k = "subwithlist" THEN Holder(<<"a">>)
                     ELSE IF IsListy(p) THEN Lst(<<"a">>)
                     ELSE IF p.k \in ObjKinds THEN Obj("a", FALSE) ELSE Sc("a")
    [] vc = "many" -> IF p.k = "subwithlist" THEN Holder(<<"a", "b">>) ELSE Lst(<<"a", "b">>)
    [] vc = "two" -> Sc("b")
    [] vc = "bound" -> IF IsListy(p) THEN Lst(<<"bd", "b">>) ELSE Sc("bd")
    [] vc = "full" -> Obj("f", FALSE)
    [] vc = "xsi" -> IF IsListy(p) THEN Lst(<<"a", "bX">>) ELSE Obj("a", TRUE)

\* ------------------------------------------------------------ Write / Read
Part(n, ids, x) == [n |-> n, ids |-> ids, x |-> x]
\* XML in which the part is absent (a member that is the node itself cannot be absent: it is empty then)
NoXml(p) == IF p.slf THEN Part(1, <<>>, FALSE) ELSE Part(0, <<>>, FALSE)

\* an optional member that holds (a value equal to) its declared default is left out: only then
\* "absent reads as the default" (Absent) and "second write = first write" (RT2) hold together
OmitDefault(p, v) == p.opt /\ p.df = "default" /\ v.id = "d"

Write(p, v) ==
  IF p.k = "curtime" THEN Part(1, <<"now">>, FALSE)
  ELSE IF v.t = "none" THEN NoXml(p)
  ELSE IF p.k \in ScalarKinds \cup ObjKinds
       THEN IF OmitDefault(p, v) THEN NoXml(p)
            ELSE Part(1, IF v.id = "e" THEN <<>> ELSE <<v.id>>, v.x)
  ELSE IF p.k \in PackKinds
       THEN IF v.items = <<>> THEN (IF p.opt THEN NoXml(p) ELSE Part(1, <<>>, FALSE)) ELSE Part(1, v.items, FALSE)
  ELSE IF p.k \in EachKinds THEN Part(Len(v.items), v.items, FALSE)
  ELSE \* WrapKinds, subwithlist: the wrapper exists only if there is something to wrap
       IF v.items = <<>> THEN NoXml(p) ELSE Part(1, v.items, FALSE)

\* the value of a member whose part is missing in the XML
Missing(p) == IF p.df = "default" THEN D(p) ELSE IF IsListy(p) THEN Lst(<<>>) ELSE None

Read(p, x) ==
  IF p.k = "curtime" THEN Sc("now")
  ELSE IF x.n = 0 THEN Missing(p)
  ELSE IF p.k \in ScalarKinds
       THEN IF x.ids = <<>> THEN (IF p.st THEN Sc("e") ELSE None) ELSE Sc(x.ids[1])
  ELSE IF p.k \in ObjKinds THEN (IF x.ids = <<>> THEN Missing(p) ELSE Obj(x.ids[1], x.x))
  ELSE IF p.k = "subwithlist" THEN Holder(x.ids)
  ELSE Lst(x.ids)

\* what the getter shows
Get(p, v) == IF v.t = "none" /\ p.df = "implied" THEN I(p) ELSE v

\* representative of the class of values that denote the same content
Canon(p, v) ==
  IF p.k = "curtime" THEN Sc("now")
  ELSE LET g == Get(p, v) IN
       IF g.t # "none" THEN g
       ELSE IF p.df = "default" THEN D(p)
       ELSE IF IsListy(p) THEN Lst(<<>>)
       ELSE IF p.k = "nodetext" /\ p.st /\ p.slf THEN Sc("e")
       ELSE None

\* ------------------------------------------------------------------- laws
Cases == UNION {{[p |-> p, vc |-> vc] : vc \in VCs(p)} : p \in Descr}

RT1(c) == LET v == Val(c.p, c.vc) IN
          c.vc # "stripped" => Get(c.p, Read(c.p, Write(c.p, v))) = Canon(c.p, v)
RT2(c) == LET v == Val(c.p, c.vc)
              x == Write(c.p, v) IN
          c.vc # "stripped" => Write(c.p, Read(c.p, x)) = x
Absent(c) == c.vc \in {"absent", "stripped"} =>
               /\ Get(c.p, Read(c.p, NoXml(c.p))) = Canon(c.p, None)
               /\ (c.p.df = "implied" => Get(c.p, Read(c.p, NoXml(c.p))) = I(c.p))
               /\ (c.p.df = "default" => Get(c.p, Read(c.p, NoXml(c.p))) = D(c.p))
\* canonical values are fixpoints, and writing the canonical value is writing the value
Idem(c) == LET v == Val(c.p, c.vc) IN
           /\ Canon(c.p, Canon(c.p, v)) = Canon(c.p, v)
           /\ (c.p.k # "curtime" => Write(c.p, Canon(c.p, v)) = Write(c.p, Get(c.p, Read(c.p, Write(c.p, v)))))

LawRT1 == RT1(case)
LawRT2 == RT2(case)
LawAbsent == Absent(case)
LawIdem == Idem(case)

Emit == PrintT(<<"CASE", ToJson(case)>>)

Init == case \in Cases
Next == UNCHANGED case
Spec == Init /\ [][Next]_case
=============================================================================
