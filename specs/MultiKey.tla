------------------------------ MODULE MultiKey ------------------------------
(***************************************************************************)
(* Operational model of sdc11073.multikey.MultiKeyLookup: a set of objects *)
(* plus secondary indices that must always agree with a scan (C11).        *)
(*                                                                         *)
(* Objects carry a mutable attribute vector                                *)
(*    u : unique key           (Handle / DescriptorHandle / identifier)    *)
(*    g : group key or "None"  (parent_handle, DescriptorHandle of ctx)    *)
(*    c : group key, "None" or "NA" (ConditionSignaled; NA = no attribute) *)
(*    m : set of keys, or {"None"} / {"NA"}  (AlertCondition Source list)  *)
(* Index kinds, as used by the code:                                       *)
(*    by_u  UIndexDefinition(u)                                            *)
(*    by_g  IndexDefinition(g)              None is indexed                *)
(*    by_c  IndexDefinition(c, index_none_values=False)                    *)
(*    by_m  IndexDefinition1n(m, index_none_values=False)                  *)
(***************************************************************************)
EXTENDS Naturals, Sequences, FiniteSets, TLC, Json

CONSTANTS O,        \* object ids (strings)
          K,        \* key values (strings)
          CDom,     \* CDom[o] : allowed values of attribute c for object o
          MDom,     \* MDom[o] : allowed values of attribute m for object o (sets of keys)
          Indices,  \* names of the indices the table has (subset of by_u, by_g, by_c, by_m)
          MaxOps    \* bound on history length

VARIABLES objs,     \* set of stored objects
          attr,     \* attr[o] = [u, g, c, m]  current attribute values (mutable outside the table)
          idx,      \* idx[i][k] = set of objects filed under key k in index i
          hist      \* action history (behaviour emission only; hidden by VIEW in the exhaustive cfg)

vars == <<objs, attr, idx, hist>>
view == <<objs, attr, idx>>

NoneK == "None"
NA == "NA"
AllKeys == K \cup {NoneK}

\* keys under which the code files an object in an index (scan semantics of the property)
KeysOf(i, a) ==
  CASE i = "by_u" -> {a.u}
    [] i = "by_g" -> {a.g}
    [] i = "by_c" -> IF a.c \in {NoneK, NA} THEN {} ELSE {a.c}
    [] i = "by_m" -> IF a.m = {NoneK} \/ a.m = {NA} THEN {} ELSE a.m

Scan(os, at) == [i \in Indices |-> [k \in AllKeys |-> {o \in os : k \in KeysOf(i, at[o])}]]

Agree == idx = Scan(objs, attr)

AttrDom(o) == [u : K, g : AllKeys, c : CDom[o], m : MDom[o]]

EmptyIdx == [i \in Indices |-> [k \in AllKeys |-> {}]]

Init == /\ objs = {}
        /\ attr \in {f \in [O -> UNION {AttrDom(o) : o \in O}] : \A o \in O : f[o] \in AttrDom(o)}
        /\ idx = EmptyIdx
        /\ hist = <<[act |-> "Init", res |-> "ok", a |-> attr]>>

File(ix, o, a) == [i \in Indices |-> [k \in AllKeys |-> IF k \in KeysOf(i, a) THEN ix[i][k] \cup {o} ELSE ix[i][k]]]
Unfile(ix, o) == [i \in Indices |-> [k \in AllKeys |-> ix[i][k] \ {o}]]

UFree(o, key) == \A p \in objs \ {o} : attr[p].u # key

Log(rec) == hist' = Append(hist, rec)

AddCore(o) == /\ o \notin objs /\ UFree(o, attr[o].u)
              /\ objs' = objs \cup {o}
              /\ idx' = File(idx, o, attr[o])
              /\ UNCHANGED attr
Add(o) == AddCore(o) /\ Log([act |-> "Add", o |-> o, res |-> "ok"])

\* unique key already present: the insertion is rejected and the table stays as it was
AddRejectedCore(o) == /\ o \notin objs /\ ~UFree(o, attr[o].u)
                      /\ UNCHANGED <<objs, attr, idx>>
AddRejected(o) == AddRejectedCore(o) /\ Log([act |-> "Add", o |-> o, res |-> "rejected"])

AddAgainCore(o) == o \in objs /\ UNCHANGED <<objs, attr, idx>>
AddAgain(o) == /\ AddAgainCore(o)
               /\ Log([act |-> "Add", o |-> o, res |-> "ok"])

RemoveCore(o) == /\ o \in objs
                 /\ objs' = objs \ {o}
                 /\ idx' = Unfile(idx, o)
                 /\ UNCHANGED attr
Remove(o) == /\ RemoveCore(o)
             /\ Log([act |-> "Remove", o |-> o, res |-> "ok"])

RemoveAbsentCore(o) == o \notin objs /\ UNCHANGED <<objs, attr, idx>>
RemoveAbsent(o) == /\ RemoveAbsentCore(o)
                   /\ Log([act |-> "Remove", o |-> o, res |-> "ok"])

\* application mutates attributes of a stored (or not yet stored) object, then calls update_object
\* (the unique key of a stored object only moves to a free key: precondition of the API)
OneFieldChanged(a, b) == Cardinality({f \in {"u", "g", "c", "m"} : a[f] # b[f]}) = 1
UpdateCore(o, a) == /\ a \in AttrDom(o) /\ OneFieldChanged(a, attr[o])
                    /\ (o \in objs => UFree(o, a.u))
                    /\ attr' = [attr EXCEPT ![o] = a]
                    /\ IF o \in objs THEN idx' = File(Unfile(idx, o), o, a) ELSE UNCHANGED idx
                    /\ UNCHANGED objs
Update(o, a) == /\ UpdateCore(o, a)
                /\ Log([act |-> "Update", o |-> o, a |-> [u |-> a.u, g |-> a.g, c |-> a.c, m |-> a.m], res |-> "ok"])

\* the application moved the unique key of a STORED object onto a key that another stored object owns and calls
\* update_object: the unique index refuses it (KeyError).  The code gives the object up (it is no longer stored);
\* what the property demands is only that lookups and scan still agree afterwards.
UpdateRejectedCore(o, a) == /\ a \in AttrDom(o) /\ OneFieldChanged(a, attr[o])
                            /\ o \in objs /\ ~UFree(o, a.u)
                            /\ attr' = [attr EXCEPT ![o] = a]
                            /\ objs' = objs \ {o}
                            /\ idx' = Unfile(idx, o)
UpdateRejected(o, a) == /\ UpdateRejectedCore(o, a)
                        /\ Log([act |-> "Update", o |-> o, a |-> [u |-> a.u, g |-> a.g, c |-> a.c, m |-> a.m], res |-> "rejected"])

ClearCore == objs # {} /\ objs' = {} /\ idx' = EmptyIdx /\ UNCHANGED attr
Clear == /\ ClearCore
         /\ Log([act |-> "Clear", res |-> "ok"])

Next == \/ \E o \in O : Add(o) \/ AddRejected(o) \/ AddAgain(o) \/ Remove(o) \/ RemoveAbsent(o)
        \/ \E o \in O : \E a \in AttrDom(o) : Update(o, a) \/ UpdateRejected(o, a)
        \/ Clear

Spec == Init /\ [][Next]_vars

\* ---- properties -------------------------------------------------------------
RejectIsNoop == [][\A o \in O : AddRejected(o) => UNCHANGED <<objs, attr, idx>>]_vars
UniqueU == \A p, q \in objs : p # q => attr[p].u # attr[q].u
Bounded == Len(hist) <= MaxOps + 1

\* ---- behaviour emission -------------------------------------------------------
SetAsSeq(S) == CHOOSE s \in [1..Cardinality(S) -> S] : \A i, j \in 1..Cardinality(S) : i # j => s[i] # s[j]
AttrJson(a) == [u |-> a.u, g |-> a.g, c |-> a.c, m |-> SetAsSeq(a.m)]
HistJson == [i \in 1..Len(hist) |->
               IF hist[i].act = "Update" THEN [hist[i] EXCEPT !.a = AttrJson(@)]
               ELSE IF hist[i].act = "Init" THEN [act |-> "Init", res |-> "ok", a |-> [o \in O |-> AttrJson(hist[i].a[o])]]
               ELSE hist[i]]
EmitAt(d) == (Len(hist) = d) => PrintT(<<"BEH", ToJson(HistJson)>>)
EmitLeaf == Bounded /\ EmitAt(MaxOps + 1)
=============================================================================
