------------------------------- MODULE Mirror -------------------------------
(***************************************************************************)
(* Provider report log + consumer MDIB update rules (consumermdib.py),     *)
(* with an explicit channel: any report may be delivered at any time, any  *)
(* number of times (drop, duplicate, reorder, replay), the provider may    *)
(* restart with a new SequenceId, and the consumer may (re)load while      *)
(* reports arrive.  Serves C06 and the in-order special case of C01.       *)
(*                                                                         *)
(* A report is one commit of the provider: [ver, ep, kind, upd, del, crt]  *)
(*   upd : handle -> new StateVersion (states carried by the report)       *)
(*   kind "state" = episodic state report (StateVersion gate applies)      *)
(*   kind "descr" = description modification report (no state gate)        *)
(***************************************************************************)
EXTENDS Integers, Sequences, FiniteSets, TLC, Json

CONSTANTS Hs,        \* state handles
          Dyn,       \* handles that can be deleted / re-created by description modifications
          MaxCommits, MaxDeliver, MaxEpoch

VARIABLES p,     \* provider: [ver, ep, S : h -> version or -1 (absent), last : h -> last version before deletion]
          log,   \* sequence of reports
          pub,   \* pub[ep][h] : set of StateVersions the provider published for h in epoch ep
          c,     \* consumer: [phase, ver, ep, S, buf, snapAt]
          nd,    \* number of deliveries so far
          hist

vars == <<p, log, pub, c, nd, hist>>
view == <<p, log, pub, c, nd>>

Absent == -1
NoSnap == [ver |-> -1, ep |-> -1, S |-> <<>>]
Log(rec) == hist' = Append(hist, rec)

InitP == [ver |-> 0, ep |-> 0, S |-> [h \in Hs |-> IF h \in Dyn THEN Absent ELSE 0], last |-> [h \in Hs |-> Absent]]
Init == /\ p = InitP
        /\ log = <<>>
        /\ pub = [e \in 0..MaxEpoch |-> [h \in Hs |-> IF e = 0 /\ h \notin Dyn THEN {0} ELSE {}]]
        /\ c = [phase |-> "initialized", ver |-> 0, ep |-> 0, S |-> InitP.S, buf |-> <<>>, snap |-> NoSnap, clean |-> TRUE, exp |-> 1, seen |-> {}, late |-> <<>>]
        /\ nd = 0 /\ hist = <<>>

Present(S) == {h \in Hs : S[h] # Absent}
Publish(pb, e, upd) == [pb EXCEPT ![e] = [h \in Hs |-> IF h \in DOMAIN upd THEN @[h] \cup {upd[h]} ELSE @[h]]]

\* ---------------------------------------------------------------- provider
CommitState(hs) ==
  /\ Len(log) < MaxCommits /\ hs # {} /\ hs \subseteq Present(p.S)
  /\ LET upd == [h \in hs |-> p.S[h] + 1] IN
       /\ p' = [p EXCEPT !.ver = @ + 1, !.S = [h \in Hs |-> IF h \in hs THEN upd[h] ELSE @[h]]]
       /\ log' = Append(log, [ver |-> p.ver + 1, ep |-> p.ep, kind |-> "state", upd |-> upd, del |-> {}, crt |-> {}, w |-> FALSE])
       /\ pub' = Publish(pub, p.ep, upd)
  /\ UNCHANGED <<c, nd>>
  /\ Log([act |-> "CommitState", hs |-> hs])

\* description update of an existing handle: the report carries the state with its new version
CommitDescrUpdate(h) ==
  /\ Len(log) < MaxCommits /\ h \in Present(p.S)
  /\ LET upd == (h :> p.S[h] + 1) IN
       /\ p' = [p EXCEPT !.ver = @ + 1, !.S[h] = @ + 1]
       /\ log' = Append(log, [ver |-> p.ver + 1, ep |-> p.ep, kind |-> "descr", upd |-> upd, del |-> {}, crt |-> {}, w |-> FALSE])
       /\ pub' = Publish(pub, p.ep, upd)
  /\ UNCHANGED <<c, nd>>
  /\ Log([act |-> "CommitDescrUpdate", h |-> h])

CommitDelete(h) ==
  /\ Len(log) < MaxCommits /\ h \in Dyn /\ h \in Present(p.S)
  /\ p' = [p EXCEPT !.ver = @ + 1, !.S[h] = Absent, !.last[h] = p.S[h]]
  /\ log' = Append(log, [ver |-> p.ver + 1, ep |-> p.ep, kind |-> "descr", upd |-> <<>>, del |-> {h}, crt |-> {}, w |-> FALSE])
  /\ UNCHANGED <<pub, c, nd>>
  /\ Log([act |-> "CommitDelete", h |-> h])

\* w: the same descriptor transaction also updates another (untracked, static) descriptor whose indexed attribute
\* changes - the DescriptionModificationReport then has an Upt part in front of the Crt part
CommitCreate(h, w) ==
  /\ Len(log) < MaxCommits /\ h \in Dyn /\ h \notin Present(p.S)
  /\ LET v == IF p.last[h] = Absent THEN 0 ELSE p.last[h] + 1
         upd == (h :> v) IN
       /\ p' = [p EXCEPT !.ver = @ + 1, !.S[h] = v]
       /\ log' = Append(log, [ver |-> p.ver + 1, ep |-> p.ep, kind |-> "descr", upd |-> upd, del |-> {}, crt |-> {h}, w |-> w])
       /\ pub' = Publish(pub, p.ep, upd)
  /\ UNCHANGED <<c, nd>>
  /\ Log([act |-> "CommitCreate", h |-> h, w |-> w])

\* provider restarts: new SequenceId, all counters start again
Restart(k) ==
  /\ p.ep < MaxEpoch /\ Len(log) < MaxCommits
  /\ p' = [InitP EXCEPT !.ep = p.ep + 1]
  /\ pub' = [pub EXCEPT ![p.ep + 1] = [h \in Hs |-> IF h \in Dyn THEN {} ELSE {0}]]
  /\ UNCHANGED <<log, c, nd>>
  /\ Log([act |-> "Restart", k |-> k])

\* ---------------------------------------------------------------- consumer (written like consumermdib.py)
ApplyState(S, upd) == [h \in Hs |-> IF h \in DOMAIN upd
                                    THEN (IF S[h] = Absent THEN upd[h]                \* "got a new state": added
                                          ELSE IF upd[h] - S[h] >= 1 THEN upd[h]      \* _has_new_state_usable_state_version
                                          ELSE S[h])
                                    ELSE S[h]]
ApplyDescr(S, r) == [h \in Hs |-> IF h \in r.del THEN Absent
                                  ELSE IF h \in DOMAIN r.upd THEN r.upd[h]           \* no StateVersion gate
                                  ELSE S[h]]
Handle(cc, r) ==   \* _process_incoming_*: MdibVersion gate (>=), then parts
  IF r.ver < cc.ver THEN cc
  ELSE [cc EXCEPT !.ver = r.ver,
                  !.S = IF r.kind = "state" THEN ApplyState(cc.S, r.upd) ELSE ApplyDescr(cc.S, r)]

Receive(cc, r) ==  \* _pre_check_report_ok + handler
  IF r.ep # cc.ep /\ cc.phase = "initialized" THEN [cc EXCEPT !.phase = "invalid"]
  ELSE IF cc.phase = "invalid" THEN cc
  ELSE IF cc.phase = "initializing" THEN [cc EXCEPT !.buf = Append(@, r)]
  ELSE Handle(cc, r)

\* situation label of a delivery (the drivers replay a cover of all labels TLC reaches, not a random sample)
DSit(i) ==
  LET r == log[i] IN
  {"R:" \o r.kind \o ":" \o c.phase \o ":"
     \o (IF r.ep # c.ep THEN "otherepoch" ELSE IF i \in c.seen THEN "dup" ELSE IF r.ver < c.ver THEN "stale"
         ELSE IF r.ver = c.ver THEN "same" ELSE IF r.ver = c.ver + 1 THEN "next" ELSE "gap")
     \o ":" \o (IF r.crt # {} THEN (IF \E h \in r.crt : c.S[h] # Absent THEN "crt-existing" ELSE "crt-new")
                ELSE IF r.del # {} THEN (IF \E h \in r.del : c.S[h] = Absent THEN "del-absent" ELSE "del") ELSE "upd")
     \o ":" \o (IF r.w THEN "with-update-part" ELSE "-")}
  \* test purpose: a description report that is accepted, whose first part updates a descriptor and whose create part
  \* names a handle the consumer still has (the delete report was lost): the later part is rejected by the consumer
  \cup (IF c.phase = "initialized" /\ r.ep = c.ep /\ r.ver >= c.ver /\ r.w /\ i \notin c.seen /\ (\E h \in r.crt : c.S[h] # Absent)
        THEN {"X:part-rejected-after-update-part"} ELSE {})

Deliver(i) == /\ nd < MaxDeliver /\ i \in 1..Len(log)
              /\ c' = [Receive(c, log[i]) EXCEPT !.clean = c.clean /\ i = c.exp, !.exp = c.exp + 1,
                                                      !.seen = IF c.phase = "initialized" THEN c.seen \cup {i} ELSE c.seen]
              /\ nd' = nd + 1
              /\ UNCHANGED <<p, log, pub>>
              /\ Log([act |-> "Deliver", i |-> i, sit |-> DSit(i)])

\* two notifications arrive on different receiver threads: report i has passed the pre-check (state, epoch) and waits
\* for the MDIB lock while report j is received and applied completely; then i gets the lock.  Whatever i is (older,
\* the same, newer than j), the version gate it meets under the lock decides - nothing may go backwards.
DeliverRace(i, j) ==
  /\ nd + 1 < MaxDeliver /\ i \in 1..Len(log) /\ j \in 1..Len(log) /\ i # j
  /\ c.phase = "initialized" /\ log[i].ep = c.ep
  /\ LET c1 == Receive(c, log[j])
         \* (the gate under the lock refuses everything while the MDIB is invalid - j may have invalidated it)
         c2 == IF c1.phase = "invalid" THEN c1 ELSE Handle(c1, log[i])
     IN c' = [c2 EXCEPT !.clean = FALSE, !.exp = c.exp + 2, !.seen = c.seen \cup {i, j}]
  /\ nd' = nd + 2
  /\ UNCHANGED <<p, log, pub>>
  /\ Log([act |-> "DeliverRace", i |-> i, j |-> j,
          sit |-> {"Q:" \o log[i].kind \o "-waits-for-" \o log[j].kind \o ":"
                     \o (IF log[j].ep # c.ep THEN "otherepoch" ELSE IF log[i].ver < log[j].ver THEN "older-waits"
                         ELSE IF log[i].ver = log[j].ver THEN "same-version" ELSE "newer-waits")}])

\* reload_all, split at the point where GetMdib is answered
BeginLoad == /\ c.phase \in {"invalid", "initialized"} /\ nd < MaxDeliver
             /\ c' = [c EXCEPT !.phase = "initializing", !.buf = <<>>, !.snap = NoSnap, !.clean = FALSE, !.seen = {}, !.late = <<>>]
             /\ nd' = nd + 1
             /\ UNCHANGED <<p, log, pub>>
             /\ Log([act |-> "BeginLoad"])

RECURSIVE Replay(_, _, _)
Replay(cc, buf, i) == IF i > Len(buf) THEN cc
                      ELSE Replay(IF buf[i].ep = cc.ep /\ buf[i].ver > cc.ver THEN Handle(cc, buf[i]) ELSE cc, buf, i + 1)

\* the provider answers GetMdib: a snapshot of this instant
Snapshot == /\ c.phase = "initializing" /\ c.snap = NoSnap
            /\ c' = [c EXCEPT !.snap = [ver |-> p.ver, ep |-> p.ep, S |-> p.S]]
            /\ UNCHANGED <<p, log, pub, nd>>
            /\ Log([act |-> "Snapshot"])

\* a report that arrives from the receiver thread WHILE the buffered reports are being replayed: the receiver
\* blocks on the buffer lock until the load has finished and is processed normally afterwards
ArriveDuringReplay(i) ==
  /\ c.phase = "initializing" /\ c.snap # NoSnap /\ c.buf # <<>> /\ Len(c.late) < 2
  /\ nd < MaxDeliver /\ i \in 1..Len(log)
  /\ i >= Len(log) - 1      \* the receiver thread carries current traffic: one of the two newest reports
  /\ c' = [c EXCEPT !.late = Append(@, log[i])]
  /\ nd' = nd + 1
  /\ UNCHANGED <<p, log, pub>>
  /\ Log([act |-> "ArriveDuringReplay", i |-> i,
          sit |-> {"L:late:" \o log[i].kind \o ":"
                     \o (IF log[i].ep # c.snap.ep THEN "otherepoch" ELSE IF log[i].ver <= c.snap.ver THEN "old"
                         ELSE IF \E k \in 1..Len(c.buf) : c.buf[k] = log[i] THEN "also-buffered" ELSE "news")
                     \o ":" \o ToString(Len(c.late))}])

RECURSIVE ReceiveAll(_, _, _)
ReceiveAll(cc, rs, i) == IF i > Len(rs) THEN cc ELSE ReceiveAll(Receive(cc, rs[i]), rs, i + 1)

\* the response is processed, then the reports buffered meanwhile are replayed, then the late arrivals are handled
EndLoad == /\ c.phase = "initializing" /\ c.snap # NoSnap
           /\ LET snap == [c EXCEPT !.ver = c.snap.ver, !.ep = c.snap.ep, !.S = c.snap.S]
                  done == [Replay(snap, c.buf, 1) EXCEPT !.phase = "initialized", !.buf = <<>>, !.snap = NoSnap]
              IN c' = [ReceiveAll(done, c.late, 1) EXCEPT !.late = <<>>]
           /\ UNCHANGED <<p, log, pub, nd>>
           \* what the buffered reports are relative to the snapshot they are replayed on (the consumer's own epoch
           \* at the time they arrived says nothing about that: the provider may have restarted before the load)
           /\ Log([act |-> "EndLoad",
                   sit |-> {"B:buffered:" \o c.buf[k].kind \o ":"
                              \o (IF c.buf[k].ep # c.snap.ep
                                  THEN (IF c.buf[k].ver > c.snap.ver THEN "otherepoch-higher-version" ELSE "otherepoch")
                                  ELSE IF c.buf[k].ver <= c.snap.ver THEN "old" ELSE "news") : k \in 1..Len(c.buf)}])

Next == \/ \E hs \in SUBSET Hs : CommitState(hs)
        \/ \E h \in Hs : CommitDescrUpdate(h) \/ CommitDelete(h) \/ (\E w \in BOOLEAN : CommitCreate(h, w))
        \/ (\E k \in {"seq", "inst"} : Restart(k)) \/ BeginLoad \/ Snapshot \/ EndLoad
        \/ \E i \in 1..MaxCommits : Deliver(i) \/ ArriveDuringReplay(i)
        \/ \E i, j \in 1..MaxCommits : DeliverRace(i, j)

Spec == Init /\ [][Next]_vars

\* ---------------------------------------------------------------- properties (C06)
CT(cc) == <<cc.phase, cc.ver, cc.ep, cc.S>>
NoRegress == [][(c'.ep = c.ep /\ c.phase = "initialized" /\ c'.phase = "initialized")
                   => /\ c'.ver >= c.ver
                      /\ \A h \in Hs : (c.S[h] # Absent /\ c'.S[h] # Absent) => c'.S[h] >= c.S[h]]_vars
StaleIsNoop == [][\A i \in 1..Len(log) : (Deliver(i) /\ c.phase = "initialized" /\ log[i].ep = c.ep
                                          /\ log[i].ver < c.ver) => CT(c') = CT(c)]_vars
DupIsNoop == [][\A i \in 1..Len(log) : (Deliver(i) /\ c.phase = "initialized" /\ i \in c.seen) => CT(c') = CT(c)]_vars
Published == c.phase = "initialized" => \A h \in Hs : c.S[h] # Absent => c.S[h] \in pub[c.ep][h]
Frozen == [][(c.phase = "invalid" /\ c'.phase = "invalid") => CT(c') = CT(c)]_vars
\* after a (re)load the consumer holds a snapshot the provider really had (version and states of one instant)
\* or later published states on top of it - never older ones
LoadNotOlder == [][EndLoad => ((c'.phase = "initialized" /\ c'.ep = c.snap.ep) => c'.ver >= c.snap.ver
                                /\ \A h \in Hs : (c.snap.S[h] # Absent /\ c'.S[h] # Absent) => c'.S[h] >= c.snap.S[h])]_vars

\* a load ends in the epoch of the snapshot it took (reports of an earlier epoch that were buffered meanwhile - they
\* may carry higher MdibVersions than the snapshot of the restarted provider - are not replayed on it), and what the
\* consumer then holds was published in that epoch
LoadEpoch == [][EndLoad => (c'.ep = c.snap.ep /\ (c'.phase = "initialized" =>
                               \A h \in Hs : c'.S[h] # Absent => c'.S[h] \in pub[c.snap.ep][h]))]_vars

\* C01 as the special case: every report delivered in emission order, exactly once, none missing, no reload
Mirror == (c.clean /\ c.exp = Len(log) + 1 /\ p.ep = 0) => (c.ver = p.ver /\ c.S = p.S /\ c.phase = "initialized")

TypeOK == c.phase \in {"initialized", "initializing", "invalid"} /\ nd \in 0..MaxDeliver

EmitAtLevel(d) == (TLCGet("level") = d) => PrintT(<<"BEH", ToJson(hist)>>)
=============================================================================
