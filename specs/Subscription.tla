---------------------------- MODULE Subscription ----------------------------
(***************************************************************************)
(* WS-Eventing subscription manager of the provider (subscriptionmgr_base, *)
(* subscriptionmgr, subscriptionmgr_async): Subscribe / Renew / GetStatus /*)
(* Unsubscribe requests, virtual-clock ticks, reports with scripted        *)
(* delivery outcomes, housekeeping, shutdown.  Serves C08.                 *)
(***************************************************************************)
EXTENDS Integers, Sequences, FiniteSets, TLC, Json

CONSTANTS Clients,     \* subscriber endpoints
          Actions,     \* report actions
          Ids,         \* subscription identifiers that can be issued (small naturals)
          MaxDur,      \* provider maximum (ticks)
          MaxErrors,   \* delivery failure limit
          ReqVals,     \* requested durations that are tried (0 = none requested)
          Filters,     \* filters that are tried
          MaxSteps

VARIABLES now, subs, issued, wire, stopped, nsteps, hist,
          fate   \* fate[c]: what last happened to deliveries to endpoint c ("none", "ok", a failure kind, kind+"+hk" once
                 \* housekeeping has removed the subscription that failed) - situation labels for the drivers only
vars == <<now, subs, issued, wire, stopped, nsteps, hist, fate>>
view == <<now, subs, issued, stopped, nsteps, fate>>

NoSub == [known |-> FALSE, owner |-> "none", filter |-> {}, started |-> 0, dur |-> 0, errors |-> 0,
          unsub |-> FALSE, unsubAt |-> 0, ended |-> FALSE, endTo |-> FALSE]

Init == /\ now = 0 /\ subs = [i \in Ids |-> NoSub] /\ issued = 0
        /\ wire = <<>> /\ stopped = FALSE /\ nsteps = 0 /\ hist = <<>> /\ fate = [c \in Clients |-> "none"]

Log(rec) == hist' = Append(hist, rec) /\ nsteps' = nsteps + 1
Go == ~stopped /\ nsteps < MaxSteps

Grant(req) == IF req = 0 THEN MaxDur ELSE IF req < MaxDur THEN req ELSE MaxDur
Remaining(s) == IF s.dur - (now - s.started) > 0 THEN s.dur - (now - s.started) ELSE 0
Valid(s) == s.known /\ ~s.ended /\ Remaining(s) > 0 /\ s.errors < MaxErrors
\* the property's notion of a live subscription
Alive(i) == Valid(subs[i]) /\ ~subs[i].unsub

\* sp: how the action URIs of the filter are separated in the request (any XML white space separates list items; the
\* filter is the same set of actions whatever the spelling)
Seps == {"blank", "newline", "tab", "padded"}
Subscribe(c, f, req, endTo, sp) ==
  /\ Go /\ issued + 1 \in Ids /\ f # {}
  /\ LET i == issued + 1 IN
       /\ subs' = [subs EXCEPT ![i] = [known |-> TRUE, owner |-> c, filter |-> f, started |-> now, dur |-> Grant(req),
                                       errors |-> 0, unsub |-> FALSE, unsubAt |-> 0, ended |-> FALSE, endTo |-> endTo]]
       /\ issued' = i
       /\ Log([act |-> "Subscribe", c |-> c, f |-> f, req |-> req, endTo |-> endTo, sep |-> sp, id |-> i, res |-> "ok"])
  /\ UNCHANGED <<now, wire, stopped, fate>>

\* a request that names subscription i; "known" as long as housekeeping has not removed it
Renew(i, req) ==
  /\ Go
  /\ IF subs[i].known
     THEN /\ subs' = [subs EXCEPT ![i].started = now, ![i].dur = Grant(req)]
          /\ Log([act |-> "Renew", id |-> i, req |-> req, res |-> "ok"])
     ELSE /\ UNCHANGED subs /\ Log([act |-> "Renew", id |-> i, req |-> req, res |-> "fault"])
  /\ UNCHANGED <<now, issued, wire, stopped, fate>>

GetStatus(i) ==
  /\ Go /\ UNCHANGED <<now, subs, issued, wire, stopped, fate>>
  /\ Log([act |-> "GetStatus", id |-> i, res |-> IF subs[i].known THEN "ok" ELSE "fault"])

Unsubscribe(i) ==
  /\ Go
  /\ IF subs[i].known
     THEN /\ subs' = [subs EXCEPT ![i].unsub = TRUE, ![i].unsubAt = now]
          /\ Log([act |-> "Unsubscribe", id |-> i, res |-> "ok"])
     ELSE /\ UNCHANGED subs /\ Log([act |-> "Unsubscribe", id |-> i, res |-> "fault"])
  /\ UNCHANGED <<now, issued, wire, stopped, fate>>

Tick == /\ Go /\ now' = now + 1 /\ UNCHANGED <<subs, issued, wire, stopped, fate>> /\ Log([act |-> "Tick"])

\* a report with action a; fail = set of clients whose endpoint fails for this delivery, kind = how
Report(a, fail, kind) ==
  /\ Go
  /\ LET to == {i \in Ids : Alive(i) /\ a \in subs[i].filter} IN
       /\ wire' = wire \o [n \in 1..Cardinality(to) |-> a]
       /\ subs' = [i \in Ids |-> IF i \in to
                                 THEN [subs[i] EXCEPT !.errors = IF subs[i].owner \in fail THEN @ + 1 ELSE 0]
                                 ELSE subs[i]]
       /\ fate' = [c \in Clients |-> IF \E i \in to : subs[i].owner = c
                                      THEN (IF c \in fail THEN kind ELSE "ok") ELSE fate[c]]
       \* situation: a notification goes out to an endpoint whose earlier deliveries had this fate
       /\ Log([act |-> "Report", a |-> a, fail |-> fail, kind |-> kind, to |-> to,
               sit |-> {"N:" \o fate[subs[i].owner] \o ">" \o (IF subs[i].owner \in fail THEN kind ELSE "ok") : i \in to}])
  /\ UNCHANGED <<now, issued, stopped>>

\* a report is on its way to the subscribers one after the other (or concurrently) when something else happens: another
\* request is served (Unsubscribe of j) or time passes (Tick).  Which subscriber is served first is the manager's
\* choice; every OTHER subscriber is sent the notification only if its subscription is still live at ITS send time.
ValidAt(s, t) == s.known /\ ~s.ended /\ (s.dur - (t - s.started)) > 0 /\ s.errors < MaxErrors
ReportDuring(a, evk, j) ==
  /\ Go /\ (evk = "Tick" => j = 1)
  /\ LET to == {i \in Ids : Alive(i) /\ a \in subs[i].filter}
         subs1 == IF evk = "Unsubscribe" /\ subs[j].known THEN [subs EXCEPT ![j].unsub = TRUE, ![j].unsubAt = now] ELSE subs
         now1 == IF evk = "Tick" THEN now + 1 ELSE now
         AliveAfter(i) == ValidAt(subs1[i], now1) /\ ~subs1[i].unsub
     IN /\ to # {}
        /\ \E first \in to :
             LET got == {first} \cup {i \in to \ {first} : AliveAfter(i)} IN
             /\ wire' = wire \o [n \in 1..Cardinality(got) |-> a]
             /\ subs' = [i \in Ids |-> IF i \in got THEN [subs1[i] EXCEPT !.errors = 0] ELSE subs1[i]]
             /\ now' = now1
             /\ Log([act |-> "ReportDuring", a |-> a, ev |-> evk, j |-> j, first |-> first, to |-> got])
  /\ UNCHANGED <<issued, stopped, fate>>

\* a Subscribe request (client c, filter f with the action in it) is served by another thread right after the manager
\* has selected the subscribers of a report: the new subscriber may or may not get this report - but it is a
\* subscriber from now on (the next report must reach it)
ReportDuringSubscribe(a, c, f, takes) ==
  /\ Go /\ issued + 1 \in Ids /\ a \in f
  /\ LET i == issued + 1
         to == {k \in Ids : Alive(k) /\ a \in subs[k].filter}
         got == IF takes THEN to \cup {i} ELSE to
         subs1 == [subs EXCEPT ![i] = [known |-> TRUE, owner |-> c, filter |-> f, started |-> now, dur |-> Grant(0),
                                       errors |-> 0, unsub |-> FALSE, unsubAt |-> 0, ended |-> FALSE, endTo |-> FALSE]]
     IN /\ wire' = wire \o [n \in 1..Cardinality(got) |-> a]
        /\ subs' = [k \in Ids |-> IF k \in got THEN [subs1[k] EXCEPT !.errors = 0] ELSE subs1[k]]
        /\ issued' = i
        /\ Log([act |-> "ReportDuring", a |-> a, ev |-> "Subscribe", j |-> i, c |-> c, f |-> f, req |-> 0,
                endTo |-> FALSE, to |-> got])
  /\ UNCHANGED <<now, stopped, fate>>

Housekeeping ==
  /\ Go
  /\ subs' = [i \in Ids |-> IF subs[i].known /\ (~Valid(subs[i]) \/ (subs[i].unsub /\ now > subs[i].unsubAt + 1))
                            THEN NoSub ELSE subs[i]]
  /\ fate' = [c \in Clients |->
               IF fate[c] \in {"http_error", "refused", "timeout"}
                  /\ (\E i \in Ids : subs[i].known /\ subs[i].owner = c /\ subs'[i] = NoSub)
                  /\ ~(\E i \in Ids : subs'[i].known /\ subs'[i].owner = c)
               THEN fate[c] \o "+hk" ELSE fate[c]]
  /\ UNCHANGED <<now, issued, wire, stopped>>
  \* what this round removes (situation labels for the test purposes)
  /\ Log([act |-> "Housekeeping",
          sit |-> {"H:removes:" \o (IF Valid(subs[i]) THEN "unsubscribed-only" ELSE "expired-or-failed")
                     : i \in {j \in Ids : subs[j].known /\ subs'[j] = NoSub}}])

\* lost: endpoints whose answer to the SubscriptionEnd message never reaches the provider (the message itself arrives):
\* still exactly one SubscriptionEnd per live subscription
Stop(sendEnd, lost) ==
  /\ Go /\ (~sendEnd => lost = {})
  /\ wire' = wire \o [n \in 1..(IF sendEnd THEN Cardinality({i \in Ids : Alive(i)}) ELSE 0) |-> "End"]
  /\ subs' = [i \in Ids |-> NoSub]
  /\ stopped' = TRUE
  /\ UNCHANGED <<now, issued, fate>>
  /\ Log([act |-> "Stop", sendEnd |-> sendEnd, lost |-> lost, ends |-> IF sendEnd THEN {i \in Ids : Alive(i)} ELSE {}])

Next == \/ \E c \in Clients, f \in Filters, req \in ReqVals, e \in BOOLEAN, sp \in Seps : Subscribe(c, f, req, e, sp)
        \/ \E i \in Ids, req \in ReqVals : Renew(i, req)
        \/ \E i \in Ids : GetStatus(i) \/ Unsubscribe(i)
        \/ Tick \/ Housekeeping
        \/ \E a \in Actions, fail \in SUBSET Clients, k \in {"http_error", "refused", "timeout"} :
              (fail = {} => k = "http_error") /\ Report(a, fail, k)
        \/ \E a \in Actions, evk \in {"Unsubscribe", "Tick"}, j \in Ids : ReportDuring(a, evk, j)
        \/ \E a \in Actions, c \in Clients, f \in Filters, takes \in BOOLEAN : ReportDuringSubscribe(a, c, f, takes)
        \/ \E b \in BOOLEAN, lost \in SUBSET Clients : Stop(b, lost)

Spec == Init /\ [][Next]_vars

\* ------------------------------------------------------------------ properties
GrantedOK == \A i \in Ids : subs[i].known => (subs[i].dur >= 1 /\ subs[i].dur <= MaxDur)
NeverAfterUnsub == [][\A a \in Actions, f \in SUBSET Clients, k \in {"http_error", "refused", "timeout"} :
                        Report(a, f, k) => Len(wire') - Len(wire) = Cardinality({i \in Ids : Alive(i) /\ a \in subs[i].filter})]_vars
\* whoever is sent a notification was live when the report started; everyone but one was live when the event was over
SentOnlyWhileLive == [][\A a \in Actions, evk \in {"Unsubscribe", "Tick"}, j \in Ids :
                          ReportDuring(a, evk, j) =>
                             LET before == {i \in Ids : Alive(i) /\ a \in subs[i].filter}
                                 after == {i \in before : subs'[i].known /\ ~subs'[i].unsub /\ ValidAt(subs'[i], now')}
                                 n == Len(wire') - Len(wire)
                             IN n >= 1 /\ n <= Cardinality(after) + 1 /\ n >= Cardinality(after)]_vars
UnknownChangesNothing == [][\A i \in Ids : (~subs[i].known /\ (GetStatus(i) \/ Unsubscribe(i) \/ (\E r \in ReqVals : Renew(i, r))))
                              => subs' = subs]_vars
TypeOK == now \in Nat /\ issued \in 0..Cardinality(Ids)

EmitAtLevel(d) == (TLCGet("level") = d) => PrintT(<<"BEH", ToJson(hist)>>)
=============================================================================
