SPECIFICATION Spec
CONSTANTS
  H <- McH
  CH <- McCH
  Kind <- McKind
  InitParent <- McInitParent
  Parents <- McParents
  CtxOf <- McCtxOf
  Removable <- McRemovable
  OtherMds <- McOtherMds
  BeginKinds <- AllKinds
  KeepH = {"m1", "pc", "ch"}
  TrackH = "none"
  Tok = {0, 1}
  MaxTx = 3
  MaxOps = 1
VIEW view
INVARIANT TypeOK
INVARIANT RefConsistent
PROPERTY Gapless
PROPERTY EmptyNoBump
PROPERTY NonEmptyBumps
PROPERTY AbortNoop
PROPERTY OnlyCommitChanges
PROPERTY MonotoneD
PROPERTY MonotoneS
PROPERTY MonotoneC
PROPERTY ChangeBumpsD
PROPERTY ChangeBumpsS
PROPERTY ChangeBumpsC
