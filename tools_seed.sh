#!/bin/bash
# tools_seed.sh <NAME> <dir with patch.diff, demo_*.py, meta.json> : verify a seeded change on a scratch copy of /repo HEAD and
# store it under /verif/seeded/<NAME>/ ; the full test-suite with the change is run separately (tools_seed_suite.sh)
set -u
NAME="$1"; SRC="$2"
DEST=/verif/seeded/$NAME
mkdir -p "$DEST"
cp "$SRC/patch.diff" "$DEST/patch.diff"
DEMO=$(ls "$SRC"/demo_*.py | head -1)
cp "$DEMO" "$DEST/"
S=$(mktemp -d /tmp/seedrepo_XXXX)
rsync -a --exclude .git --exclude '*.log' --exclude __pycache__ /repo/ "$S/"
cd "$S" && git init -q . && git add -A >/dev/null && git commit -qm base >/dev/null
sed -i "s#/tmp/\(mut[bc]\?\|seedwt\)_[A-Za-z0-9_]*#$S#g" "$DEST/$(basename "$DEMO")" 2>/dev/null
cp "$DEST/$(basename "$DEMO")" "$S/"
run_demo() { ( cd "$S" && PYTHONPATH="$S/src:$S" timeout 300 /venv/bin/python "$(basename "$DEMO")" >/dev/null 2>&1; echo $? ); }
WITHOUT=$(run_demo)
if ! ( cd "$S" && git apply --check --whitespace=nowarn "$DEST/patch.diff" 2>/dev/null ); then
  # /repo HEAD moved on (fix: commits) since the author's worktree was taken: re-base the change with patch(1) fuzz, keep the original
  ( cd "$S" && patch -p1 -F3 --no-backup-if-mismatch < "$DEST/patch.diff" >/dev/null 2>&1 ) || { echo "patch does not apply"; rm -rf "$S"; exit 3; }
  cp "$DEST/patch.diff" "$DEST/patch_original_before_fix.diff"
  ( cd "$S" && git diff -- . ':!demo_*' > "$DEST/patch.diff" && git checkout -q -- . )
  echo "$NAME: patch re-based onto $(git -C /repo rev-parse --short HEAD)"
fi
( cd "$S" && git apply --whitespace=nowarn "$DEST/patch.diff" ) || { echo "patch does not apply"; rm -rf "$S"; exit 3; }
( cd "$S" && PYTHONPATH="$S/src:$S" /venv/bin/python -c "import sdc11073, sdc11073.provider, sdc11073.consumer" ) && IMPORTS=ok || IMPORTS=fail
WITH=$(run_demo)
sed -i "s#$S#<worktree>#g" "$DEST/$(basename "$DEMO")"
echo "$NAME: demo rc without change=$WITHOUT, with change=$WITH, imports=$IMPORTS"
echo "{\"demo_rc_without_change\": $WITHOUT, \"demo_rc_with_change\": $WITH, \"imports\": \"$IMPORTS\", \"repo_head\": \"$(git -C /repo rev-parse --short HEAD)\"}" > "$DEST/verified.json"
cp "$SRC/meta.json" "$DEST/meta_agent.json" 2>/dev/null
rm -rf "$S"
