from verif import c12_helpers as h
xs = h._xs(); xs.MANDATORY_VALUE_CHECKING = False
from sdc11073.xml_types import msg_types as mt
c = mt.Channel()
p = mt.Channel.container
print(p.is_optional, h._enum_of(p), isinstance(p, xs.ContainerProperty))
try:
    v = h.construct(p.value_class); print(v)
    c.container = v
except Exception as e:
    import traceback; traceback.print_exc()
