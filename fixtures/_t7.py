import copy
import sdc11073.definitions_sdc
from lxml import etree
from sdc11073.mdib.statecontainers import LocationContextStateContainer as L, PatientContextStateContainer as P
from sdc11073.xml_types import pm_types
node = etree.fromstring('<pm:State xmlns:pm="http://standards.ieee.org/downloads/11073/11073-10207-2017/participant" DescriptorHandle="h" Handle="x"/>')
print('before', L(None).LocationDetail.PoC)
a = L.from_node(node, None)
print('is default:', a.LocationDetail is L.LocationDetail._default_py_value)
a.LocationDetail.PoC = 'LEAK'
print('fresh after', L(None).LocationDetail.PoC, '| another parsed', L.from_node(node, None).LocationDetail.PoC)
# update_from_other_container
s = P(None); s.DescriptorHandle='h'; s.CoreData = pm_types.PatientDemographicsCoreData(); s.CoreData.Middlename.append('A')
t = P(None); t.DescriptorHandle='h'
t.update_from_other_container(s)
s.CoreData.Middlename.append('B')
print('t.CoreData.Middlename', t.CoreData.Middlename, t.CoreData is s.CoreData, t.CoreData.Middlename is s.CoreData.Middlename)
s.Identification.append(pm_types.InstanceIdentifier('root'))
t.update_from_other_container(s)
s.Identification[0].Root = 'changed'
print('t.Identification[0].Root', t.Identification[0].Root)
