import os
from verif.tlc import run_tlc, json_lines, SPEC_DIR
r = run_tlc('Defaults','Defaults_mc.cfg', coverage=True)
print(r.ok, r.generated, r.distinct, r.wall_s)
base = open(os.path.join(SPEC_DIR,'Defaults_tree.cfg')).read()
DT = '{"New", "ParseAbsent", "ParsePresent", "DeepCopy", "MutateNested", "Drop"}'
for ops in (None, DT):
  for d in (2,3,4,5):
    txt = base.replace('MaxOps = 4', f'MaxOps = {d}')
    if ops:
        txt = '\n'.join(('  Ops = '+ops) if l.strip().startswith('Ops') else l for l in txt.splitlines())+'\n'
    open(os.path.join(SPEC_DIR,'_gen_c12_t.cfg'),'w').write(txt)
    r = run_tlc('Defaults','_gen_c12_t.cfg', workers=1)
    b = json_lines(r.stdout,'BEH')
    print('dt' if ops else 'all', d, len(b), round(r.wall_s,1))
os.remove(os.path.join(SPEC_DIR,'_gen_c12_t.cfg'))
