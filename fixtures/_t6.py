import time, os, collections
from verif import c12_helpers as h
from verif.checks import c12
from verif.tlc import run_tlc, json_lines, SPEC_DIR
h._xs().MANDATORY_VALUE_CHECKING = False
t0=time.time()
ms = h.discover()
for m in ms: m.prepare()
print('prepare', time.time()-t0)
trees={}
for d in (2,3,4):
    cfg = c12._cfg(f'tree{d}', 'Defaults_tree.cfg', {'MaxOps': d})
    trees[d] = json_lines(run_tlc('Defaults', cfg, workers=1).stdout, 'BEH')
    os.remove(os.path.join(SPEC_DIR, cfg))
seen=set(); tot=collections.Counter(); cnt=collections.Counter(); rows=[]
for m in ms:
    first = id(m.prop) not in seen; seen.add(id(m.prop))
    d = 4 if m.kind=='obj' else (3 if first else 2)
    t0=time.time(); n=0
    for b in trees[d]:
        if c12.replay(m,b) is not None: n+=1
    dt=time.time()-t0
    tot[(m.kind,d)]+=dt; cnt[(m.kind,d)]+=1
    rows.append((dt, m.ident, d, n))
print(tot, cnt)
for r in sorted(rows, reverse=True)[:15]: print(r)
