import inspect, importlib
import sdc11073.definitions_sdc
from sdc11073.xml_types import xml_structure as xs
mods = ['sdc11073.xml_types.pm_types','sdc11073.xml_types.msg_types','sdc11073.xml_types.eventing_types','sdc11073.xml_types.addressing_types','sdc11073.xml_types.dpws_types','sdc11073.xml_types.mex_types','sdc11073.xml_types.wsd_types','sdc11073.mdib.descriptorcontainers','sdc11073.mdib.statecontainers']
seen=set()
for mn in mods:
    m = importlib.import_module(mn)
    for cn, cls in inspect.getmembers(m, inspect.isclass):
        if cls.__module__ != mn: continue
        for klass in inspect.getmro(cls):
            for name in klass.__dict__.get('_props', ()):
                p = getattr(cls, name, None)
                if p is None or not isinstance(p, xs._XmlStructureBaseProperty): continue
                d = p._default_py_value
                kind = None
                if d is not None and not isinstance(d, (str,int,float,bool,bytes)) and not type(d).__module__.startswith('decimal') :
                    import enum
                    if isinstance(d, enum.Enum): continue
                    kind = 'objdefault:'+type(d).__name__
                elif isinstance(p, (xs._ElementListProperty, xs._AttributeListBase)):
                    kind = 'list'
                elif isinstance(p, xs.ExtensionNodeProperty):
                    kind='ext'
                if kind:
                    print(mn.split('.')[-1], cn, name, type(p).__name__, kind, 'defined in', klass.__name__)
