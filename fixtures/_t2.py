import sys, traceback
from verif import c12_helpers as h
h._xs().MANDATORY_VALUE_CHECKING = False
ms = {m.ident: m for m in h.discover()}
for k in sys.argv[1:]:
    try:
        ms[k].prepare(); print(k, 'ok')
    except Exception:
        traceback.print_exc()
