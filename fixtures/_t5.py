import time, cProfile, pstats, os
from verif import c12_helpers as h
from verif.checks import c12
from verif.tlc import run_tlc, json_lines, SPEC_DIR
h._xs().MANDATORY_VALUE_CHECKING = False
ms = h.discover()
for m in ms: m.prepare()
cfg = c12._cfg('tree4', 'Defaults_tree.cfg', {'MaxOps': 4})
behs = json_lines(run_tlc('Defaults', cfg, workers=1).stdout, 'BEH')
os.remove(os.path.join(SPEC_DIR, cfg))
byid = {m.ident: m for m in ms}
for ident in ['statecontainers.LocationContextStateContainer.LocationDetail', 'pm_types.NumericMetricValue.MetricQuality', 'statecontainers.PatientContextStateContainer.Identification', 'msg_types.SetValueResponse.InvocationInfo']:
    m = byid[ident]
    t0 = time.time(); n=0
    for b in behs:
        if c12.replay(m, b) is not None: n+=1
    print(ident, n, round(time.time()-t0,2), 's', round((time.time()-t0)/max(n,1)*1000,3),'ms/beh')
m = byid['statecontainers.LocationContextStateContainer.LocationDetail']
cProfile.run('for b in behs[:600]: c12.replay(m,b)', '/verif/fixtures/_prof')
pstats.Stats('/verif/fixtures/_prof').sort_stats('cumtime').print_stats(25)
