import collections, traceback, time
from verif import c12_helpers as h
h._xs().MANDATORY_VALUE_CHECKING = False
ms = h.discover()
print(len(ms), collections.Counter((m.kind, m.container) for m in ms))
fails = collections.Counter(); ok=0
t0=time.time()
for m in ms:
    try:
        m.prepare(); ok+=1
        u = {k:v for k,v in m.unsupported.items() if 'no such method' not in v}
        if u: print('UNSUP', m.ident, u)
        if m.fresh_none: print('FRESHNONE', m.ident)
        if 'A0' in m.tok.values(): print('A0', m.ident)
    except Exception as ex:
        msg = str(ex).splitlines()
        key = (type(ex).__name__, (msg[0] if msg else '')[:150])
        fails[key]+=1
        print('FAIL', m.ident, m.descriptor, key)
print(ok, time.time()-t0)
