#!/usr/bin/env python3
"""tools_meta.py : write /verif/seeded/<id>/meta.json from what was measured for that seeded change
(meta_agent.json: the author's description; verified.json: tools_seed.sh; suite.json: tools_seed_suite.sh;
detection.json: tools_matrix.py)."""
import json
import os

SEEDED = '/verif/seeded'


def load(d, name):
    p = os.path.join(SEEDED, d, name)
    return json.load(open(p)) if os.path.exists(p) else None


for d in sorted(os.listdir(SEEDED)):
    agent, ver, suite, det = (load(d, n) for n in ('meta_agent.json', 'verified.json', 'suite.json', 'detection.json'))
    if agent is None or ver is None:
        continue
    demo = next((f for f in os.listdir(os.path.join(SEEDED, d)) if f.startswith('demo_')), None)
    meta = {
        'id': d,
        'property': agent.get('property', d[:3]),
        'files_changed': agent.get('files_changed'),
        'what_breaks': agent.get('what_breaks'),
        'needs_to_manifest': agent.get('needs_to_manifest'),
        'origin': 'fresh sub-agent that was given only the property text and a scratch git worktree of /repo',
        'what_i_ran': {
            'demonstration': {
                'cmd': f'tools_seed.sh {d} <worktree>  (scratch copy of /repo HEAD: python {demo} without the change, '
                       f'git apply patch.diff, import sdc11073 + provider + consumer, python {demo} with the change)',
                'rc_without_change': ver.get('demo_rc_without_change'),
                'rc_with_change': ver.get('demo_rc_with_change'),
                'imports': ver.get('imports'), 'repo_head': ver.get('repo_head')},
            'existing_suite_with_change': ({
                'cmd': f'tools_seed_suite.sh {d}  (scratch copy of /repo HEAD + patch.diff: the command of '
                       '/root/.vp/BASELINE.json)',
                'rc': suite.get('suite_rc'), 'summary': suite.get('summary'), 'failed': suite.get('failed'),
                'repo_head': suite.get('repo_head')} if suite else 'not run yet'),
            'checks_against_change': ({
                'cmd': f'tools_matrix.py {d}  (scratch copy of /repo HEAD + patch.diff, VERIF_REPO=<copy> ./check <ID> '
                       f'--tier {det.get("tier")})',
                'repo_head': det.get('repo_head'),
                'results': {c: {'caught': v['caught'], 'rc': v['rc'], 'wall_s': v['wall_s'],
                                'first_reports': v['reported'][:2]} for c, v in det.get('checks', {}).items()}}
                if det else 'not run yet'),
        },
        'caught_by': sorted(c for c, v in (det or {}).get('checks', {}).items() if v['caught']),
        'kept_because': 'demonstration fails with the change and passes without it; library imports; existing suite '
                        'passes with the change' if suite and suite.get('suite_rc') == 0 else
                        'demonstration fails with the change and passes without it; library imports'
                        + ('' if suite is None else '; NOTE: the existing suite does NOT pass with this change'),
    }
    note = os.path.join(SEEDED, d, 'NOTE.txt')
    if os.path.exists(note):
        meta['note'] = open(note).read().strip()
    if suite and suite.get('earlier_attempt'):
        meta['what_i_ran']['existing_suite_with_change']['earlier_attempt'] = suite['earlier_attempt']
    if os.path.exists(os.path.join(SEEDED, d, 'patch_original_before_fix.diff')):
        meta['rebased'] = 'patch.diff is the change re-based onto the /repo HEAD named above (fix: commits touched the same lines); the author\'s diff is patch_original_before_fix.diff'
    json.dump(meta, open(os.path.join(SEEDED, d, 'meta.json'), 'w'), indent=1)
    print(d, 'caught_by', meta['caught_by'], 'suite', (suite or {}).get('suite_rc'))
