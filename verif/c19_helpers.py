"""C19 helpers: a provider/consumer pair on the loop-back transport with every TLS option of both sides.

verif/pair.py is not edited; what it lacks for C19 is supplied here:
  * TlsClient        loop-back soap client that logs every connect attempt (party, netloc, which ssl context, outcome),
                     offers a peer certificate on `sock` (SdcConsumer._connect reads it on a TLS connection) and knows
                     the "downgrade" environment (peer answers TLS = no: every TLS handshake fails with ssl.SSLError,
                     plaintext requests are answered by every server).
  * own HTTP server  the REAL sdc11073 HttpServerThreadBase runs (constructor, run(): scheme decision and
                     ssl_context.wrap_socket, dispatcher, stop()); only its socket server class
                     (httpserverimpl._ThreadingHTTPServer) is replaced by FakeHttpd, which registers a dispatcher on
                     the loop-back Network instead of listening.  FakeHttpd.socket is a real, never bound, never
                     connected socket object so that the real SSLContext.wrap_socket can be called (no I/O happens).
  * alternative host names are resolved by the Network ('localhost' -> 127.0.0.1).
  * URL scan of every serialised message (requests and responses) of the loop-back log.
"""
from __future__ import annotations

import os
import re
import socket
import ssl
import threading
import uuid

from .loopback import FakeHttpServer, LoopbackSoapClient, Network
from .mdibharness import FIXTURE_ONE, _load_repo
from .pair import NullWsDiscovery

CERT_FOLDER = os.path.join(os.environ.get('VERIF_REPO', '/repo'), 'tests', 'certificates')
IP = '127.0.0.1'
ALT_HOST = 'localhost'          # resolves to 127.0.0.1 without any name service
P_SHARED_PORT, C_SHARED_PORT = 10001, 10002


def mk_container(with_ca: bool = True):
    """Real ssl contexts from the repo's test certificate (self-signed: it is its own CA file)."""
    from sdc11073.certloader import mk_ssl_contexts_from_folder
    return mk_ssl_contexts_from_folder(CERT_FOLDER, private_key='test_private_key.pem',
                                       certificate='test_certificate.pem',
                                       ca_public_key='test_certificate.pem' if with_ca else None,
                                       ssl_passwd='password')


class AliasServers(dict):
    """netloc -> server; host aliases (alternative host names) resolve to the numeric address."""

    @staticmethod
    def _norm(netloc):
        if isinstance(netloc, str) and netloc.startswith(ALT_HOST + ':'):
            return IP + netloc[len(ALT_HOST):]
        return netloc

    def get(self, key, default=None):
        return dict.get(self, self._norm(key), default)

    def __getitem__(self, key):
        return dict.__getitem__(self, self._norm(key))

    def __contains__(self, key):
        return dict.__contains__(self, self._norm(key))


class TlsNetwork(Network):
    def __init__(self, downgrade: bool):
        super().__init__()
        self.servers = AliasServers()
        self.downgrade = downgrade      # peer answers TLS = no
        self.hostile_netlocs = set()    # network locations AS WRITTEN by the client that do not answer TLS
        self.wsdl_elsewhere = False
        self.events: list[dict] = []    # connect attempts and client creations, in order
        self.owner: dict[int, str] = {}  # port -> 'provider' | 'consumer'
        self.creating = None            # party whose start_all is running (owner of an own http server)
        self.own_servers: list = []
        self.contexts: dict[int, str] = {}   # id(ssl context) -> 'provider.client' ...
        self._next_port = 20001

    def deliver(self, wire):
        status, reason, response = super().deliver(wire)
        if self.wsdl_elsewhere and response and b'wsdl' in response:
            # the provider announces its WSDL under another network location than the hosted service's own
            import re
            response = re.sub(rb'(https?://)[^/<"]+(/[^<"]*\?wsdl)', rb'\g<1>' + IP.encode() + rb':10999\2',
                              response if isinstance(response, bytes) else response.encode('utf-8'))
            wire.response = response
        return status, reason, response

    def alloc_port(self):
        self._next_port += 1
        return self._next_port - 1

    def ctx_name(self, ctx) -> str:
        if ctx is None:
            return 'none'
        return self.contexts.get(id(ctx), 'foreign')

    def answers(self, server, tls: bool, netloc=None) -> bool:
        if self.downgrade or netloc in self.hostile_netlocs:
            return not tls
        return (server.scheme == 'https') == tls


class _PeerSock:
    """What SdcConsumer._connect asks of the socket of a TLS connection."""

    def getpeercert(self, binary_form=False):
        return b'loop-back' if binary_form else {'subject': ((('commonName', 'loop-back'),),)}


class TlsClient(LoopbackSoapClient):
    local = ''

    def __init__(self, netloc, socket_timeout, logger, ssl_context, *args, **kwargs):
        super().__init__(netloc, socket_timeout, logger, ssl_context, *args, **kwargs)
        self.network.events.append({'ev': 'create', 'party': self.local, 'netloc': netloc,
                                    'ctx': self.network.ctx_name(ssl_context), 'out': 'ok'})

    @property
    def sock(self):
        if self._closed or self._ssl_context is None:
            return None
        return _PeerSock()

    def connect(self):
        net = self.network
        tls = self._ssl_context is not None
        out = 'ok'
        try:
            server = net.servers.get(self._netloc)
            if server is None:
                raise ConnectionRefusedError(self._netloc)
            if not net.answers(server, tls, self._netloc):
                if tls:
                    raise ssl.SSLError(1, '[SSL: WRONG_VERSION_NUMBER] loop-back: peer does not answer TLS')
                raise ConnectionResetError('loop-back: plaintext connection to a TLS server')
            self._closed = False
            self.sock_name = (IP, 50000)
        except ssl.SSLError:
            out = 'ssl'
            raise
        except ConnectionResetError:
            out = 'reset'
            raise
        except ConnectionRefusedError:
            out = 'refused'
            raise
        finally:
            net.events.append({'ev': 'connect', 'party': self.local, 'netloc': self._netloc,
                               'ctx': net.ctx_name(self._ssl_context), 'out': out})

    def _sending(self):
        if self._closed:
            self.connect()
        net = self.network
        # 'at': index of the wire this request becomes in net.log
        net.events.append({'ev': 'send', 'party': self.local, 'netloc': self._netloc,
                           'ctx': net.ctx_name(self._ssl_context), 'out': 'ok', 'at': len(net.log)})

    def _prepare(self, path, created_message, request_manipulator, validate, absolute=None):
        # (_prepare is the common entry of the synchronous and of the asynchronous send path)
        if absolute is None:
            self._sending()
        else:
            # the aiohttp based client given an absolute URL: host, port and scheme of the URL win; the TLS context of
            # the session only applies to https
            net = self.network
            tls = absolute.scheme == 'https' and self._ssl_context is not None
            server = net.servers.get(absolute.netloc)
            out = 'refused' if server is None else 'ok' if net.answers(server, tls, absolute.netloc) else ('ssl' if tls else 'reset')
            ctx = net.ctx_name(self._ssl_context) if tls else 'none'
            net.events.append({'ev': 'connect', 'party': self.local, 'netloc': absolute.netloc, 'ctx': ctx, 'out': out})
            if out == 'ok':
                net.events.append({'ev': 'send', 'party': self.local, 'netloc': absolute.netloc, 'ctx': ctx, 'out': 'ok',
                                   'at': len(net.log)})
        return super()._prepare(path, created_message, request_manipulator, validate, absolute=absolute)

    def get_from_url(self, url, msg=''):
        self._sending()
        return super().get_from_url(url, msg)


def mk_tls_client_class(network: TlsNetwork, local: str):
    return type('TlsClientBound', (TlsClient,), {'network': network, 'local': local,
                                                  '__deepcopy__': lambda self, memo: self})


class FakeHttpd:
    """Stands in for httpserverimpl._ThreadingHTTPServer (the only class of the http server that owns sockets)."""

    network: TlsNetwork = None

    def __init__(self, logger, server_address, chunk_size, supported_encodings):
        from sdc11073.dispatch.pathelementregistry import PathElementRegistry
        net = self.network
        self.logger = logger
        self.dispatcher = PathElementRegistry()
        self.chunk_size = chunk_size
        self.supported_encodings = supported_encodings
        self.threads = []
        self.ip = server_address[0]
        self._port = net.alloc_port()
        self.socket = socket.socket(socket.AF_INET, socket.SOCK_STREAM)   # never bound, never connected
        self._evt = threading.Event()
        self.owner = net.creating
        net.owner[self._port] = self.owner
        net.servers[f'{self.ip}:{self._port}'] = self
        net.own_servers.append(self)

    @property
    def server_port(self):
        return self._port

    @property
    def wrapped_with(self):
        """The ssl context the real server thread wrapped the listening socket with (None: plaintext)."""
        return self.socket.context if isinstance(self.socket, ssl.SSLSocket) else None

    @property
    def scheme(self):
        return 'https' if isinstance(self.socket, ssl.SSLSocket) else 'http'

    def serve_forever(self):
        self._evt.wait()

    def shutdown(self):
        self._evt.set()

    def server_close(self):
        try:
            self.socket.close()
        except OSError:
            pass


class _NoJoin:
    def join(self, timeout=None):
        return None


URL_RE = re.compile(r'^(https?):/{0,2}([^/\s?#]+)')


def urls_in(data: bytes | str | None, net: TlsNetwork) -> list[tuple[str, str, str, str]]:
    """(owner of the address, kind, scheme, url) of every http(s) URL in a serialised message whose host:port is a
    server of one of the two parties.  kind = the element that carries it."""
    if not data:
        return []
    from lxml import etree
    if isinstance(data, str):
        data = data.encode('utf-8')
    try:
        root = etree.fromstring(data)
    except etree.XMLSyntaxError:
        return []
    found = []

    def visit(text, elem, attr=None):
        if not text:
            return
        for tok in text.split():
            m = URL_RE.match(tok)
            if not m:
                continue
            hostport = m.group(2)
            host, _, port = hostport.rpartition(':')
            if not host or not port.isdigit() or int(port) not in net.owner:   # any host name, the port tells the owner
                continue
            found.append((net.owner[int(port)], _kind(elem, attr), m.group(1), tok))

    for elem in root.iter():
        if not isinstance(elem.tag, str):
            continue
        visit(elem.text, elem)
        for name, value in elem.attrib.items():
            visit(value, elem, name)
    return found


def _local(tag):
    return tag.rsplit('}', 1)[-1]


def _kind(elem, attr=None) -> str:
    name = _local(elem.tag)
    chain = []
    p = elem.getparent()
    while p is not None and len(chain) < 4:
        chain.append(_local(p.tag))
        p = p.getparent()
    if attr is not None:
        return f'attr:{name}@{_local(attr)}'
    if name == 'XAddrs':
        return 'xaddr'
    if name == 'Location':
        return 'wsdl'
    if name == 'To':
        return 'to'
    if name == 'Address' and chain:
        if chain[0] == 'NotifyTo':
            return 'notify_to'
        if chain[0] == 'EndTo':
            return 'end_to'
        if chain[0] == 'SubscriptionManager':
            return 'end_submgr' if len(chain) > 1 and chain[1] == 'SubscriptionEnd' else 'submgr'
        if chain[0] == 'EndpointReference' and len(chain) > 1 and chain[1] == 'Hosted':
            return 'hosted_epr'
        if chain[0] == 'EndpointReference' and len(chain) > 1 and chain[1] == 'Host':
            return 'host_epr'
        return f'address:{chain[0]}'
    return f'elem:{name}'


class TlsPair:
    """A real SdcProvider and a real SdcConsumer for one configuration; driven phase by phase by the check.

    cfg: dict(ptls 'off'|'on', ctls 'none'|'optional'|'enforced', psrv/csrv 'shared'|'own', alt 'none'|'set',
              peer 'yes'|'no', mgr 'sync'|'async'|'sync_ref'|'async_ref')
    """

    def __init__(self, cfg: dict, fixture=FIXTURE_ONE):
        _load_repo()
        import sdc11073.httpserver.httpserverimpl as httpserverimpl

        self.cfg = cfg
        self.net = TlsNetwork(downgrade=cfg['peer'] == 'no')
        self.wsd = NullWsDiscovery()
        self.alt = ALT_HOST if cfg['alt'] == 'set' else None
        self.p_ssl = mk_container() if cfg['ptls'] == 'on' else None
        self.c_ssl = mk_container() if cfg['ctls'] != 'none' else None
        for party, cont in (('provider', self.p_ssl), ('consumer', self.c_ssl)):
            if cont is not None:
                self.net.contexts[id(cont.client_context)] = f'{party}.client'
                self.net.contexts[id(cont.server_context)] = f'{party}.server'
        self.consumer = None
        self.provider_started = False
        self.pserver = None
        self.cserver = None
        self._httpserverimpl = httpserverimpl
        self._orig_httpd = httpserverimpl._ThreadingHTTPServer  # noqa: SLF001
        httpserverimpl._ThreadingHTTPServer = type('FakeHttpdBound', (FakeHttpd,), {'network': self.net})  # noqa: SLF001
        try:
            self._start_provider(cfg, fixture)
        except BaseException:
            httpserverimpl._ThreadingHTTPServer = self._orig_httpd  # noqa: SLF001
            raise

    def _start_provider(self, cfg, fixture):
        from sdc11073.mdib import ProviderMdib
        from sdc11073.provider import SdcProvider
        from sdc11073.provider.providerimpl import (provider_components_async_factory,
                                                    provider_components_sync_factory)
        from sdc11073.xml_types.dpws_types import ThisDeviceType, ThisModelType
        from tutorial.productandroles.exampleproduct import EXAMPLE_ROLE_PROVIDER_COMPONENTS
        mdib = ProviderMdib.from_mdib_file(fixture)
        mdib.context_states.clear()
        mdib.context_states.handle_version_lookup.clear()
        self.mdib = mdib
        mgr = cfg.get('mgr', 'sync')
        comps = provider_components_async_factory() if mgr.startswith('async') else provider_components_sync_factory()
        comps.soap_client_class = mk_tls_client_class(self.net, 'provider')
        if mgr.endswith('_ref'):     # subscriptions identified by reference parameters instead of path suffixes
            from sdc11073.provider.subscriptionmgr import ReferenceParamSubscriptionsManager
            from sdc11073.provider.subscriptionmgr_async import SubscriptionsManagerReferenceParamAsync
            cls = SubscriptionsManagerReferenceParamAsync if mgr.startswith('async') else ReferenceParamSubscriptionsManager
            comps.subscriptions_manager_class = {'StateEvent': cls, 'Set': cls}
        model = ThisModelType(manufacturer='Verif', manufacturer_url='www.example.com', model_name='VerifDevice',
                              model_number='1.0', model_url='www.example.com/model',
                              presentation_url='www.example.com/presentation')
        device = ThisDeviceType(friendly_name='Verif Device', firmware_version='0.1', serial_number='1')
        self.provider = SdcProvider(self.wsd, model, device, mdib, epr=uuid.UUID(int=1), validate=True,
                                    ssl_context_container=self.p_ssl, max_subscription_duration=7200,
                                    components=comps, role_provider_components=EXAMPLE_ROLE_PROVIDER_COMPONENTS,
                                    alternative_hostname=self.alt)
        self.net.creating = 'provider'
        if cfg['psrv'] in ('shared', 'mismatch'):
            # the application supplies a server: one that matches the provider's TLS configuration, or ('mismatch') a
            # plaintext server for a TLS provider
            scheme = 'https' if self.p_ssl and cfg['psrv'] == 'shared' else 'http'
            self.pserver = FakeHttpServer(self.net, IP, P_SHARED_PORT, scheme)
            self.net.owner[P_SHARED_PORT] = 'provider'
        self.provider.start_all(start_rtsample_loop=False, shared_http_server=self.pserver)
        self.net.creating = None
        self.provider_started = True

    # ------------------------------------------------------------------ consumer
    def mk_consumer(self):
        from sdc11073.consumer.consumerimpl import SdcConsumer, default_components_factory
        from sdc11073.definitions_sdc import SdcV1Definitions
        from sdc11073.dispatch import RequestDispatcher
        cfg = self.cfg
        ccomps = default_components_factory()
        ccomps.soap_client_class = mk_tls_client_class(self.net, 'consumer')
        ccomps.action_dispatcher_class = RequestDispatcher
        if cfg.get('mgr', 'sync').endswith('_ref'):
            from sdc11073.consumer.subscription import ClientSubscriptionManagerReferenceParams
            ccomps.subscription_manager_class = ClientSubscriptionManagerReferenceParams
        x_addr = self.provider.get_xaddrs()[0]
        self.consumer = SdcConsumer(x_addr, SdcV1Definitions, self.c_ssl, epr=uuid.UUID(int=2), validate=True,
                                    components=ccomps, force_ssl_connect=cfg['ctls'] == 'enforced',
                                    alternative_hostname=self.alt)
        if cfg['csrv'] == 'shared':
            # the application supplies a server that matches the consumer's TLS configuration
            self.cserver = FakeHttpServer(self.net, IP, C_SHARED_PORT, 'https' if self.c_ssl else 'http')
            self.net.owner[C_SHARED_PORT] = 'consumer'
        return self.consumer

    def start_consumer(self):
        self.net.creating = 'consumer'
        try:
            self.consumer.start_all(shared_http_server=self.cserver, fixed_renew_interval=100000)
        finally:
            self.net.creating = None

    # ------------------------------------------------------------------ stop
    def stop_consumer(self):
        if self.consumer is None:
            return
        mgr = self.consumer._subscription_mgr  # noqa: SLF001
        if mgr is not None:
            mgr._run = False  # noqa: SLF001
            mgr.join = lambda timeout=None: None
        try:
            self.consumer.stop_all(unsubscribe=False)
        except Exception:  # noqa: BLE001
            pass

    def stop_provider(self, send_subscription_end: bool):
        if not self.provider_started:
            return
        self.provider_started = False
        for mgr in self.provider._subscriptions_managers.values():  # noqa: SLF001
            mgr._run_housekeeping_thread = False  # noqa: SLF001
            mgr._housekeeping_thread = _NoJoin()  # noqa: SLF001
        self.provider.stop_all(send_subscription_end=send_subscription_end)

    def close(self):
        try:
            try:
                self.stop_consumer()
            finally:
                self.stop_provider(False)
        finally:
            self._httpserverimpl._ThreadingHTTPServer = self._orig_httpd  # noqa: SLF001
            for srv in self.net.own_servers:
                srv.shutdown()
                srv.server_close()
