"""Entry point: python -m verif.run <ID> [--tier quick|thorough] [--replay path]."""
import importlib
import sys

from .common import main_wrapper


def main() -> int:
    if len(sys.argv) < 2:
        print('usage: check <property id> [--tier quick|thorough]', file=sys.stderr)
        return 2
    pid = sys.argv[1].upper()
    try:
        mod = importlib.import_module(f'verif.checks.{pid.lower()}')
    except ModuleNotFoundError as ex:
        print(f'no check for {pid}: {ex}', file=sys.stderr)
        return 2
    return main_wrapper(mod.check, pid, sys.argv[2:])


if __name__ == '__main__':
    sys.exit(main())
