import json, sys, random
from verif import c13_helpers as H
from verif.tlc import run_tlc, json_lines
from verif.checks import c13

def load_cases(targets):
    ex = H.Executor()
    templates = H.capture_templates(ex.sysm)
    ex.baseline(templates)
    consts = dict(c13._constants(templates, targets), Part='"all"', EmitOnly='TRUE')
    cfg = c13._write_cfg('_gen_c13_dbg.cfg', 'EmitSpec', consts)
    res = run_tlc('Pipeline', cfg, workers=1)
    return ex, templates, json_lines(res.stdout, 'CASE')
