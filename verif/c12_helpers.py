"""C12 binding: reflection over the real sdc11073 classes and one adaptor per (class, member) pair.

Everything here drives the REAL classes of /repo (construct, serialise, parse, copy, write into nested objects)
and reads them back through the real property descriptors; the abstract values ("D0", "v1", ...) are the canonical
forms (verif.mdibharness.canon) of the member value, looked up in a table that is built per pair before any history
is replayed.
"""
from __future__ import annotations

import copy
import hashlib
import importlib
import inspect
import json
from decimal import Decimal

from lxml import etree

from .mdibharness import canon
from .tlc import MachineryError

MODULES = ['sdc11073.xml_types.pm_types', 'sdc11073.xml_types.msg_types', 'sdc11073.xml_types.eventing_types',
           'sdc11073.xml_types.addressing_types', 'sdc11073.xml_types.dpws_types', 'sdc11073.xml_types.mex_types',
           'sdc11073.xml_types.wsd_types', 'sdc11073.mdib.descriptorcontainers', 'sdc11073.mdib.statecontainers']

VALS = ['v1', 'v2']
NS = 'urn:verif:c12'


def _xs():
    import sdc11073.definitions_sdc  # noqa: F401  (registers the protocol; import order matters)
    from sdc11073.xml_types import xml_structure as xs
    return xs


def _key(canonical) -> str:
    return json.dumps(canonical, sort_keys=True, default=str)


# --------------------------------------------------------------------------- construction of real objects
def construct(cls):
    """cls() for data types; required constructor arguments (a few classes have them) are filled by kind."""
    from sdc11073.mdib.descriptorcontainers import AbstractDescriptorContainer
    from sdc11073.mdib.statecontainers import AbstractStateContainer
    if issubclass(cls, AbstractDescriptorContainer):
        return cls('h', 'p')
    if issubclass(cls, AbstractStateContainer):
        obj = cls(None)
        obj.DescriptorHandle = 'h'
        if obj.is_multi_state:
            obj.Handle = 'hs'     # update_from_other_container insists on equal handles
        return obj
    try:
        return cls()
    except TypeError:
        pass
    sig = inspect.signature(cls.__init__)
    required = [p for n, p in list(sig.parameters.items())[1:]
                if p.default is inspect.Parameter.empty and p.kind in (p.POSITIONAL_ONLY, p.POSITIONAL_OR_KEYWORD)]
    last = None
    for filler in ('c12', None, 1):
        try:
            return cls(*[filler for _ in required])
        except Exception as ex:  # noqa: BLE001
            last = ex
    raise MachineryError(f'cannot construct {cls.__name__}: {last!r}')


def _is_container(cls) -> bool:
    from sdc11073.mdib.containerbase import ContainerBase
    return issubclass(cls, ContainerBase)


def _enum_of(prop):
    klass = getattr(prop._converter, '_klass', None)  # noqa: SLF001
    return klass if isinstance(klass, type) else None


def fill_mandatory(obj, depth: int = 0):
    """Give every mandatory member that is still None a value, so that the XML of obj can be parsed back."""
    import enum
    xs = _xs()
    if depth > 4:
        return
    for name, prop in obj.sorted_container_properties():
        try:
            val = getattr(obj, name)
        except Exception:  # noqa: BLE001
            continue
        if val is None and not prop.is_optional:
            new = None
            ecls = _enum_of(prop)
            if ecls is not None and issubclass(ecls, enum.Enum):
                new = next(iter(ecls))
            elif isinstance(prop, (xs.SubElementProperty, xs.ContainerProperty)):
                try:
                    new = construct(prop.value_class)
                except MachineryError:
                    new = None
            elif 'Int' in getattr(prop._converter, '__name__', type(prop._converter).__name__):  # noqa: SLF001
                new = 0
            else:
                new = _scalar_for(prop, 0)
            if new is not None:
                try:
                    setattr(obj, name, new)
                    val = new
                except Exception:  # noqa: BLE001
                    val = None
        if val is None:
            continue
        if hasattr(val, 'sorted_container_properties'):
            fill_mandatory(val, depth + 1)
        elif isinstance(val, list):
            for x in val:
                if hasattr(x, 'sorted_container_properties'):
                    fill_mandatory(x, depth + 1)


def serialise(obj) -> etree._Element:
    from sdc11073.namespaces import default_ns_helper as nsh
    fill_mandatory(obj)
    tag = getattr(obj, 'NODETYPE', None) or etree.QName(NS, 'Node')
    if _is_container(type(obj)):
        return obj.mk_node(tag, nsh)
    return obj.as_etree_node(tag, dict(nsh.ns_map))


def parse(cls, xml: bytes):
    node = etree.fromstring(xml)
    if _is_container(cls):
        from sdc11073.mdib.descriptorcontainers import AbstractDescriptorContainer
        if issubclass(cls, AbstractDescriptorContainer):
            return cls.from_node(node, 'p')
        return cls.from_node(node, None)
    return cls.from_node(node)


# --------------------------------------------------------------------------- values written into nested objects
def _scalar_for(prop, k: int):
    """A value for a simple property (k = 1, 2 selects the abstract value), or None if the kind is not handled."""
    xs = _xs()
    if isinstance(prop, (xs.StringAttributeProperty, xs.NodeStringProperty)):
        return f'c12_v{k}'
    if isinstance(prop, (xs.DecimalAttributeProperty, xs.NodeDecimalProperty)):
        return Decimal(20 + k)
    if isinstance(prop, (xs.IntegerAttributeProperty, xs.NodeIntProperty)):
        return 10 + k
    return None


def list_elements(prop, k: int) -> list | None:
    """k fresh elements for a list valued property, or None if the kind is not handled."""
    xs = _xs()
    if isinstance(prop, (xs.SubElementListProperty, xs.ContainerListProperty)):
        return [construct(prop.value_class) for _ in range(k)]
    if isinstance(prop, (xs.AnyEtreeNodeListProperty, xs.ExtensionNodeProperty)):
        return [etree.Element(etree.QName(NS, f'e{n}')) for n in range(k)]
    if isinstance(prop, xs.NodeTextQNameListProperty):
        return [etree.QName(NS, f'q{n}') for n in range(k)]
    if isinstance(prop, xs.DecimalListAttributeProperty):
        return [Decimal(n + 1) for n in range(k)]
    if isinstance(prop, (xs._AttributeListBase, xs.SubElementTextListProperty, xs.NodeTextListProperty)):  # noqa: SLF001
        import enum
        klass = getattr(getattr(prop._converter, '_element_converter', None), '_klass', (str,))  # noqa: SLF001
        klass = klass[0] if isinstance(klass, tuple) else klass
        if isinstance(klass, type) and issubclass(klass, enum.Enum):
            members = list(klass)
            return [members[n % len(members)] for n in range(k)]
        if klass is int:
            return [n + 1 for n in range(k)]
        return [f'c12_{n}' for n in range(k)]
    return None


def is_list_prop(prop) -> bool:
    xs = _xs()
    return isinstance(prop, (xs._ElementListProperty, xs._AttributeListBase, xs.ExtensionNodeProperty))  # noqa: SLF001


def _is_mutable_elem(e) -> bool:
    return isinstance(e, etree._Element) or hasattr(e, 'sorted_container_properties')  # noqa: SLF001


def scribble(elem, k: int):
    """Nested attribute write into a list element (only somebody who shares the element object can see it later)."""
    if isinstance(elem, etree._Element):  # noqa: SLF001
        elem.set('c12w', str(k))
    elif hasattr(elem, 'sorted_container_properties'):
        for name, prop in elem.sorted_container_properties():
            val = _scalar_for(prop, k)
            if val is not None:
                try:
                    setattr(elem, name, val)
                except Exception:  # noqa: BLE001, S110
                    pass


def replace_content(lst: list, elems: list, k: int):
    """In-place write into a list member: write into the present elements, then give the list its new content."""
    for e in lst:
        scribble(e, k)
    lst[:] = elems


def mutable_ids(val, out: set, depth: int = 0) -> set:
    """Identities of the mutable objects a member value consists of (the object, its lists, their elements)."""
    if val is None:
        return out
    if isinstance(val, list):
        out.add(id(val))
        out.update(id(e) for e in val if _is_mutable_elem(e))
    elif hasattr(val, 'sorted_container_properties'):
        out.add(id(val))
        if depth < 2:
            for _, prop in val.sorted_container_properties():
                mutable_ids(prop.get_actual_value(val), out, depth + 1)
    return out


def write_nested(nested, k: int, depth: int = 0) -> int:
    """Write abstract value k into a nested data object IN PLACE; returns the number of places written.

    Simple members are assigned (nested attribute write), list members are changed in place, nested data objects are
    entered (one more level).
    """
    n = 0
    for name, prop in nested.sorted_container_properties():
        val = _scalar_for(prop, k)
        if val is not None:
            setattr(nested, name, val)
            n += 1
            continue
        if is_list_prop(prop):
            elems = list_elements(prop, k)
            lst = getattr(nested, name)
            if elems is not None and lst is not None:
                replace_content(lst, elems, k)
                n += 1
            continue
        cur = getattr(nested, name)
        if depth < 1 and cur is not None and hasattr(cur, 'sorted_container_properties'):
            n += write_nested(cur, k, depth + 1)
    return n


# --------------------------------------------------------------------------- documents for parse-only classes
class FixtureSource:
    """XML for the msg_types classes the library can read but not write (Mds, Vmd, Channel, MdDescription,
    GetMdDescriptionResponse): cut out of fixtures/two_mds.xml, member children reduced to the first k."""

    PM = 'http://standards.ieee.org/downloads/11073/11073-10207-2017/participant'
    MSG = 'http://standards.ieee.org/downloads/11073/11073-10207-2017/message'
    BIG = ('Vmd', 'Channel', 'Metric', 'Sco', 'AlertSystem', 'SystemContext', 'Clock', 'Battery')

    def __init__(self):
        from .mdibharness import FIXTURE_TWO
        root = etree.parse(FIXTURE_TWO).getroot()
        pm = lambda n: f'{{{self.PM}}}{n}'  # noqa: E731
        mdd = next(root.iter(pm('MdDescription')))
        resp = etree.Element(f'{{{self.MSG}}}GetMdDescriptionResponse', nsmap=root.nsmap)
        inner = etree.SubElement(resp, f'{{{self.MSG}}}MdDescription')
        for child in mdd:
            inner.append(copy.deepcopy(child))
        self.elements = {'Mds': next(root.iter(pm('Mds'))), 'Vmd': next(root.iter(pm('Vmd'))),
                         'Channel': next(root.iter(pm('Channel'))), 'MdDescription': mdd,
                         'GetMdDescriptionResponse': resp}

    def handles(self, cls) -> bool:
        return cls.__module__.endswith('msg_types') and cls.__name__ in self.elements

    def absent(self, member):
        return copy.deepcopy(self.elements[member.cls.__name__])

    def present(self, member, k: int):
        node = copy.deepcopy(self.elements[member.cls.__name__])
        tag = member.prop._sub_element_name  # noqa: SLF001
        holder = node
        if member.kind == 'obj':      # the member is a nested object: its own list is reduced
            holder = node.find(tag)
            tag = f'{{{self.PM}}}Mds'
        kids = holder.findall(tag)
        if len(kids) < k:
            raise MachineryError(f'{member.ident}: fixture has only {len(kids)} {tag}')
        for extra in kids[k:]:
            holder.remove(extra)
        for kid in kids[:k]:          # keep the documents small
            for sub in list(kid):
                if isinstance(sub.tag, str) and etree.QName(sub).localname in self.BIG:
                    kid.remove(sub)
        return node


# --------------------------------------------------------------------------- one (class, member) pair
class Member:
    """Adaptor for one default-valued member of one real class."""

    def __init__(self, module: str, cls, name: str, prop, defined_in: str):
        self.module = module.rsplit('.', 1)[-1]
        self.cls = cls
        self.name = name
        self.prop = prop
        self.defined_in = defined_in
        self.kind = 'list' if is_list_prop(prop) else 'obj'
        self.container = _is_container(cls)
        self.descriptor = type(prop).__name__
        self.default_type = type(prop._default_py_value).__name__ if self.kind == 'obj' else 'list'  # noqa: SLF001
        self.tok: dict[str, str] = {}
        self.xml_absent = b''
        self.xml_present: dict[str, bytes] = {}
        self.pristine_default = None
        self.pristine_key = None
        self.resets = 0
        self.fresh_none = False
        self.unsupported: dict[str, str] = {}
        self.failed_calls: dict[str, int] = {}
        self.source = None   # alternative provider of XML documents (classes the library cannot serialise)

    @property
    def ident(self) -> str:
        return f'{self.module}.{self.cls.__name__}.{self.name}'

    # ---- real operations
    def new(self):
        return construct(self.cls)

    def parse_absent(self):
        return parse(self.cls, self.xml_absent)

    def parse_present(self, v: str):
        return parse(self.cls, self.xml_present[v])

    def mutate(self, inst, v: str) -> bool:
        nested = getattr(inst, self.name)
        if nested is None:
            return False
        k = VALS.index(v) + 1
        if self.kind == 'list':
            replace_content(nested, list_elements(self.prop, k), k)
            return True
        return write_nested(nested, k) > 0

    def value_obj(self, inst):
        return getattr(inst, self.name)

    def token(self, inst) -> str:
        val = getattr(inst, self.name)
        if val is None:
            return 'D0' if self.fresh_none else 'None'
        c = _key(canon(val))
        t = self.tok.get(c)
        if t is None:
            t = 'X' + hashlib.sha1(c.encode()).hexdigest()[:6]
        return t

    def default_obj(self):
        return self.prop._default_py_value if self.kind == 'obj' else None  # noqa: SLF001

    def default_polluted(self) -> bool:
        return self.kind == 'obj' and _key(canon(self.prop._default_py_value)) != self.pristine_key  # noqa: SLF001

    def reset_default(self):
        """Harness reset between independent histories (equivalent to a new process)."""
        self.prop._default_py_value = copy.deepcopy(self.pristine_default)  # noqa: SLF001
        self.resets += 1

    # ---- preparation (before any history is replayed for this pair)
    def _strip_member(self, node):
        xs = _xs()
        p = self.prop
        if isinstance(p, xs._AttributeBase):  # noqa: SLF001
            if p._attribute_name in node.attrib:  # noqa: SLF001
                del node.attrib[p._attribute_name]  # noqa: SLF001
            return
        tag = p._sub_element_name  # noqa: SLF001
        if tag is None:     # the member is the text of the element itself: absent == no text
            node.text = None
            return
        for child in node.findall(tag):
            node.remove(child)
        if node.find(tag) is not None:
            raise MachineryError(f'{self.ident}: member still present in the "absent" XML')

    def _privatise(self, inst):
        """Give inst a private copy of the member value (preparation only: must not touch shared objects)."""
        val = getattr(inst, self.name)
        if val is not None:
            setattr(inst, self.prop._local_var_name, copy.deepcopy(val))  # noqa: SLF001
        return inst

    def _learn(self, inst, t: str):
        val = getattr(inst, self.name)
        c = _key(canon(val))
        old = self.tok.setdefault(c, t)
        if old != t:
            raise MachineryError(f'{self.ident}: abstract values {old} and {t} have the same canonical form {c[:200]}')

    def prepare(self):
        """Build the XML documents and the table canonical form -> abstract value (everything on private copies).

        Operations the library cannot perform for this class at all (documents it cannot write or read back, e.g. a
        data type whose from_node needs constructor arguments) are recorded in self.unsupported and the histories
        that need them are not replayed for this pair; they are outside C12.
        """
        if self.kind == 'obj':
            self.pristine_default = copy.deepcopy(self.prop._default_py_value)  # noqa: SLF001
            self.pristine_key = _key(canon(self.pristine_default))
        fresh = self.new()
        self.fresh_none = getattr(fresh, self.name) is None   # constructor replaced the list default by None
        if self.fresh_none and self.kind == 'obj':
            raise MachineryError(f'{self.ident}: fresh instance has no member value')
        if not self.fresh_none:
            self._learn(fresh, 'D0')
        origins = [self.new]
        # XML document without the member
        try:
            node = self.source.absent(self) if self.source else serialise(self.new())
            self._strip_member(node)
            self.xml_absent = etree.tostring(node)
            absent = self.parse_absent()     # (only read here)
            if getattr(absent, self.name) is not None and self.token(absent).startswith('X'):
                self._learn(absent, 'A0')    # absent member is read as a value of its own (judged leniently)
            origins.append(self.parse_absent)
        except MachineryError:
            raise
        except Exception as ex:  # noqa: BLE001
            self.unsupported['ParseAbsent'] = _reason(ex)
        # XML documents that carry the member
        try:
            for v in VALS:
                if self.source:
                    self.xml_present[v] = etree.tostring(self.source.present(self, VALS.index(v) + 1))
                else:
                    inst = self._privatise(self.new())
                    if self.fresh_none:
                        setattr(inst, self.name, [])
                    if not self.mutate(inst, v):
                        raise MachineryError(f'{self.ident}: no writable place in the nested {self.default_type}')
                    self.xml_present[v] = etree.tostring(serialise(inst))
            for v in VALS:
                inst = self.parse_present(v)     # (only read here)
                if self.token(inst) in ('D0', 'A0', 'None'):
                    raise ValueError('the XML that carries the member is read back as if the member were absent')
                self._learn(inst, v)
            origins += [lambda v=v: self.parse_present(v) for v in VALS]
        except MachineryError:
            raise
        except Exception as ex:  # noqa: BLE001
            self.unsupported['ParsePresent'] = _reason(ex)
        for mk in origins:
            for v in VALS:
                inst = self._privatise(mk())
                if getattr(inst, self.name) is None:
                    if mk == self.new and self.fresh_none:
                        continue
                    raise MachineryError(f'{self.ident}: member is None after {mk}')
                if not self.mutate(inst, v):
                    raise MachineryError(f'{self.ident}: no writable place in the nested {self.default_type}')
                self._learn(inst, v)
        def written():
            inst = self._privatise(self.new())
            if self.fresh_none:
                setattr(inst, self.name, [])
            self.mutate(inst, VALS[-1])
            return inst
        probes = {'DeepCopy': lambda: copy.deepcopy(written())}
        if self.container:
            probes['MkCopy'] = lambda: written().mk_copy()
            probes['UpdateFrom'] = lambda: self.new().update_from_other_container(written())
        else:
            self.unsupported['MkCopy'] = self.unsupported['UpdateFrom'] = 'data type (no such method)'
        for act, probe in probes.items():
            try:
                probe()
            except Exception as ex:  # noqa: BLE001
                self.unsupported[act] = _reason(ex)
        if self.default_polluted():
            raise MachineryError(f'{self.ident}: preparation changed the class default')


def _reason(ex: Exception) -> str:
    txt = str(ex).splitlines()
    return f'{type(ex).__name__}: {txt[0][:160] if txt else ""}'


def discover() -> list[Member]:
    """Every (class, member) pair with an object valued default or a list valued member."""
    xs = _xs()
    import enum
    out = []
    classes = set()
    source = FixtureSource()
    for mn in MODULES:
        mod = importlib.import_module(mn)
        for _, cls in inspect.getmembers(mod, inspect.isclass):
            if cls.__module__ != mn or not hasattr(cls, 'sorted_container_properties') or cls in classes:
                continue
            classes.add(cls)    # (a class may be bound to several names in its module)
            seen = set()
            for klass in reversed(inspect.getmro(cls)):
                for name in klass.__dict__.get('_props', ()):
                    prop = getattr(cls, name, None)
                    if name in seen or not isinstance(prop, xs._XmlStructureBaseProperty):  # noqa: SLF001
                        continue
                    seen.add(name)
                    d = prop._default_py_value  # noqa: SLF001
                    obj_default = d is not None and not isinstance(d, (str, int, float, bool, bytes, Decimal,
                                                                       enum.Enum, etree.QName, tuple, frozenset))
                    if obj_default or is_list_prop(prop):
                        out.append(Member(mn, cls, name, prop, klass.__name__))
                        if source.handles(cls):
                            out[-1].source = source
    return out
