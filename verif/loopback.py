"""In-process transport between real SdcProvider and SdcConsumer objects (no sockets).

A Network holds fake HTTP servers (PathElementRegistry + port) keyed by netloc. LoopbackSoapClient implements
sdc11073's SoapClientProtocol: the message is serialised by the real MessageFactory (XSD validation on), logged, and
handed to the addressee's real MessageConverterMiddleware.do_post - or held / dropped / failed as scripted.
"""
from __future__ import annotations

import time
from dataclasses import dataclass, field
from urllib.parse import urlparse

from sdc11073 import observableproperties
from sdc11073.dispatch.pathelementregistry import PathElementRegistry
from sdc11073.exceptions import InvalidPathError
from sdc11073.namespaces import default_ns_helper as ns_hlp
from sdc11073.pysoap.soapclient import HTTPReturnCodeError
from sdc11073.pysoap.soapenvelope import Fault


class FakeHttpServer:
    """What SdcProvider / SdcConsumer need from a shared http server."""

    def __init__(self, network: 'Network', ip: str, port: int, scheme: str = 'http'):
        self.dispatcher = PathElementRegistry()
        self.server_port = port
        self.ip = ip
        self.scheme = scheme
        self.base_url = f'{scheme}://{ip}:{port}/'
        self.supported_encodings = []
        self.chunk_size = 0
        network.servers[f'{ip}:{port}'] = self

    def stop(self):
        pass


@dataclass
class Wire:
    """One message put on the wire."""

    seq: int
    src: str          # netloc of sender ('' if unknown)
    dst: str          # netloc of addressee
    path: str
    data: bytes
    kind: str = 'post'
    tls: bool = False
    outcome: str = 'delivered'
    status: int | None = None
    response: bytes | None = None


class Network:
    """Registry of fake servers, message log and fault script."""

    def __init__(self):
        self.servers: dict[str, FakeHttpServer] = {}
        self.log: list[Wire] = []
        self.clients: list = []          # every soap client instance ever created (C19)
        # hook: callable(wire) -> None | 'hold' | 'drop' | Exception instance ; consulted for every post
        self.on_post = None
        self.held: list[Wire] = []

    def deliver(self, wire: Wire) -> tuple[int, str, bytes]:
        # order of ARRIVAL at the addressee (the log is in the order in which sending began)
        self.n_delivered = getattr(self, 'n_delivered', 0) + 1
        wire.dseq = self.n_delivered
        server = self.servers.get(wire.dst)
        if server is None:
            raise ConnectionRefusedError(f'no server at {wire.dst}')
        parsed = urlparse(wire.path)
        elements = parsed.path.split('/')
        first = elements[0] if len(elements[0]) > 0 else (elements[1] if len(elements) > 1 else '')
        try:
            component = server.dispatcher.get_instance(first)
        except InvalidPathError as ex:
            wire.status = ex.status
            return ex.status, ex.reason, b''
        import http.client
        headers = http.client.HTTPMessage()
        headers['Host'] = wire.dst
        headers['Accept-Encoding'] = 'identity'
        headers['Content-type'] = 'application/soap+xml; charset=utf-8'
        headers['Content-Length'] = str(len(wire.data))
        status, reason, response = component.do_post(headers, wire.path, ('127.0.0.1', 0), wire.data)
        if isinstance(response, str):
            response = response.encode('utf-8')
        wire.status = status
        wire.response = response
        return status, reason, response

    def release(self, wire: Wire):
        """Deliver a held message now (its original sender is not waiting for the response any more)."""
        self.held.remove(wire)
        wire.outcome = 'delivered-late'
        return self.deliver(wire)

    def redeliver(self, wire: Wire):
        """Deliver a copy of an earlier message again (duplication / replay)."""
        dup = Wire(len(self.log), wire.src, wire.dst, wire.path, wire.data, wire.kind, wire.tls, 'duplicate')
        self.log.append(dup)
        return self.deliver(dup)


class LoopbackSoapClient:
    """SoapClientProtocol implementation over a Network."""

    roundtrip_time = observableproperties.ObservableProperty()
    network: Network = None   # set on a subclass created by mk_client_class

    def __init__(self, netloc, socket_timeout, logger, ssl_context, sdc_definitions, msg_reader,  # noqa: PLR0913
                 supported_encodings=None, request_encodings=None, chunk_size=0):
        self._netloc = netloc
        self._log = logger
        self._ssl_context = ssl_context
        self._msg_reader = msg_reader
        self._sdc_definitions = sdc_definitions
        self.supported_encodings = supported_encodings
        self.request_encodings = request_encodings
        self._closed = True
        self.sock_name = None
        self.network.clients.append(self)

    @property
    def netloc(self):
        return self._netloc

    @property
    def sock(self):
        return None

    def connect(self):
        server = self.network.servers.get(self._netloc)
        if server is None:
            raise ConnectionRefusedError(self._netloc)
        if self._ssl_context is not None and server.scheme != 'https':
            import ssl
            raise ssl.SSLError('WRONG_VERSION_NUMBER (loop-back: peer does not speak TLS)')
        if self._ssl_context is None and server.scheme == 'https':
            raise ConnectionResetError('loop-back: plaintext connection to a TLS server')
        self._closed = False
        self.sock_name = ('127.0.0.1', 50000)

    def close(self):
        self._closed = True
        self.sock_name = None

    async def async_close(self):
        self.close()

    def is_closed(self):
        return self._closed

    def _prepare(self, path, created_message, request_manipulator, validate, absolute=None):
        """Serialise, log, consult the network hook. Returns (wire, early_result or None, delay_seconds).

        absolute: a parsed absolute URL that the (aiohttp based) async client was given instead of a path: aiohttp
        uses such a URL as it is - host, port AND scheme; the TLS context of the session only applies to https."""
        net = self.network
        dst, tls = self._netloc, self._ssl_context is not None
        if absolute is not None:
            dst = absolute.netloc
            tls = absolute.scheme == 'https' and self._ssl_context is not None
            server = net.servers.get(dst)
            if server is None:
                raise ConnectionRefusedError(dst)
            if tls and server.scheme != 'https':
                import ssl
                raise ssl.SSLError('WRONG_VERSION_NUMBER (loop-back: peer does not speak TLS)')
            if not tls and server.scheme == 'https':
                raise ConnectionResetError('loop-back: plaintext connection to a TLS server')
            path = absolute.path + ('?' + absolute.query if absolute.query else '')
        elif self._closed:
            self.connect()
        xml_request = created_message.serialize(request_manipulator=request_manipulator, validate=validate)
        wire = Wire(len(net.log), self.local, dst, path, xml_request, tls=tls)
        net.log.append(wire)
        verdict = net.on_post(wire) if net.on_post is not None else None
        if verdict == 'hold':
            wire.outcome = 'held'
            net.held.append(wire)
            return wire, (None, b''), 0
        if verdict == 'drop':
            wire.outcome = 'dropped'
            return wire, (None, b''), 0
        if isinstance(verdict, BaseException):
            wire.outcome = 'failed:' + type(verdict).__name__
            raise verdict
        if isinstance(verdict, tuple) and verdict[0] == 'delay':
            return wire, None, float(verdict[1])
        if isinstance(verdict, tuple) and verdict[0] == 'after':
            # the message arrives, the answer gets lost: the sender sees the failure
            wire.outcome = 'answer-lost:' + type(verdict[1]).__name__
            try:
                net.deliver(wire)
            except Exception:  # noqa: BLE001
                pass
            raise verdict[1]
        return wire, None, 0

    def _complete(self, wire):
        started = time.perf_counter()
        try:
            status, reason, response = self.network.deliver(wire)
        finally:
            self.roundtrip_time = time.perf_counter() - started
        return (status, reason), response

    def _post(self, path, created_message, request_manipulator, validate):
        wire, early, delay = self._prepare(path, created_message, request_manipulator, validate)
        if early is not None:
            return early
        if delay:
            time.sleep(delay)          # a slow subscriber
        return self._complete(wire)

    def _parse(self, status_reason, response):
        if not response:
            if status_reason is not None and status_reason[0] >= 300:
                raise HTTPReturnCodeError(status_reason[0], status_reason[1], None)
            return None
        message_data = self._msg_reader.read_received_message(response)
        if message_data.action == f'{ns_hlp.WSA.namespace}/fault':
            soap_fault = Fault.from_node(message_data.p_msg.msg_node)
            raise HTTPReturnCodeError(status_reason[0], status_reason[1], soap_fault)
        return message_data

    def post_message_to(self, path, created_message, msg='', request_manipulator=None, validate=True):
        status_reason, response = self._post(path, created_message, request_manipulator, validate)
        return self._parse(status_reason, response)

    async def async_post_message_to(self, path, created_message, msg='', request_manipulator=None, validate=True):
        url = urlparse(path)
        absolute = url if url.scheme in ('http', 'https') and url.netloc else None
        wire, early, delay = self._prepare(path, created_message, request_manipulator, validate, absolute=absolute)
        if early is not None:
            return self._parse(*early)
        if delay:
            import asyncio
            await asyncio.sleep(delay)  # a slow subscriber: other coroutines of the event loop go on meanwhile
        status_reason, response = self._complete(wire)
        return self._parse(status_reason, response)

    def get_from_url(self, url, msg=''):
        server = self.network.servers.get(self._netloc)
        parsed = urlparse(url)
        elements = parsed.path.split('/')
        first = elements[0] if len(elements[0]) > 0 else elements[1]
        component = server.dispatcher.get_instance(first)
        import http.client
        headers = http.client.HTTPMessage()
        headers['Host'] = self._netloc
        status, reason, response, _ctype = component.do_get(headers, url, ('127.0.0.1', 0))
        self.network.log.append(Wire(len(self.network.log), self.local, self._netloc, url, b'', kind='get',
                                     tls=self._ssl_context is not None, status=status))
        return response if isinstance(response, bytes) else response.encode('utf-8')


def mk_client_class(network: Network, local: str):
    """Return a soap client class bound to a network (the classes are deep-copied with the components)."""
    return type('LoopbackSoapClientBound', (LoopbackSoapClient,), {'network': network, 'local': local,
                                                                    '__deepcopy__': lambda self, memo: self})
