"""Factories for an in-process provider (+ consumer) on the loop-back transport."""
from __future__ import annotations

import logging
import uuid

from .loopback import FakeHttpServer, Network, mk_client_class
from .mdibharness import FIXTURE_ONE, _load_repo

logging.getLogger('sdc').setLevel(logging.CRITICAL)


class NullWsDiscovery:
    """Minimal WsDiscoveryProtocol: records what the provider publishes."""

    def __init__(self, ip='127.0.0.1'):
        self.active_address = ip
        self.published = []
        self.cleared = []

    def publish_service(self, epr, types, scopes, x_addrs):
        self.published.append((epr, list(types), scopes, list(x_addrs)))

    def clear_service(self, epr):
        self.cleared.append(epr)

    def get_active_addresses(self):
        return [self.active_address]


class Pair:
    """A real SdcProvider and (optionally) a real SdcConsumer + ConsumerMdib connected by a Network."""

    def __init__(self, mdib=None, fixture=FIXTURE_ONE, async_mgr=False, reference_params=False, with_consumer=True,
                 provider_ssl=None, consumer_ssl=None, force_ssl=False, role_provider='example',
                 max_subscription_duration=7200, shared_server=True, keep_ctx_states=False, consumer_init_mdib=True,
                 alternative_hostname=None, deferred_dispatch=False, instance_id=1, sequence_id=None,
                 periodic_reports_interval=None, transport='loopback', encodings=('gzip',), chunk_size=0,
                 validate=True, location=False):
        _load_repo()
        from sdc11073.consumer.consumerimpl import SdcConsumer, default_components_factory
        from sdc11073.definitions_sdc import SdcV1Definitions
        from sdc11073.dispatch import RequestDispatcher
        from sdc11073.mdib import ProviderMdib
        from sdc11073.mdib.consumermdib import ConsumerMdib
        from sdc11073.provider import SdcProvider
        from sdc11073.provider.providerimpl import (provider_components_async_factory,
                                                    provider_components_sync_factory)
        from sdc11073.provider.subscriptionmgr import ReferenceParamSubscriptionsManager
        from sdc11073.provider.subscriptionmgr_async import SubscriptionsManagerReferenceParamAsync
        from sdc11073.xml_types.dpws_types import ThisDeviceType, ThisModelType

        self.net = Network()
        self.wsd = NullWsDiscovery()
        # transport 'fullstack': the real SoapClient on an in-memory connection answered by the real HTTP request
        # handler (sync managers only: the async manager's aiohttp client stays on the plain loop-back transport)
        full = transport == 'fullstack'
        if full:
            from .fullstack import mk_fullstack_client_class
        mk_sync_class = mk_fullstack_client_class if full else mk_client_class
        if mdib is None:
            mdib = ProviderMdib.from_mdib_file(fixture)
            if not keep_ctx_states:
                mdib.context_states.clear()
                mdib.context_states.handle_version_lookup.clear()
        mdib.instance_id = instance_id
        if sequence_id is not None:
            mdib.sequence_id = sequence_id
        self.mdib = mdib
        comps = provider_components_async_factory() if async_mgr else provider_components_sync_factory()
        comps.soap_client_class = (mk_client_class if async_mgr else mk_sync_class)(self.net, 'provider')
        if reference_params:
            cls = SubscriptionsManagerReferenceParamAsync if async_mgr else ReferenceParamSubscriptionsManager
            comps.subscriptions_manager_class = {'StateEvent': cls, 'Set': cls}
        role_components = None
        if role_provider == 'example':
            from tutorial.productandroles.exampleproduct import EXAMPLE_ROLE_PROVIDER_COMPONENTS
            role_components = EXAMPLE_ROLE_PROVIDER_COMPONENTS
        elif role_provider is not None:
            role_components = role_provider
        model = ThisModelType(manufacturer='Verif', manufacturer_url='www.example.com', model_name='VerifDevice',
                              model_number='1.0', model_url='www.example.com/model',
                              presentation_url='www.example.com/presentation')
        device = ThisDeviceType(friendly_name='Verif Device', firmware_version='0.1', serial_number='1')
        self.provider = SdcProvider(self.wsd, model, device, mdib, epr=uuid.UUID(int=1), validate=validate,
                                    ssl_context_container=provider_ssl,
                                    max_subscription_duration=max_subscription_duration, components=comps,
                                    role_provider_components=role_components,
                                    alternative_hostname=alternative_hostname, chunk_size=chunk_size if full else 0)
        p_scheme = 'https' if provider_ssl is not None else 'http'
        self.pserver = FakeHttpServer(self.net, '127.0.0.1', 10001, p_scheme)
        if full:
            self.pserver.supported_encodings, self.pserver.chunk_size = list(encodings), chunk_size
        self.provider.start_all(start_rtsample_loop=False, shared_http_server=self.pserver,
                                periodic_reports_interval=periodic_reports_interval)
        # no autonomous device activity: the tutorial alarm provider re-checks the alert systems from a worker thread and
        # commits a transaction every few seconds - in the middle of whatever a harness is observing
        for product in self.provider.product_lookup.values():
            for role in getattr(product, '_ordered_role_providers', []):
                if hasattr(role, '_stop_worker'):
                    role._stop_worker.set()  # noqa: SLF001
        if location:
            # a device that knows where it is: every LocationContextDescriptor has an associated state
            from sdc11073.location import SdcLocation
            self.provider.set_location(SdcLocation(fac='fac1', poc='poc1', bed='bed1'))
        self.consumer = None
        self.cmdib = None
        if with_consumer:
            ccomps = default_components_factory()
            ccomps.soap_client_class = mk_sync_class(self.net, 'consumer')
            if not deferred_dispatch:
                ccomps.action_dispatcher_class = RequestDispatcher
            x_addr = self.provider.get_xaddrs()[0]
            self.consumer = SdcConsumer(x_addr, SdcV1Definitions, consumer_ssl, epr=uuid.UUID(int=2),
                                        validate=validate, components=ccomps, force_ssl_connect=force_ssl,
                                        request_chunk_size=chunk_size if full else 0)
            c_scheme = 'https' if (consumer_ssl is not None) else 'http'
            self.cserver = FakeHttpServer(self.net, '127.0.0.1', 10002, c_scheme)
            if full:
                self.cserver.supported_encodings, self.cserver.chunk_size = list(encodings), chunk_size
            self.consumer.start_all(shared_http_server=self.cserver, fixed_renew_interval=100000)
            if consumer_init_mdib:
                self.cmdib = ConsumerMdib(self.consumer)
                self.cmdib.init_mdib()
            self.renew_all()

    def renew_all(self, seconds=3600):
        """Renew all consumer subscriptions (long-lived sessions outlive the 60 s the consumer asks for)."""
        for sub in list(self.consumer.subscription_mgr.subscriptions.values()):
            sub.renew(seconds)

    def stop(self, send_subscription_end=False):
        """Stop without waiting for the 1 s sleep loops of the (daemon) housekeeping / renew threads."""
        class _NoJoin:
            def join(self, timeout=None):
                return None
        try:
            if self.consumer is not None:
                mgr = self.consumer._subscription_mgr  # noqa: SLF001
                if mgr is not None:
                    mgr._run = False  # noqa: SLF001
                    mgr.join = lambda timeout=None: None
                self.consumer.stop_all(unsubscribe=False)
        finally:
            for mgr in self.provider._subscriptions_managers.values():  # noqa: SLF001
                mgr._run_housekeeping_thread = False  # noqa: SLF001
                mgr._housekeeping_thread = _NoJoin()  # noqa: SLF001
            self.provider.stop_all(send_subscription_end=send_subscription_end)
