"""Harness pieces for C17: the real sdc11073 HTTP code driven over in-memory sockets.

Only the socket is faked.  Everything else is the real code:
  * server side: sdc11073.httpserver.httprequesthandler.DispatchingRequestHandler (-> HTTPReader.read_request_body,
    _compress_if_supported, mk_chunks) constructed over a FakeSock, exactly as socketserver would do
  * client side: sdc11073.pysoap.soapclient.SoapClient._send_soap_request / get_from_url over a real
    http.client.HTTPConnection whose `sock` is a LoopSock (-> http.client.HTTPResponse, HTTPReader.read_response_body)
  * notification side: ActionBasedSubscriptionsManager / BICEPSSubscriptionsManagerBaseAsync._mk_subscription_instance,
    SoapClientPool, SdcProvider._mk_soap_client, SoapClient / SoapClientAsync (the async client posts through a real
    aiohttp session to an in-process TCP server that records the wire bytes: checks/c17.py AsyncWire)
Every stream handed to the real readers counts its read calls; exceeding the budget raises Spin (a BaseException), so
an endless loop in the code under test is observed as a result.
"""
from __future__ import annotations

import asyncio
import io
import logging
import re
import types
from http.client import HTTPConnection, HTTPResponse, parse_headers
from urllib.parse import urlsplit

logging.getLogger('sdc').setLevel(logging.CRITICAL + 1)


class Spin(BaseException):
    """The code under test asked for more reads than any terminating reader can need."""


class WatchedIO(io.BytesIO):
    """BytesIO with a budget of read calls (read-count watchdog)."""

    def __init__(self, data: bytes, budget: int | None = None):
        super().__init__(data)
        self.reads = 0
        self.budget = budget if budget is not None else 4 * len(data) + 64

    def _tick(self):
        self.reads += 1
        if self.reads > self.budget:
            raise Spin

    def read(self, *a):
        self._tick()
        return super().read(*a)

    def read1(self, *a):
        self._tick()
        return super().read1(*a)

    def readinto(self, b):
        self._tick()
        return super().readinto(b)

    def readline(self, *a):
        self._tick()
        return super().readline(*a)


def guarded(fn):
    """-> (res, value): ('body', bytes|None) | ('reject', exception class name) | ('spin', None)."""
    try:
        return 'body', fn()
    except Spin:
        return 'spin', None
    except Exception as ex:  # noqa: BLE001
        return 'reject', type(ex).__name__


# ------------------------------------------------------------------------------------------ direct reader calls
def dechunk_direct(stream: bytes):
    from sdc11073.httpserver.httpreader import HTTPReader
    return guarded(lambda: HTTPReader._read_dechunk(WatchedIO(stream)))  # noqa: SLF001


def read_request_body(header_lines: list[tuple[str, str]], payload: bytes):
    """HTTPReader.read_request_body on a message object that has what a BaseHTTPRequestHandler has."""
    from sdc11073.httpserver.httpreader import HTTPReader
    raw = ''.join(f'{k}: {v}\r\n' for k, v in header_lines).encode('latin-1') + b'\r\n'
    msg = types.SimpleNamespace(headers=parse_headers(io.BytesIO(raw)), rfile=WatchedIO(payload))
    return guarded(lambda: HTTPReader.read_request_body(msg))


# ------------------------------------------------------------------------------------------ server side
class FakeSock:
    """What socketserver hands to a StreamRequestHandler, backed by memory."""

    def __init__(self, data: bytes):
        self.rfile = WatchedIO(data)
        self.out = bytearray()

    def makefile(self, mode, *a, **kw):  # noqa: ARG002
        if 'r' not in mode:
            raise AssertionError('unexpected makefile mode ' + mode)
        return self.rfile

    def sendall(self, data):
        self.out += data

    def getpeername(self):
        return ('127.0.0.1', 40000)

    def settimeout(self, t):
        pass

    def setsockopt(self, *a):
        pass

    def shutdown(self, *a):
        pass

    def close(self):
        pass


class _NullLogger:
    def __getattr__(self, name):
        return lambda *a, **kw: None


class _Component:
    def __init__(self, response: bytes):
        self.response = response
        self.received = []  # (headers, body)

    def do_post(self, headers, path, peer_name, request_bytes):  # noqa: ARG002
        self.received.append((headers, request_bytes))
        return 200, 'Ok', self.response

    def do_get(self, headers, path, peer_name):  # noqa: ARG002
        self.received.append((headers, None))
        return 200, 'Ok', self.response, 'text/xml'


class _Dispatcher:
    def __init__(self, comp):
        self.comp = comp

    def get_instance(self, path_element):  # noqa: ARG002
        return self.comp


_HANDLER = None


def _handler_class():
    """The real DispatchingRequestHandler; only BaseHTTPRequestHandler's printing to stderr is silenced."""
    global _HANDLER  # noqa: PLW0603
    if _HANDLER is None:
        from sdc11073.httpserver.httprequesthandler import DispatchingRequestHandler

        class QuietHandler(DispatchingRequestHandler):
            def log_message(self, format, *args):  # noqa: A002
                pass

        _HANDLER = QuietHandler
    return _HANDLER


class Served:
    __slots__ = ('delivered', 'delivered_headers', 'exc', 'raw_response', 'res')


def serve(raw_request: bytes, enabled: list[str], chunk_size: int, response: bytes) -> Served:
    """Run the real DispatchingRequestHandler on the bytes of one connection."""
    sock = FakeSock(raw_request)
    comp = _Component(response)
    server = types.SimpleNamespace(dispatcher=_Dispatcher(comp), supported_encodings=enabled, chunk_size=chunk_size,
                                   logger=_NullLogger())
    out = Served()
    out.exc = None
    try:
        _handler_class()(sock, ('127.0.0.1', 40000), server)
        out.res = 'ok'
    except Spin:
        out.res = 'spin'
    except Exception as ex:  # noqa: BLE001  (socketserver would log it and drop the connection)
        out.res = 'reject'
        out.exc = type(ex).__name__
    out.delivered = comp.received[0][1] if comp.received else None
    out.delivered_headers = comp.received[0][0] if comp.received else None
    out.raw_response = bytes(sock.out)
    return out


def mk_request(method: str, path: str, header_lines: list[tuple[str, str]], payload: bytes) -> bytes:
    head = f'{method} {path} HTTP/1.1\r\nHost: h\r\n' + ''.join(f'{k}: {v}\r\n' for k, v in header_lines) + '\r\n'
    return head.encode('latin-1') + payload


def mk_response(header_lines: list[tuple[str, str]], payload: bytes) -> bytes:
    head = 'HTTP/1.1 200 Ok\r\n' + ''.join(f'{k}: {v}\r\n' for k, v in header_lines) + '\r\n'
    return head.encode('latin-1') + payload


def split_head(raw: bytes) -> tuple[dict, bytes]:
    """Header fields (lower-case names) and everything after the first empty line of a raw message."""
    idx = raw.find(b'\r\n\r\n')
    if idx < 0:
        return {}, b''
    lines = raw[:idx].decode('latin-1').split('\r\n')[1:]
    hdr = {}
    for ln in lines:
        k, _, v = ln.partition(':')
        hdr[k.strip().lower()] = v.strip()
    return hdr, raw[idx + 4:]


# ------------------------------------------------------------------------------------------ client side
class _RespSock:
    def __init__(self, data: bytes):
        self.fp = WatchedIO(data)

    def makefile(self, mode, *a, **kw):  # noqa: ARG002
        return self.fp


def read_response(raw_response: bytes, method: str = 'POST'):
    """http.client.HTTPResponse + HTTPReader.read_response_body on raw bytes -> (res, value, headers)."""
    from sdc11073.httpserver.httpreader import HTTPReader
    holder = {}

    def run():
        resp = HTTPResponse(_RespSock(raw_response), method=method)
        resp.begin()
        holder['headers'] = {k.lower(): v for k, v in resp.getheaders()}
        return HTTPReader.read_response_body(resp)

    res, val = guarded(run)
    return res, val, holder.get('headers', {})


def rest_after_first_response(raw: bytes) -> bytes:
    """The bytes that follow the first complete HTTP response in raw (responses of one keep-alive connection)."""
    import io as _io

    class _KeepOpen(_io.BytesIO):
        def close(self):   # http.client closes the file when the response is complete; the position is needed after
            pass
    fp = _KeepOpen(raw)

    class _S:
        def makefile(self, mode, *a, **kw):  # noqa: ARG002
            return fp
    resp = HTTPResponse(_S(), method='POST')
    resp.begin()
    resp.read()
    return raw[fp.tell():]


class LoopSock:
    """Client socket whose peer is `peer(raw_request) -> raw_response`, evaluated when the client starts reading."""

    def __init__(self, peer):
        self.peer = peer
        self.sent = bytearray()
        self.raw_response = None

    def sendall(self, data):
        if hasattr(data, 'read'):
            data = data.read()
        self.sent += data

    def makefile(self, mode, *a, **kw):  # noqa: ARG002
        self.raw_response = self.peer(bytes(self.sent))
        return WatchedIO(self.raw_response)

    def settimeout(self, t):
        pass

    def setsockopt(self, *a):
        pass

    def getsockname(self):
        return ('127.0.0.1', 40001)

    def close(self):
        pass


def _logger():
    from sdc11073 import loghelper
    return loghelper.get_logger_adapter('sdc.verif.c17')


def mk_sync_client(supported, request_encodings, chunk_size):
    from sdc11073.pysoap.soapclient import SoapClient
    return SoapClient('peer:80', 1, _logger(), None, None, None, supported_encodings=supported,
                      request_encodings=request_encodings, chunk_size=chunk_size)


def attach(client, peer) -> LoopSock:
    """Give a real SoapClient a real HTTPConnection over a LoopSock."""
    conn = HTTPConnection('peer', 80)
    sock = LoopSock(peer)
    conn.sock = sock
    client._http_connection = conn  # noqa: SLF001
    return sock


def sync_post(client, path: str, body: bytes):
    """SoapClient._send_soap_request -> (res, content | exception name)."""
    return guarded(lambda: client._send_soap_request(path, body, 'c17')[1])  # noqa: SLF001


def sync_get(client, path: str):
    return guarded(lambda: client.get_from_url(path, 'c17'))


# ------------------------------------------------------------------------------------------ notification side
_LOOP = None


def run_coro(coro):
    global _LOOP  # noqa: PLW0603
    if _LOOP is None:
        _LOOP = asyncio.new_event_loop()
    return _LOOP.run_until_complete(coro)


def close_loop():
    global _LOOP  # noqa: PLW0603
    if _LOOP is not None:
        _LOOP.close()
        _LOOP = None


_SUBSCRIBE_NODE = None


def _subscribe_node():
    global _SUBSCRIBE_NODE  # noqa: PLW0603
    if _SUBSCRIBE_NODE is None:
        import sdc11073.definitions_sdc  # noqa: F401
        from sdc11073.xml_types import eventing_types as evt_types
        sub = evt_types.Subscribe()
        sub.set_filter('http://some/action')
        sub.Delivery.NotifyTo.Address = 'http://subscriber:8080/notify'
        _SUBSCRIBE_NODE = sub.as_etree_node(evt_types.Subscribe.NODETYPE, {})
    return _SUBSCRIBE_NODE


def notification_client(accept_encoding: str | None, enabled: list[str], chunk_size: int, is_async: bool):
    """The soap client a provider would use for notifications to a subscriber that sent this Accept-Encoding.

    Real path: <manager>._mk_subscription_instance(request_data) -> subscription._get_soap_client()
               -> SoapClientPool.get_soap_client -> SdcProvider._mk_soap_client -> SoapClient[Async](...)
    """
    from sdc11073.provider.providerimpl import SdcProvider
    from sdc11073.provider.subscriptionmgr import ActionBasedSubscriptionsManager
    from sdc11073.provider.subscriptionmgr_async import BICEPSSubscriptionsManagerBaseAsync
    from sdc11073.pysoap.soapclient import SoapClient
    from sdc11073.pysoap.soapclient_async import SoapClientAsync
    from sdc11073.pysoap.soapclientpool import SoapClientPool

    raw = (f'Accept-Encoding: {accept_encoding}\r\n' if accept_encoding is not None else '') + '\r\n'
    request_data = types.SimpleNamespace(
        http_header=parse_headers(io.BytesIO(raw.encode('latin-1'))),
        message_data=types.SimpleNamespace(p_msg=types.SimpleNamespace(msg_node=_subscribe_node())))
    provider = types.SimpleNamespace(
        _components=types.SimpleNamespace(soap_client_class=SoapClientAsync if is_async else SoapClient),
        _socket_timeout=1, _log_prefix='', _ssl_context_container=None,
        _mdib=types.SimpleNamespace(sdc_definitions=None), msg_reader=None,
        _compression_methods=enabled, chunk_size=chunk_size)
    pool = SoapClientPool(lambda netloc, acc: SdcProvider._mk_soap_client(provider, netloc, acc), '')  # noqa: SLF001
    mgr_cls = BICEPSSubscriptionsManagerBaseAsync if is_async else ActionBasedSubscriptionsManager
    mgr = types.SimpleNamespace(base_urls=[urlsplit('http://provider:80/x')], _max_subscription_duration=100,
                                _soap_client_pool=pool, _msg_factory=None, _logger=_logger(),
                                supported_filter_dialect=ActionBasedSubscriptionsManager.supported_filter_dialect,
                                subscription_cls=ActionBasedSubscriptionsManager.subscription_cls)
    subscription = mgr_cls._mk_subscription_instance(mgr, request_data)  # noqa: SLF001
    return subscription._get_soap_client()  # noqa: SLF001


# ------------------------------------------------------------------------------------------ python mirrors
_SIZE_LINE = re.compile(rb'\A([0-9a-fA-F]{1,6})(;.*)?\Z', re.DOTALL)


def py_parse_chunked(stream: bytes):
    """Strict HTTP/1.1 chunked-body grammar (no trailers) -> (ok, body, used, number of chunks read).

    Mirror of HttpFraming!Parse restricted to strict spellings; used for bodies too large for TLC and
    cross-checked against TLC on every small case (clause harness_parser_agrees).
    """
    pos = 0
    parts = []
    n = len(stream)
    count = 0
    while True:
        e = stream.find(b'\r\n', pos)
        if e < 0:
            return False, b'', 0, count
        m = _SIZE_LINE.match(stream[pos:e])
        if not m:
            return False, b'', 0, count
        size = int(m.group(1), 16)
        d = e + 2
        if d + size + 2 > n or stream[d + size:d + size + 2] != b'\r\n':
            return False, b'', 0, count
        count += 1
        if size == 0:
            return True, b''.join(parts), d + 2, count
        parts.append(stream[d:d + size])
        pos = d + size + 2


_FRAMING_CYCLE = bytes([13, 10, 48, 13, 10, 13, 10, 49, 59])
_HEXISH_CYCLE = bytes([48, 97, 70, 45, 59, 32, 49, 120])


def pattern_body(n: int, pat: str) -> bytes:
    """Mirror of HttpFraming!Body (checked against the TLC-emitted bodies of all small cases)."""
    if pat == 'distinct':
        cyc = bytes(range(128, 256))
    elif pat == 'framing':
        cyc = _FRAMING_CYCLE
    elif pat == 'hexish':
        cyc = _HEXISH_CYCLE
    else:
        raise ValueError(pat)
    return (cyc * (n // len(cyc) + 1))[:n]
