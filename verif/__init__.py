"""Model-based verification machinery for sdc11073 (TLA+ specs + TLC + conformance harnesses)."""
