"""Provider + consumer on the loop-back transport, driven by Mdib.tla behaviours (C01, C04 content, C06)."""
from __future__ import annotations

from .mdibharness import MAP_D, MAPPINGS, Projector, content
from .checks.mdibcommon import C03Replayer
from .pair import Pair
from .tlc import MachineryError


class VClock:
    """Virtual wall clock: every reading is (k + 0.25) ms, strictly increasing."""

    def __init__(self, start_ms=1_700_000_000_000):
        self.k = start_ms
        import time as _t
        self._real = _t

    def time(self):
        self.k += 1
        return (self.k + 0.25) / 1000.0

    def __getattr__(self, name):
        return getattr(self._real, name)


_CLOCK = None


def install_clock():
    """Replace the module global `time` of the provider-side modules that stamp states."""
    global _CLOCK  # noqa: PLW0603
    if _CLOCK is None:
        _CLOCK = VClock()
        import sdc11073.mdib.providermdibxtra as x1
        import sdc11073.mdib.transactions as x2
        import sdc11073.mdib.statecontainers as x3
        for mod in (x1, x2, x3):
            mod.time = _CLOCK
    return _CLOCK


REPORT_CLASSES = {
    'EpisodicMetricReport': 'metric', 'EpisodicAlertReport': 'alert', 'EpisodicComponentReport': 'comp',
    'EpisodicOperationalStateReport': 'op', 'EpisodicContextReport': 'context', 'WaveformStream': 'rt',
    'DescriptionModificationReport': 'descr',
}
OBSERVABLES = {'metrics_by_handle': 'S', 'waveform_by_handle': 'S', 'alert_by_handle': 'S', 'component_by_handle': 'S',
               'operation_by_handle': 'S', 'context_by_handle': 'C', 'new_descriptors_by_handle': 'Dnew',
               'updated_descriptors_by_handle': 'Dupd', 'deleted_descriptors_by_handle': 'Ddel'}


class MirrorSession(C03Replayer):
    """MdibReplayer on the provider MDIB of a Pair; records consumer projection, wire reports and observables."""

    def __init__(self, handles, ctx_handles, hold_notifications=False, mapping='one', **pair_kw):
        install_clock()
        fixture, map_d = MAPPINGS[mapping]
        self.pair = Pair(fixture=fixture, **pair_kw)
        super().__init__(handles, ctx_handles, mdib=self.pair.mdib, map_d=map_d)
        self.cproj = Projector(handles, ctx_handles, map_d=map_d)
        self.cproj.tokens = self.proj.tokens          # common token table -> comparable tokens
        self.cproj.map_c = self.proj.map_c            # shared (uuid handles are learnt on the provider side)
        self.log_pos = len(self.pair.net.log)
        self.fired = {}
        self.hold = hold_notifications
        self._bind_observables()
        self.reader = self.pair.consumer.msg_reader

    def _bind_observables(self):
        from sdc11073 import observableproperties as op
        cm = self.pair.cmdib

        def mk(name):
            def cb(value):
                if value:
                    self.fired.setdefault(name, []).append(value)
            return cb
        self._cbs = {name: mk(name) for name in OBSERVABLES}
        op.bind(cm, **self._cbs)

    # ---------------------------------------------------------------- projections
    def csnapshot(self):
        cm = self.pair.cmdib
        p = self.cproj.project(cm)
        p['seq'] = self.proj.tokens.tok(['seq', cm.sequence_id])
        p['inst'] = -1 if cm.instance_id is None else int(cm.instance_id)
        return p

    def snapshot(self):
        p = super().snapshot()
        p['seq'] = self.proj.tokens.tok(['seq', self.mdib.sequence_id])
        p['inst'] = -1 if self.mdib.instance_id is None else int(self.mdib.instance_id)
        return p

    def abstract_state_handle(self, st):
        if st.is_context_state:
            inv = {c: a for a, c in self.proj.map_c.items()}
            a = inv.get(st.Handle)
            return a if a in self.proj.ctx_handles else 'other'
        a = self.proj.abstract_d(st.DescriptorHandle)
        return a if a != 'ext' else 'other'

    def own_mds(self, descriptor_handle, mdib=None):
        mdib = mdib or self.mdib
        d = mdib.descriptions.handle.get_one(descriptor_handle, allow_none=True)
        n = 0
        while d is not None and d.parent_handle is not None and n < 30:
            d = mdib.descriptions.handle.get_one(d.parent_handle, allow_none=True)
            n += 1
        return d.Handle if d is not None else 'unknown'

    # ---------------------------------------------------------------- wire
    def parse_report(self, wire):
        """Parse one notification from the wire into the abstract report record used by the trace spec."""
        md = self.reader.read_received_message(wire.data)
        name = md.q_name.localname
        if name not in REPORT_CLASSES:
            return None
        model = self.mdib.data_model
        cls = getattr(model.msg_types, name)
        report = cls.from_node(md.p_msg.msg_node)
        vg = md.mdib_version_group
        rec = {'kind': REPORT_CLASSES[name], 'mver': vg.mdib_version,
               'seq': self.proj.tokens.tok(['seq', vg.sequence_id]),
               'inst': -1 if vg.instance_id is None else int(vg.instance_id), 'valid': True, 'entries': [],
               'wire': wire.seq}
        try:
            self.reader._validate_node(md.p_msg.msg_node) if hasattr(self.reader, '_validate_node') else None  # noqa: SLF001
        except Exception:  # noqa: BLE001
            rec['valid'] = False

        def st_entry(st, mds, mod='Upt'):
            k = 'C' if st.is_context_state else 'S'
            return {'k': k, 'h': self.abstract_state_handle(st), 'mod': mod, 'ver': st.StateVersion,
                    'dver': st.DescriptorVersion, 'tok': self.proj.tokens.tok(content(st)),
                    'mds': mds or 'none', 'own': self.last_mds.get(st.DescriptorHandle, 'unknown'), 'parent': 'none'}

        if name == 'WaveformStream':
            for st in report.State:
                e = st_entry(st, None)
                e['mds'] = e['own']   # a waveform stream has no report parts
                rec['entries'].append(e)
        elif name == 'DescriptionModificationReport':
            for part in report.ReportPart:
                mod = part.ModificationType.value
                for d in part.Descriptor:
                    a = self.proj.abstract_d(d.Handle)
                    rec['entries'].append({'k': 'D', 'h': a if a != 'ext' else 'other', 'mod': mod,
                                           'ver': d.DescriptorVersion, 'dver': 0,
                                           'tok': self.proj.tokens.tok(content(d)), 'mds': part.SourceMds or 'none',
                                           'own': self.last_mds.get(d.Handle, 'unknown'),
                                           'parent': self.parent_abs(part.ParentDescriptor)})
                for st in part.State:
                    rec['entries'].append(st_entry(st, part.SourceMds, mod))
        else:
            for part in report.ReportPart:
                for st in part.values_list:
                    rec['entries'].append(st_entry(st, part.SourceMds))
        return rec

    def parent_abs(self, concrete):
        if concrete is None:
            return 'ext'
        inv = {c: a for a, c in self.proj.map_d.items() if a in self.proj.handles}
        seen = 0
        cur = concrete
        while cur is not None and seen < 20:
            if cur in inv:
                return inv[cur]
            cur = self.parents.get(cur)
            seen += 1
        return 'ext'

    def _remember_topology(self):
        """MDS and parent of every descriptor, remembered across deletion (needed to judge Del parts)."""
        for d in self.mdib.descriptions.objects:
            self.parents[d.Handle] = d.parent_handle
        for d in self.mdib.descriptions.objects:
            cur, n = d.Handle, 0
            while self.parents.get(cur) is not None and n < 30:
                cur = self.parents[cur]
                n += 1
            self.last_mds[d.Handle] = cur

    def new_wires(self):
        log = self.pair.net.log
        out = [w for w in log[self.log_pos:] if w.src == 'provider' and w.kind == 'post']
        self.log_pos = len(log)
        return out

    def fired_sets(self):
        out = {'S': [], 'C': [], 'Dnew': [], 'Dupd': [], 'Ddel': []}
        inv_c = {c: a for a, c in self.proj.map_c.items()}
        for name, values in self.fired.items():
            cat = OBSERVABLES[name]
            for d in values:
                for cont in d.values():
                    if cat == 'C':
                        a = inv_c.get(cont.Handle)
                        a = a if a in self.proj.ctx_handles else 'other'
                    elif cat == 'S':
                        a = self.proj.abstract_d(cont.DescriptorHandle)
                    else:
                        a = self.proj.abstract_d(cont.Handle)
                    a = 'other' if a == 'ext' else a
                    if a not in out[cat]:
                        out[cat].append(a)
        self.fired = {}
        return out

    # ---------------------------------------------------------------- stepping
    def start(self):
        self.parents = {}
        self.last_mds = {}
        self.truth = {}
        self._remember_topology()
        tr = super().start()
        tr[0]['cpost'] = self.csnapshot()
        tr[0]['reports'] = []
        tr[0]['fired'] = self.fired_sets()
        tr[0]['store'], tr[0]['truth'] = [], {}
        self.new_wires()
        return tr

    def step(self, rec):
        self._remember_topology()
        out = super().step(rec)
        self._remember_topology()
        reports = []
        for w in self.new_wires():
            r = self.parse_report(w)
            if r is not None:
                reports.append(r)
        out['reports'] = reports
        out['cpost'] = self.csnapshot()
        out['fired'] = self.fired_sets()
        out['store'], out['truth'] = self.store_projection(out)
        out['reads'] = self.read_requests(out) if (out['act'] == 'Commit' and out['res'] == 'ok') else []
        return out

    def read_requests(self, out):
        """Read-only requests of a consumer between two commits (GetContextStates / GetMdState with an MDS handle, a
        descriptor handle, no handle; GetMdDescription): stuttering steps of the model - the provider MDIB, its
        lookups included, is what it was."""
        from .mdibharness import table_agrees
        mdib = self.pair.mdib
        pm = mdib.data_model.pm_names
        self.n_reads = getattr(self, 'n_reads', 0) + 1
        k = self.n_reads
        mds = sorted(d.Handle for d in mdib.descriptions.objects if d.NODETYPE == pm.MdsDescriptor)
        ctxd = sorted(d.Handle for d in mdib.descriptions.objects if d.is_context_descriptor)
        one_mds = [mds[k % len(mds)]]
        ctx_args = [one_mds, one_mds + ctxd[:1], ctxd[-1:], None, list(mds)][k % 5]
        md_args = [one_mds, None, [self.proj.map_d['m1']], ctxd[:1]][k % 4]
        cons = self.pair.consumer
        calls = [('GetContextStates', cons.context_service_client.get_context_states, ctx_args),
                 ('GetMdState', cons.get_service_client.get_md_state, md_args)]
        if k % 3 == 0:
            calls.append(('GetMdDescription', cons.get_service_client.get_md_description, one_mds))
        before = self.proj.project(mdib)
        reads = []
        for name, fn, arg in calls:
            try:
                fn(arg)
                exc = ''
            except Exception as ex:  # noqa: BLE001
                exc = type(ex).__name__
            after = self.proj.project(mdib)
            reads.append({'req': name, 'handles': list(arg or []), 'exc': exc, 'same': after == before,
                          'agree': bool(table_agrees(mdib.descriptions) and table_agrees(mdib.states)
                                        and table_agrees(mdib.context_states))})
        self.new_wires()   # (requests and their answers are not reports)
        return reads

    def store_projection(self, out):
        """State copies retained by the periodic reports handler, with the truth of the versions they are labelled with."""
        handler = self.pair.provider._periodic_reports_handler  # noqa: SLF001
        if out['act'] == 'Commit' and out['res'] == 'ok':
            p = out['post']
            self.truth[str(p['mver'])] = {'S': p['S'], 'C': p['C']}
        store = []
        for name in ('_periodic_metric_reports', '_periodic_alert_reports', '_periodic_component_state_reports',
                     '_periodic_context_state_reports', '_periodic_operational_state_reports'):
            lst = getattr(handler, name, None)
            if lst is None:
                continue
            del lst[:-3]
            for ps in lst:
                entries = []
                for st in ps.states:
                    h = self.abstract_state_handle(st)
                    if h != 'other':
                        entries.append({'k': 'C' if st.is_context_state else 'S', 'h': h, 'ver': st.StateVersion,
                                        'tok': self.proj.tokens.tok(content(st))})
                store.append({'mver': ps.mdib_version, 'entries': entries})
        keep = {str(s['mver']) for s in store}
        return store, {k: v for k, v in self.truth.items() if k in keep}

    def close(self):
        self.pair.stop()
