"""Controlled scheduling of real threads at lock-acquire/release granularity (C07, C04 order, C06 load race).

TracedLock wraps the real lock objects of an instance; traced points first report (thread, event) to the Scheduler
and then block until the scheduler grants that thread its next step.  In recording mode nothing blocks: the events
of each thread are just collected (the "thread program" handed to Threads.tla).
"""
from __future__ import annotations

import threading

from .tlc import MachineryError

STEP_TIMEOUT = 10.0


class Scheduler:
    def __init__(self, record_only=False):
        self.record_only = record_only
        self.cv = threading.Condition()
        self.turn = None                 # thread id allowed to pass its current traced point
        self.parked = {}                 # tid -> event it is waiting to perform
        self.finished = set()
        self.events = []                 # (tid, event) in execution order
        self.programs = {}               # tid -> [event,...]
        self.tids = {}                   # threading ident -> tid
        self.failed = None

    # ------------------------------------------------------------------ called from traced code
    def tid(self):
        return self.tids.get(threading.get_ident())

    def point(self, op, lock='none'):
        tid = self.tid()
        if tid is None:
            return                       # untraced thread (housekeeping, event loop, ...)
        ev = {'op': op, 'lock': lock}
        if self.record_only:
            self.programs.setdefault(tid, []).append(ev)
            self.events.append((tid, ev))
            return
        with self.cv:
            self.parked[tid] = ev
            self.cv.notify_all()
            ok = self.cv.wait_for(lambda: self.turn == tid or self.failed is not None, timeout=STEP_TIMEOUT)
            if not ok or self.failed is not None:
                self.failed = self.failed or f'thread {tid} was never granted {ev}'
                raise MachineryError(self.failed)
            self.turn = None
            del self.parked[tid]
            self.events.append((tid, ev))
            self.programs.setdefault(tid, []).append(ev)

    # ------------------------------------------------------------------ controller side
    def spawn(self, tid, fn):
        def body():
            self.tids[threading.get_ident()] = tid
            try:
                self.point('begin')
                fn()
            except MachineryError:
                pass
            except BaseException as ex:  # noqa: BLE001
                self.errors[tid] = ex
            finally:
                with self.cv:
                    self.finished.add(tid)
                    self.cv.notify_all()
        if not hasattr(self, 'errors'):
            self.errors = {}
        th = threading.Thread(target=body, name=f'sched-{tid}', daemon=True)
        th.start()
        return th

    def wait_parked_or_finished(self, tid):
        with self.cv:
            ok = self.cv.wait_for(lambda: tid in self.parked or tid in self.finished, timeout=STEP_TIMEOUT)
            if not ok:
                self.failed = f'thread {tid} neither reached a traced point nor finished (blocked on an untraced lock?)'
                self.cv.notify_all()
                raise MachineryError(self.failed)

    def grant(self, tid):
        """Let thread tid perform the event it is parked at and run to its next traced point (or its end)."""
        self.wait_parked_or_finished(tid)
        with self.cv:
            if tid in self.finished:
                raise MachineryError(f'schedule grants a step to finished thread {tid}')
            ev = self.parked[tid]
            self.turn = tid
            self.cv.notify_all()
        # wait until it has moved on
        with self.cv:
            ok = self.cv.wait_for(lambda: (self.turn is None and (tid in self.parked or tid in self.finished)),
                                  timeout=STEP_TIMEOUT)
            if not ok:
                self.failed = f'thread {tid} did not reach its next traced point after {ev}'
                self.cv.notify_all()
                raise MachineryError(self.failed)
        return ev

    def run_free(self, tid, fn):
        """Recording mode: run fn in the calling thread as thread `tid`."""
        self.tids[threading.get_ident()] = tid
        try:
            self.point('begin')
            fn()
        finally:
            del self.tids[threading.get_ident()]


class TracedLock:
    """Wraps a Lock / RLock; acquire and release are traced points."""

    def __init__(self, real, name, sched: Scheduler):
        self._real = real
        self._name = name
        self._sched = sched
        self._depth = {}      # thread ident -> nesting depth (re-entrant locks)
        self._rv_done = set() # threads that already read the version group inside their current locked section

    def acquire(self, blocking=True, timeout=-1):
        me = threading.get_ident()
        if self._depth.get(me, 0) > 0:
            # re-entrant acquisition by the holder: no other thread can be affected, not a scheduling point (and the
            # thread programs stay independent of how many nested sections the data makes the code enter)
            self._depth[me] += 1
            return self._real.acquire(blocking, timeout)
        self._sched.point('acq', self._name)
        ok = self._real.acquire(blocking, timeout)
        if ok:
            self._depth[me] = 1
            self._rv_done.discard(me)
        return ok

    def release(self):
        me = threading.get_ident()
        if self._depth.get(me, 0) > 1:
            self._depth[me] -= 1
            self._real.release()
            return
        self._depth.pop(me, None)
        self._rv_done.discard(me)
        # 'rel' = the lock is released when this event is granted; 'run' = the thread goes on in its unlocked section.
        # The two points let the scheduler put other threads between the release and the code that follows it.
        try:
            self._sched.point('rel', self._name)
        finally:
            self._real.release()      # never leak the real lock, whatever the scheduler says
        self._sched.point('run', self._name)

    def __enter__(self):
        self.acquire()
        return self

    def __exit__(self, *a):
        self.release()
        return False


def trace_provider_mdib(mdib, sched: Scheduler):
    """Replace the locks and the version attribute of a ProviderMdib instance by traced ones."""
    mdib._tr_lock = TracedLock(mdib._tr_lock, 'tr', sched)        # noqa: SLF001
    mdib.mdib_lock = TracedLock(mdib.mdib_lock, 'mdib', sched)
    base = mdib.__class__
    store = {'v': mdib.mdib_version, 'writes': 0}
    mdib.__dict__['_verif_store'] = store     # 'writes' counts every write of the version, by traced and untraced threads

    def get_version(self):
        return store['v']

    def set_version(self, value):
        sched.point('wv')
        store['writes'] += 1
        store['v'] = value

    def get_group(self):
        # inside one locked section only the first read of the version group is a traced point: further reads see the
        # same value (writers need the lock) and their number depends on the data (keeps thread programs data-independent)
        lock = self.mdib_lock
        me = threading.get_ident()
        if isinstance(lock, TracedLock) and lock._depth.get(me, 0) > 0:
            if me in lock._rv_done:
                return base.mdib_version_group.fget(self)
            lock._rv_done.add(me)
        sched.point('rv')
        return base.mdib_version_group.fget(self)

    traced = type('Traced' + base.__name__, (base,), {
        'mdib_version': property(get_version, set_version),
        'mdib_version_group': property(get_group),
    })
    del mdib.__dict__['mdib_version']
    mdib.__class__ = traced
    return mdib


def trace_provider_txid(provider, sched: Scheduler):
    """The lock that guards the provider's transaction-id counter becomes a traced lock."""
    provider._transaction_id_lock = TracedLock(provider._transaction_id_lock, 'txid', sched)   # noqa: SLF001
    return provider
