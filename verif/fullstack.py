"""Full-stack in-process transport: the REAL sdc11073 SoapClient over a real http.client.HTTPConnection whose socket is
memory, answered by the REAL DispatchingRequestHandler of the addressee (HTTP framing, chunking, content coding and
their negotiation, keep-alive, connection-error handling of the client are all the repository's code).

The Network of verif/loopback.py is reused: same message log (Wire.data is the decoded SOAP document, Wire.raw the bytes
of the HTTP request), same hook protocol (None | 'hold' | 'drop' | ('delay', s) | exception instance).  A scripted
exception other than an HTTP status is raised on the socket, i.e. where a real network failure shows up: the real
client turns it into http.client.NotConnected, closes the connection and refuses implicit re-connects from then on.
"""
from __future__ import annotations

import io
import time
import types
from http.client import HTTPConnection, HTTPResponse

from sdc11073.pysoap.soapclient import HTTPReturnCodeError, SoapClient

from .loopback import Network, Wire

_HANDLER = None


class _NullLogger:
    def __getattr__(self, name):
        return lambda *a, **kw: None


def _handler_class():
    global _HANDLER  # noqa: PLW0603
    if _HANDLER is None:
        from sdc11073.httpserver.httprequesthandler import DispatchingRequestHandler

        class QuietHandler(DispatchingRequestHandler):
            def log_message(self, format, *args):  # noqa: A002
                pass

        _HANDLER = QuietHandler
    return _HANDLER


class _ServerSock:
    """What socketserver hands to a StreamRequestHandler: one connection that carries the given bytes."""

    def __init__(self, data: bytes):
        self.rfile = io.BytesIO(data)
        self.out = bytearray()

    def makefile(self, mode, *a, **kw):  # noqa: ARG002
        return self.rfile

    def sendall(self, data):
        self.out += data

    def getpeername(self):
        return ('127.0.0.1', 40000)

    def settimeout(self, t):
        pass

    def setsockopt(self, *a):
        pass

    def shutdown(self, *a):
        pass

    def close(self):
        pass


def serve_raw(server, raw_request: bytes) -> bytes:
    """Run the real request handler of a (fake) http server on the bytes of one connection; return what it wrote."""
    ns = types.SimpleNamespace(dispatcher=server.dispatcher, supported_encodings=list(server.supported_encodings or []),
                               chunk_size=server.chunk_size, logger=_NullLogger())
    sock = _ServerSock(raw_request)
    _handler_class()(sock, ('127.0.0.1', 40000), ns)
    return bytes(sock.out)


def parse_request(raw: bytes):
    """(method, path, headers(lower-case), decoded body) of a raw HTTP request; body decoded with the repository's reader."""
    head, _, rest = raw.partition(b'\r\n\r\n')
    lines = head.decode('latin-1').split('\r\n')
    method, path, _ = lines[0].split(' ', 2)
    hdr = {}
    for ln in lines[1:]:
        k, _, v = ln.partition(':')
        hdr[k.strip().lower()] = v.strip()
    body = rest
    try:
        if hdr.get('transfer-encoding', '').lower() == 'chunked':
            from sdc11073.httpserver.httpreader import HTTPReader
            body = HTTPReader._read_dechunk(io.BytesIO(rest))  # noqa: SLF001
        enc = hdr.get('content-encoding')
        if enc:
            from sdc11073.httpserver.compression import CompressionHandler
            body = CompressionHandler.decompress_payload(enc, body)
    except Exception:  # noqa: BLE001  (only the log entry suffers)
        pass
    return method, path, hdr, body


def parse_response(raw: bytes):
    """(status, reason, decoded body) of a raw HTTP response."""
    class _S:
        def makefile(self, mode, *a, **kw):  # noqa: ARG002
            return io.BytesIO(raw)
    if not raw:
        return None, '', b''
    resp = HTTPResponse(_S(), method='POST')
    resp.begin()
    from sdc11073.httpserver.httpreader import HTTPReader
    try:
        body = HTTPReader.read_response_body(resp)
    except Exception:  # noqa: BLE001
        body = b''
    return resp.status, resp.reason, body


def _plain(status: int, reason: str) -> bytes:
    return f'HTTP/1.1 {status} {reason}\r\nContent-Length: 0\r\n\r\n'.encode('latin-1')


class _ClientSock:
    """Socket of the client's HTTPConnection: collects the request, produces the response when the client reads."""

    def __init__(self, client):
        self.client = client
        self.sent = bytearray()
        self.closed = False

    def sendall(self, data):
        if hasattr(data, 'read'):
            data = data.read()
        self.sent += bytes(data)

    def makefile(self, mode, *a, **kw):  # noqa: ARG002
        raw = bytes(self.sent)
        self.sent.clear()
        return io.BytesIO(self.client._exchange(raw))   # noqa: SLF001

    def settimeout(self, t):
        pass

    def setsockopt(self, *a):
        pass

    def getsockname(self):
        return ('127.0.0.1', 50000)

    def shutdown(self, *a):
        pass

    def close(self):
        self.closed = True


class FullStackSoapClient(SoapClient):
    """The real SoapClient; only the creation of the TCP connection is replaced."""

    network: Network = None   # set on a subclass created by mk_fullstack_client_class
    local: str = ''

    def __init__(self, *a, **kw):
        super().__init__(*a, **kw)
        self.network.clients.append(self)

    def __deepcopy__(self, memo):
        return self

    def _mk_http_connection(self):
        host, _, port = self._netloc.partition(':')
        conn = HTTPConnection(host, int(port or 80), timeout=self._socket_timeout)
        conn.connect = lambda: self._fake_connect(conn)
        return conn

    def _fake_connect(self, conn):
        server = self.network.servers.get(self._netloc)
        if server is None:
            raise ConnectionRefusedError(self._netloc)
        hook = getattr(self.network, 'on_connect', None)
        if hook is not None:
            verdict = hook(self._netloc, self.local)
            if isinstance(verdict, BaseException):
                raise verdict
        if self._ssl_context is not None and server.scheme != 'https':
            import ssl
            raise ssl.SSLError('WRONG_VERSION_NUMBER (loop-back: peer does not speak TLS)')
        if self._ssl_context is None and server.scheme == 'https':
            raise ConnectionResetError('loop-back: plaintext connection to a TLS server')
        conn.sock = _ClientSock(self)

    def _exchange(self, raw: bytes) -> bytes:
        net = self.network
        method, path, _hdr, body = parse_request(raw)
        wire = Wire(len(net.log), self.local, self._netloc, path, body, kind='post' if method == 'POST' else 'get',
                    tls=self._ssl_context is not None)
        wire.raw = raw
        net.log.append(wire)
        verdict = net.on_post(wire) if (net.on_post is not None and method == 'POST') else None
        if verdict == 'hold':
            wire.outcome = 'held'
            net.held.append(wire)
            return _plain(202, 'Accepted')
        if verdict == 'drop':
            wire.outcome = 'dropped'
            return _plain(202, 'Accepted')
        if isinstance(verdict, HTTPReturnCodeError):
            wire.outcome = 'failed:HTTPReturnCodeError'
            return _plain(verdict.status, str(verdict.reason or 'error'))
        if isinstance(verdict, BaseException):
            wire.outcome = 'failed:' + type(verdict).__name__
            raise verdict
        if isinstance(verdict, tuple) and verdict[0] == 'delay':
            time.sleep(float(verdict[1]))
        if isinstance(verdict, tuple) and verdict[0] == 'after':
            # the request arrives, the answer gets lost on the way back
            wire.outcome = 'answer-lost:' + type(verdict[1]).__name__
            try:
                net.deliver_raw(wire)
            except Exception:  # noqa: BLE001
                pass
            raise verdict[1]
        return net.deliver_raw(wire)


def _deliver_raw(self: Network, wire: Wire) -> bytes:
    self.n_delivered = getattr(self, 'n_delivered', 0) + 1
    wire.dseq = self.n_delivered
    server = self.servers.get(wire.dst)
    if server is None:
        raise ConnectionRefusedError(f'no server at {wire.dst}')
    raw_response = serve_raw(server, wire.raw)
    try:
        wire.status, _reason, wire.response = parse_response(raw_response)
    except Exception:  # noqa: BLE001
        wire.status, wire.response = None, None
    wire.raw_response = raw_response
    return raw_response


_orig_deliver = Network.deliver


def _deliver(self: Network, wire: Wire):
    """Network.deliver for wires of either transport (release / redeliver of held or duplicated messages)."""
    if getattr(wire, 'raw', None) is not None:
        raw = _deliver_raw(self, wire)
        status, reason, body = parse_response(raw)
        return status, reason, body
    return _orig_deliver(self, wire)


def _redeliver(self: Network, wire: Wire):
    dup = Wire(len(self.log), wire.src, wire.dst, wire.path, wire.data, wire.kind, wire.tls, 'duplicate')
    if getattr(wire, 'raw', None) is not None:
        dup.raw = wire.raw
    self.log.append(dup)
    return self.deliver(dup)


Network.deliver_raw = _deliver_raw
Network.deliver = _deliver
Network.redeliver = _redeliver


def mk_fullstack_client_class(network: Network, local: str):
    return type('FullStackSoapClientBound', (FullStackSoapClient,), {'network': network, 'local': local})
