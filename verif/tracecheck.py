"""Batch validation of recorded implementation traces by TLC against a trace specification."""
from __future__ import annotations

import json
import os

from .tlc import MachineryError, printed_values, run_tlc


def validate(run, module: str, cfg: str, traces: list[list[dict]], extra: dict | None = None,
             timeout: int = 1800, chunk: int = 4000, zero_based: bool = False) -> list[tuple[int, int, str]]:
    """Let TLC check all traces; return list of (trace index (0-based), record index (0-based), failing clause).

    A trace is a list of records; record 0 is the initial state. Raises MachineryError if TLC did not
    consume every record of every trace.
    """
    rejects: list[tuple[int, int, str]] = []
    for start in range(0, len(traces), chunk):
        part = traces[start:start + chunk]
        path = os.path.join(run.tmp, f'traces_{module}_{start}.json')
        data = {'traces': part, 'total': sum(len(t) for t in part)}
        if extra:
            data.update(extra)
        with open(path, 'w') as f:
            json.dump(data, f)
        res = run_tlc(module, cfg, workers=1, env={'TRACE_FILE': path}, timeout=timeout, expect_ok=False)
        total = sum(len(t) for t in part)
        if not res.ok:
            raise MachineryError(f'trace validation {module}/{cfg} failed:\n{res.error_text}')
        if zero_based:   # trace specs whose initial state consumes no record: one extra state per trace
            total += len(part)
        if res.distinct != total:
            raise MachineryError(f'trace validation {module}: consumed {res.distinct} of {total} records')
        run.tlc.append(res)
        run.traces_validated += len(part)
        for v in printed_values(res.stdout, 'REJECT'):
            rejects.append((start + v[1] - 1, v[2] - 1, v[3]))
        os.remove(path)
    return rejects


def first_rejects(rejects: list[tuple[int, int, str]]) -> list[tuple[int, int, str]]:
    """Keep, per trace, only the earliest rejected record and its first failing clause.

    Later rejections in the same trace are consequences of a state that already diverged.
    """
    best: dict[int, tuple[int, int, str]] = {}
    for r in rejects:
        if r[0] not in best or r[1] < best[r[0]][1]:
            best[r[0]] = r
    return [best[k] for k in sorted(best)]
