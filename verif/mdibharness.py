"""Binding of Mdib.tla to the real sdc11073 ProviderMdib: fixture, projection, replay of TLC behaviours."""
from __future__ import annotations

import copy
import enum
import hashlib
import json
import math
import os
from decimal import Decimal

from lxml import etree

from .common import VERIF
from .tlc import MachineryError

FIXTURE_ONE = os.path.join(VERIF, 'fixtures', 'one_mds.xml')
FIXTURE_TWO = os.path.join(VERIF, 'fixtures', 'two_mds.xml')

# abstract handle -> concrete handle in fixtures/one_mds.xml (copy of tests/mdib_tns.xml)
MAP_D = {'vmd': 'vmd0', 'ch': 'ch0.vmd0', 'm1': 'numeric.ch0.vmd0', 'dA': 'dynA', 'dB': 'dynB',
         'pc': 'PC.mds0', 'lc': 'LC.mds0', 'al': 'ac0.vmd0.mds0', 'op': 'DN_SET', 'rt': 'rtsa.ch0.vmd0',
         'm2': 'string.ch0.vmd0', 'asy': 'asy.vmd0', 'sco': 'sco.vmd0'}
MAP_C = {'c1': 'ctx1', 'c2': 'ctx2', 'c3': 'ctx3', 'l1': 'loc1', 'l2': 'loc2'}
KIND = {'vmd': 'comp', 'ch': 'comp', 'dA': 'comp', 'm1': 'metric', 'dB': 'metric', 'm2': 'metric', 'pc': 'ctx',
        'lc': 'ctx', 'al': 'alert', 'op': 'op', 'rt': 'rt', 'asy': 'alert', 'sco': 'comp'}

# the same abstract universe on fixtures/two_mds.xml: one metric, one component and one alert system live in the second MDS
MAP_D_TWO = dict(MAP_D, m2='numeric_metric_0.channel_0.vmd_0.mds_1', sco='vmd_0.mds_1', asy='alert_system.vmd_0.mds_1')
MAPPINGS = {'one': (FIXTURE_ONE, MAP_D), 'two': (FIXTURE_TWO, MAP_D_TWO)}

VERSION_FIELDS = {'StateVersion', 'DescriptorVersion', 'Handle', 'DescriptorHandle', 'BindingMdibVersion',
                  'UnbindingMdibVersion', 'ContextAssociation', 'BindingStartTime', 'BindingEndTime'}


def _load_repo():
    import sdc11073.definitions_sdc  # noqa: F401 (registers the protocol)


# --------------------------------------------------------------------------- canonical content
# members outside the declared property list that the class writes / reads with code of its own
EXTRA_MEMBERS = {'HeaderInformationBlock': ('reference_parameters',)}


def canon(obj, drop: set | frozenset = frozenset()):
    """Canonical, JSON-able form of a container / data type value, read through the property descriptors."""
    from sdc11073.xml_types import xml_structure as xs
    if obj is None or isinstance(obj, (bool, int, str)):
        return obj
    if isinstance(obj, enum.Enum):
        return obj.value
    if isinstance(obj, Decimal):
        n = obj.normalize()
        return 'D:' + format(n, 'f') if n == n.to_integral() else 'D:' + str(n)
    if isinstance(obj, float):
        return 'F:' + repr(obj)
    if isinstance(obj, (list, tuple)):
        return [canon(x) for x in obj]
    if isinstance(obj, etree.QName):
        return 'Q:' + obj.text
    if isinstance(obj, etree._Element):  # noqa: SLF001
        return 'X:' + etree.tostring(obj, method='c14n').decode('utf-8', 'replace')
    if hasattr(obj, 'sorted_container_properties'):
        out = {}
        for name, prop in obj.sorted_container_properties():
            if name in drop:
                continue
            val = getattr(obj, name)
            if isinstance(prop, (xs.TimestampAttributeProperty, xs.CurrentTimestampAttributeProperty)) \
                    and val is not None:
                out[name] = 'T:%d' % math.floor(val * 1000 + 1e-4)
            elif val is not None and type(prop).__name__ in ('DurationAttributeProperty', 'NodeDurationProperty') \
                    and isinstance(val, (int, float, Decimal)):
                out[name] = 'U:%d' % round(float(val) * 1e6)     # durations: int 0 and float 0.0 are the same value
            elif val is None or val == [] or val == ():
                continue
            else:
                out[name] = canon(val)
        out['__cls__'] = type(obj).__name__
        for name in EXTRA_MEMBERS.get(type(obj).__name__, ()):   # state that custom writers / readers use
            val = getattr(obj, name, None)
            if val:
                # the wsa:IsReferenceParameter marker is wire syntax of the header, not part of the parameter's value
                items = []
                for el in val:
                    cp = copy.deepcopy(el)
                    for k in list(cp.attrib):
                        if k.endswith('}IsReferenceParameter'):
                            del cp.attrib[k]
                    items.append(canon(cp))
                out['+' + name] = items
        return out
    if hasattr(obj, 'value') and hasattr(obj, '__iter__'):  # ExtensionLocalValue
        return [canon(x) for x in obj]
    return 'R:' + repr(obj)


class Tokens:
    """Content tokens: small integers in order of first appearance (per trace)."""

    def __init__(self):
        self._t = {}

    def tok(self, canonical) -> int:
        key = hashlib.sha1(json.dumps(canonical, sort_keys=True, default=str).encode()).hexdigest()
        if key not in self._t:
            self._t[key] = len(self._t)
        return self._t[key]


def content(obj):
    drop = set(VERSION_FIELDS)
    if type(obj).__name__ == 'ClockStateContainer':
        drop.add('DateAndTime')
    return canon(obj, drop)


# --------------------------------------------------------------------------- table sanity (C11 inside the MDIB)
def table_agrees(table) -> bool:
    """Do all indices of a real MultiKeyLookup agree with a scan of table.objects (current attribute values)?"""
    from sdc11073 import multikey
    for idx in table._idx_defs.values():  # noqa: SLF001
        expect = {}
        for obj in table.objects:
            try:
                keys = idx._get_key_func(obj)  # noqa: SLF001
            except (AttributeError, TypeError):
                continue
            if keys is None and not idx._index_none_values:  # noqa: SLF001
                continue
            if not isinstance(idx, multikey.IndexDefinition1n):
                keys = [keys]
            for k in keys:
                expect.setdefault(k, []).append(id(obj))
        have = {k: [id(o) for o in v] for k, v in dict.items(idx) if v}
        if {k: sorted(v) for k, v in expect.items()} != {k: sorted(v) for k, v in have.items()}:
            return False
    return True


def ref_consistent(mdib) -> bool:
    """Whole-MDIB referential consistency (C02), evaluated on the real tables."""
    handles = {}
    for d in mdib.descriptions.objects:
        if d.Handle in handles:
            return False
        handles[d.Handle] = d
    seen = set()
    for st in mdib.states.objects:
        d = handles.get(st.DescriptorHandle)
        if d is None or st.DescriptorVersion != d.DescriptorVersion or st.DescriptorHandle in seen:
            return False
        seen.add(st.DescriptorHandle)
    ctx_handles = set()
    for st in mdib.context_states.objects:
        d = handles.get(st.DescriptorHandle)
        if d is None or st.DescriptorVersion != d.DescriptorVersion or st.Handle in ctx_handles \
                or st.Handle in handles:
            return False
        ctx_handles.add(st.Handle)
    return all(d.parent_handle is None or d.parent_handle in handles for d in handles.values())


# --------------------------------------------------------------------------- projection
ASSOC = {'Assoc': 'Assoc', 'Dis': 'Dis', 'Pre': 'Pre', 'No': 'No'}


class Projector:
    """Projects a real MDIB (provider or consumer) onto the abstract state of Mdib.tla."""

    def __init__(self, handles: list[str], ctx_handles: list[str], map_d=None, map_c=None):
        self.handles = handles
        self.ctx_handles = ctx_handles
        self.map_d = dict(map_d or MAP_D)
        self.map_c = dict(map_c or MAP_C)   # abstract -> concrete; may be extended (uuid handles)
        self.tokens = Tokens()

    def abstract_d(self, concrete, mdib=None):
        """Abstract name of a concrete handle; with mdib: of its nearest ancestor-or-self inside the universe."""
        inv = {c: a for a, c in self.map_d.items() if a in self.handles}
        seen = 0
        while concrete is not None and seen < 20:
            if concrete in inv:
                return inv[concrete]
            if mdib is None:
                break
            d = mdib.descriptions.handle.get_one(concrete, allow_none=True)
            concrete = None if d is None else d.parent_handle
            seen += 1
        return 'ext'

    def project(self, mdib) -> dict:
        inv_c = {c: a for a, c in self.map_c.items()}
        D, S, C = {}, {}, {}
        known = set()
        for a in self.handles:
            ch = self.map_d[a]
            known.add(ch)
            d = mdib.descriptions.handle.get_one(ch, allow_none=True)
            if d is None:
                D[a] = {'present': False, 'parent': 'none', 'ver': 0, 'tok': 0}
            else:
                D[a] = {'present': True, 'parent': self.abstract_d(d.parent_handle, mdib), 'ver': d.DescriptorVersion,
                        'tok': self.tokens.tok(content(d))}
            st = mdib.states.descriptor_handle.get_one(ch, allow_none=True)
            if st is None:
                S[a] = {'present': False, 'sver': 0, 'dver': 0, 'tok': 0}
            else:
                S[a] = {'present': True, 'sver': st.StateVersion, 'dver': st.DescriptorVersion,
                        'tok': self.tokens.tok(content(st))}
        for a in self.ctx_handles:
            C[a] = {'present': False, 'd': 'none', 'sver': 0, 'dver': 0, 'tok': 0, 'assoc': 'No', 'bind': -1,
                    'unbind': -1, 'start': False, 'end': False}
        unknown_ctx = []
        for st in mdib.context_states.objects:
            a = inv_c.get(st.Handle)
            if a is None or a not in C:
                unknown_ctx.append((st.Handle, st.StateVersion, st.DescriptorVersion, content(st),
                                    st.ContextAssociation.value, st.BindingMdibVersion, st.UnbindingMdibVersion))
                continue
            C[a] = {'present': True, 'd': self.abstract_d(st.DescriptorHandle), 'sver': st.StateVersion,
                    'dver': st.DescriptorVersion, 'tok': self.tokens.tok(content(st)),
                    'assoc': st.ContextAssociation.value,
                    'bind': -1 if st.BindingMdibVersion is None else st.BindingMdibVersion,
                    'unbind': -1 if st.UnbindingMdibVersion is None else st.UnbindingMdibVersion,
                    'start': st.BindingStartTime is not None, 'end': st.BindingEndTime is not None}
        rest = []
        for d in mdib.descriptions.objects:
            if d.Handle not in known:
                rest.append(('D', d.Handle, d.parent_handle, d.DescriptorVersion, content(d)))
        for st in mdib.states.objects:
            if st.DescriptorHandle not in known:
                rest.append(('S', st.DescriptorHandle, st.StateVersion, st.DescriptorVersion, content(st)))
        rest.sort(key=lambda x: (x[0], x[1]))
        unknown_ctx.sort(key=lambda x: x[0])
        # the versions remembered for removed objects (handle_version_lookup): state of the MDIB that no lookup shows
        saved = [sorted((str(k), v) for k, v in getattr(t, 'handle_version_lookup', {}).items())
                 for t in (mdib.descriptions, mdib.states, mdib.context_states)]
        return {'mver': mdib.mdib_version, 'D': D, 'S': S, 'C': C,
                'rest': self.tokens.tok([rest, unknown_ctx]), 'saved': self.tokens.tok(['saved', saved]),
                'agree': table_agrees(mdib.descriptions) and table_agrees(mdib.states)
                and table_agrees(mdib.context_states),
                'refall': ref_consistent(mdib)}


# --------------------------------------------------------------------------- concrete values for tokens
def apply_tok(obj, t: int, nested_only: bool = False):
    """Change the content of a handed-out container according to abstract token t (nested members preferred)."""
    from sdc11073.xml_types import pm_types
    name = type(obj).__name__
    if name == 'NumericMetricStateContainer':
        if obj.MetricValue is None:
            obj.mk_metric_value()
        obj.MetricValue.Value = Decimal(10 + t)                       # nested object member
        obj.MetricValue.MetricQuality.Validity = pm_types.MeasurementValidity.VALID
        if not obj.PhysiologicalRange:
            obj.PhysiologicalRange = [pm_types.Range(lower=Decimal(0), upper=Decimal(100 + t))]
        else:
            obj.PhysiologicalRange[0].Upper = Decimal(100 + t)        # list member
    elif name in ('StringMetricStateContainer', 'EnumStringMetricStateContainer'):
        if obj.MetricValue is None:
            obj.mk_metric_value()
        obj.MetricValue.Value = f'val{t}'
    elif name == 'RealTimeSampleArrayMetricStateContainer':
        if obj.MetricValue is None:
            obj.mk_metric_value()
        # (token 2: a waveform state that keeps its MetricValue but carries no samples in this cycle)
        obj.MetricValue.Samples = [] if t % 3 == 2 else [Decimal(t), Decimal(t + 1)]
        obj.MetricValue.MetricQuality.Validity = [pm_types.MeasurementValidity.VALID, pm_types.MeasurementValidity.INVALID][t % 2]
        # members of the waveform state other than its samples
        if not obj.PhysiologicalRange:
            obj.PhysiologicalRange = [pm_types.Range(lower=Decimal(-5), upper=Decimal(50 + t))]
        else:
            obj.PhysiologicalRange[0].Upper = Decimal(50 + t)
    elif name in ('AlertConditionStateContainer', 'LimitAlertConditionStateContainer'):
        # (every third token leaves the attribute out: its implied value - False - takes over from an explicit one)
        obj.Presence = [True, None, False][t % 3]
        obj.ActualPriority = [pm_types.AlertConditionPriority.LOW, pm_types.AlertConditionPriority.HIGH][t % 2]
    elif name == 'AlertSystemStateContainer':
        obj.SelfCheckCount = 10 + t
        # list valued ATTRIBUTES are changed in place (append), like an application may do it
        lst = obj.PresentPhysiologicalAlarmConditions
        if len(lst) > 2:
            del lst[:-1]
        lst.append(f'cond{t}')
        obj.PresentTechnicalAlarmConditions.append(f'tech{t}')
        if len(obj.PresentTechnicalAlarmConditions) > 3:
            del obj.PresentTechnicalAlarmConditions[:-1]
    elif name == 'AlertSignalStateContainer':
        obj.Slot = t
    elif name.endswith('OperationStateContainer'):
        obj.OperatingMode = [pm_types.OperatingMode.DISABLED, pm_types.OperatingMode.ENABLED][t % 2]
    elif name == 'ScoStateContainer':
        obj.OperatingHours = 100 + t
        obj.InvocationRequested.append(f'op{t}')
        if len(obj.InvocationRequested) > 3:
            del obj.InvocationRequested[:-1]
    elif name in ('VmdStateContainer', 'ChannelStateContainer', 'MdsStateContainer',
                  'SystemContextStateContainer', 'ClockStateContainer', 'BatteryStateContainer'):
        obj.OperatingHours = 100 + t
        if obj.CalibrationInfo is None:
            obj.CalibrationInfo = pm_types.CalibrationInfo()
        obj.CalibrationInfo.Type = [pm_types.CalibrationType.OFFSET, pm_types.CalibrationType.GAIN][t % 2]
    elif name == 'PatientContextStateContainer':
        obj.CoreData.Givenname = f'given{t}'                          # nested default-valued member
        if not obj.Identification:
            obj.Identification = [pm_types.InstanceIdentifier(root='urn:verif', extension_string=f'id{t}')]
        else:
            obj.Identification[0].Extension = f'id{t}'
    elif name == 'LocationContextStateContainer':
        obj.LocationDetail.PoC = f'poc{t}'
        obj.LocationDetail.Bed = f'bed{t}'
    elif name.endswith('DescriptorContainer'):
        if obj.Type is None:
            obj.Type = pm_types.CodedValue(f'{1000 + t}')
        if not obj.Type.ConceptDescription:
            obj.Type.ConceptDescription = [pm_types.LocalizedText(f'concept{t}')]
        else:
            obj.Type.ConceptDescription[0].text = f'concept{t}'       # nested list member
        if name in ('AlertConditionDescriptorContainer', 'LimitAlertConditionDescriptorContainer'):
            # an INDEXED list attribute (descriptions.source), changed in place like an application may do it
            src = ('numeric.ch0.vmd0', 'string.ch0.vmd0', 'rtsa.ch0.vmd0')[t % 3]
            if t % 3 == 2 and obj.Source and src not in obj.Source:
                obj.Source.append(src)          # the condition only GAINS a source (no indexed key goes away)
            else:
                del obj.Source[:]
                obj.Source.append(src)
                if t % 2:
                    obj.Source.append(src)      # the same source named twice (pm:Source has no uniqueness constraint)
        elif name == 'AlertSignalDescriptorContainer':
            obj.ConditionSignaled = ('ac0.vmd0.mds0', 'ac1.vmd0.mds0')[t % 2]   # indexed (descriptions.condition_signaled)
    else:
        raise MachineryError(f'apply_tok: no concretisation for {name}')
    if name.endswith('MetricStateContainer'):
        # members every metric state has, next to its value
        obj.ActivationState = [pm_types.ComponentActivation.ON, pm_types.ComponentActivation.STANDBY][t % 2]
        obj.ActiveDeterminationPeriod = 1.0 + t
        if t % 2:
            obj.LifeTimePeriod = 2.0 + t


def make_descriptor(mdib, a: str, parent_concrete: str | None, handle: str | None = None):
    from sdc11073.xml_types import pm_types
    model = mdib.data_model
    pm = model.pm_names
    handle = handle or MAP_D[a]
    kind = KIND[a]
    if kind == 'comp':
        qn = pm.VmdDescriptor if a == 'vmd' else pm.ChannelDescriptor
        d = model.get_descriptor_container_class(qn)(handle=handle, parent_handle=parent_concrete)
        d.SafetyClassification = pm_types.SafetyClassification.INF
        d.Type = pm_types.CodedValue('12345')
    elif kind == 'metric':
        d = model.get_descriptor_container_class(pm.NumericMetricDescriptor)(handle=handle,
                                                                               parent_handle=parent_concrete)
        d.SafetyClassification = pm_types.SafetyClassification.INF
        d.Type = pm_types.CodedValue('12346')
        d.Unit = pm_types.CodedValue('262656')
        d.MetricCategory = pm_types.MetricCategory.MEASUREMENT
        d.MetricAvailability = pm_types.MetricAvailability.CONTINUOUS
        d.Resolution = Decimal('0.1')
    else:
        raise MachineryError(f'make_descriptor: kind {kind} of {a} not creatable')
    return d


TX_FACTORY = {'metric': 'metric_state_transaction', 'comp': 'component_state_transaction',
              'alert': 'alert_state_transaction', 'op': 'operational_state_transaction',
              'rt': 'rt_sample_state_transaction', 'context': 'context_state_transaction',
              'descriptor': 'descriptor_transaction'}


class AppError(Exception):
    """Raised by the 'application' inside a transaction body (Abort action)."""


class HookErrorLost(Exception):
    """The exception of the application's pre-commit handler was swallowed by the library."""


def load_mdib(path=FIXTURE_ONE):
    _load_repo()
    from sdc11073.mdib import ProviderMdib
    mdib = ProviderMdib.from_mdib_file(path)
    # the model starts without context states: drop the ones of the fixture file
    mdib.context_states.clear()
    mdib.context_states.handle_version_lookup.clear()
    return mdib


class MdibReplayer:
    """Executes Mdib.tla actions on a real ProviderMdib and records the projected state after each action."""

    def __init__(self, handles, ctx_handles, mdib=None, after_step=None, map_d=None):
        self.mdib = mdib or load_mdib()
        self.proj = Projector(handles, ctx_handles, map_d=map_d)
        self.cm = None
        self.mgr = None
        self.handed = {}
        self.after_step = after_step   # callback(rec) -> extra observation dict, called after every action
        self.trace = []
        self.kept = None
        self.kept_states = set()

    def conc(self, a):
        return None if a in ('ext', 'none') else self.proj.map_d[a]

    def snapshot(self):
        return self.proj.project(self.mdib)

    def start(self):
        self.trace = [{'act': 'Init', 'res': 'ok', 'post': self.snapshot()}]
        return self.trace

    def step(self, rec: dict) -> dict:
        act = rec['act']
        out = {k: v for k, v in rec.items() if k != 'res'}
        out['model_res'] = rec.get('res', 'ok')
        res = 'ok'
        try:
            getattr(self, '_do_' + act)(rec)
        except AppError:
            res = 'ok'
        except MachineryError:
            raise
        except Exception as ex:  # noqa: BLE001
            res = 'exc:' + type(ex).__name__ if act in ('Commit', 'Begin') else 'rejected'
            out['exc'] = f'{type(ex).__name__}: {ex}'[:200]
            if act == 'Commit':
                self.cm = self.mgr = None
        out['res'] = res
        out['post'] = self.snapshot()
        if self.after_step is not None:
            obs = self.after_step(out)
            if obs is not None:
                out['obs'] = obs
        self.trace.append(out)
        return out

    def run(self, behaviour: list[dict]) -> list[dict]:
        self.start()
        for rec in behaviour:
            self.step(rec)
        if self.cm is not None:   # behaviour ended inside a transaction: abort it
            self.step({'act': 'Abort', 'res': 'ok'})
        return self.trace

    # ---- actions
    def _do_Begin(self, rec):
        self.cm = getattr(self.mdib, TX_FACTORY[rec['kind']])()
        self.mgr = self.cm.__enter__()
        self.handed = {}

    def _do_Commit(self, rec):
        cm, self.cm, self.mgr = self.cm, None, None
        cm.__exit__(None, None, None)

    def _do_Abort(self, rec):
        cm, self.cm, self.mgr = self.cm, None, None
        ex = AppError('application error inside transaction body')
        if rec.get('how') == 'hook':
            # the application's pre-commit handler raises: the body has ended normally, the commit is under way
            def hook(_mdib, _transaction):
                raise AppError('application error inside the pre-commit handler')
            saved = self.mdib.pre_commit_handler
            self.mdib.pre_commit_handler = hook
            try:
                cm.__exit__(None, None, None)
            except AppError:
                return
            finally:
                self.mdib.pre_commit_handler = saved
            # the error did not reach the caller: whatever happened instead is judged as the outcome of an abort
            raise HookErrorLost('the error of the pre-commit handler did not reach the caller of the transaction')
        try:
            raise ex
        except AppError:
            import sys
            suppressed = cm.__exit__(*sys.exc_info())
        if suppressed:
            raise MachineryError('transaction context manager swallowed the application exception')

    def _do_GetState(self, rec):
        self.handed[('S', rec['h'])] = self.mgr.get_state(self.conc(rec['h']))

    def _do_UngetState(self, rec):
        self.mgr.unget_state(self.handed.pop(('S', rec['h'])))

    def _do_SetStateTok(self, rec):
        apply_tok(self.handed[('S', rec['h'])], rec['t'])

    def _do_SetDescriptorTok(self, rec):
        apply_tok(self.handed[('D', rec['h'])], rec['t'])

    def _do_SetContextTok(self, rec):
        apply_tok(self.handed[('C', rec['c'])], rec['t'])

    def _do_WriteEntity(self, rec):
        ent = self.mdib.entities.by_handle(self.conc(rec['h']))
        if self.mgr.__class__.__name__ == 'DescriptorTransaction':
            apply_tok(ent.descriptor, rec['t'])
        apply_tok(ent.state, rec['t'])
        self.mgr.write_entity(ent)
        self.handed[('E', rec['h'])] = ent

    def _do_DWriteEntities(self, rec):
        ents = []
        for h in rec['hs']:
            ent = self.mdib.entities.by_handle(self.conc(h))
            apply_tok(ent.descriptor, rec['t'])
            apply_tok(ent.state, rec['t'])
            ents.append(ent)
        self.mgr.write_entities(ents)
        for h, ent in zip(rec['hs'], ents):
            self.handed[('E', h)] = ent

    def _do_RemoveEntity(self, rec):
        self.mgr.remove_entity(self.mdib.entities.by_handle(self.conc(rec['h'])))

    def _do_WriteEntities(self, rec):
        ents = []
        for h in rec['hs']:
            ent = self.mdib.entities.by_handle(self.conc(h))
            apply_tok(ent.state, rec['t'])
            ents.append(ent)
        self.mgr.write_entities(ents)
        for h, ent in zip(rec['hs'], ents):
            self.handed[('E', h)] = ent

    # ---- an entity object the application obtained between two transactions and keeps
    def _do_KeepEntity(self, rec):
        self.kept = self.mdib.entities.by_handle(self.conc(rec['h']))
        if self.kept is None:
            raise MachineryError(f'KeepEntity: no entity for {rec["h"]}')
        self.kept_states = set(getattr(self.kept, 'states', {}) or {})

    def _do_WriteKeptEntity(self, rec):
        ent = self.kept
        if self.mgr.__class__.__name__ == 'DescriptorTransaction':
            apply_tok(ent.descriptor, rec['t'])
        apply_tok(ent.state, rec['t'])
        self.mgr.write_entity(ent)
        self.handed[('E', rec['h'])] = ent

    def _do_WriteEntityCtx(self, rec):
        """Descriptor transaction: entity of a context descriptor, optionally with a new and / or a dropped state."""
        ent = self.mdib.entities.by_handle(self.conc(rec['d']))
        apply_tok(ent.descriptor, rec['t'])
        if rec['c'] != 'none':
            ent.new_state(self.proj.map_c[rec['c']])
        if rec['drop'] != 'none':
            ent.states.pop(self.proj.map_c[rec['drop']])
        self.mgr.write_entity(ent)
        self.handed[('E', rec['d'])] = ent

    def _do_GetDescriptor(self, rec):
        self.handed[('D', rec['h'])] = self.mgr.get_descriptor(self.conc(rec['h']))

    def _do_AddDescriptor(self, rec):
        d = make_descriptor(self.mdib, rec['h'], self.conc(rec['p']), self.conc(rec['h']))
        st = self.mdib.data_model.mk_state_container(d) if rec['withState'] else None
        self.mgr.add_descriptor(d, state_container=st)
        self.handed[('D', rec['h'])] = d
        if st is not None:
            self.handed[('S', rec['h'])] = st

    def _do_RemoveDescriptor(self, rec):
        self.mgr.remove_descriptor(self.conc(rec['h']))

    def _do_NewEntity(self, rec):
        tmpl = make_descriptor(self.mdib, rec['h'], self.conc(rec['p']), self.conc(rec['h']))
        ent = self.mdib.entities.new_entity(tmpl.NODETYPE, tmpl.Handle, tmpl.parent_handle)
        ent.descriptor.update_from_other_container(tmpl, skipped_properties=['Handle', 'DescriptorVersion'])
        self.mgr.write_entity(ent)
        self.handed[('E', rec['h'])] = ent

    def _do_GetContextState(self, rec):
        self.handed[('C', rec['c'])] = self.mgr.get_context_state(self.proj.map_c[rec['c']])

    def _do_MkContextState(self, rec):
        handle = self.proj.map_c[rec['c']] if rec['explicit'] else None
        st = self.mgr.mk_context_state(self.conc(rec['d']), handle, set_associated=rec['assoc'])
        if not rec['explicit']:
            self.proj.map_c[rec['c']] = st.Handle
        self.handed[('C', rec['c'])] = st

    def _ctx_entity(self, c):
        from .mdibharness import MAP_D  # noqa: F401
        d = 'pc'
        return self.mdib.entities.by_handle(self.conc(d))

    def _do_EntityUpdateContextState(self, rec):
        ent = self._ctx_entity(rec['c'])
        handle = self.proj.map_c[rec['c']]
        apply_tok(ent.states[handle], rec['t'])
        self.mgr.write_entity(ent, [handle])
        self.handed[('E', rec['c'])] = ent

    def _do_EntityNewContextState(self, rec):
        ent = self._ctx_entity(rec['c'])
        handle = self.proj.map_c[rec['c']]
        ent.new_state(handle)
        self.mgr.write_entity(ent, [handle])
        self.handed[('E', rec['c'])] = ent

    def _do_EntityDeleteContextState(self, rec):
        ent = self._ctx_entity(rec['c'])
        handle = self.proj.map_c[rec['c']]
        ent.states.pop(handle)
        self.mgr.write_entity(ent, [handle])

    def _do_DisassociateAll(self, rec):
        ign = None if rec['ign'] == 'none' else self.proj.map_c[rec['ign']]
        self.mgr.disassociate_all(self.conc(rec['d']), ignored_handle=ign)
