"""Harness for C14: concretisation of the abstract WS-Discovery domain and a socket-less WSDiscovery node.

Abstract -> concrete
  URI record {scheme, auth, segs}  -> scheme ":" ["//" auth] {"/" seg}      (uri_str)
  type token "n1:A"                -> QName("urn:c14:n1", "A")
  EPR token "e1"                   -> "urn:uuid:c14-epr-e1"
  address token "x1"               -> "http://10.1.1.1:6001/x1"
  message id token "m1"            -> "urn:uuid:c14-msg-m1"
The reverse maps are used to project what the real objects hold back into the abstract domain; a value
that is not the image of an abstract value is projected to a marker that equals nothing.
"""
from __future__ import annotations

import collections
import logging
import re

from lxml import etree

NS = {'n1': 'urn:c14:n1', 'n2': 'urn:c14:n2'}
NS_REV = {v: k for k, v in NS.items()}
XML_PREFIX = {'n1': 'tx', 'n2': 'ty'}  # prefixes used on the wire differ from the token names on purpose
S12 = 'http://www.w3.org/2003/05/soap-envelope'
WSA = 'http://www.w3.org/2005/08/addressing'
WSD = 'http://docs.oasis-open.org/ws-dd/ns/discovery/2009/01'
ADDRESS_ALL = 'urn:docs-oasis-open-org:ws-dd:ns:discovery:2009:01'
MULTICAST = ('239.255.255.250', 3702)

_URI_REV: dict[str, dict] = {}


# --------------------------------------------------------------------------- abstract <-> concrete
def uri_str(u: dict) -> str:
    s = u['scheme'] + ':'
    if u['auth'] != 'None':
        s += '//' + u['auth']
    s += ''.join('/' + seg for seg in u['segs'])
    _URI_REV.setdefault(s, {'scheme': u['scheme'], 'auth': u['auth'], 'segs': list(u['segs'])})
    return s


def uri_rec(s: str) -> dict:
    return _URI_REV.get(s) or {'scheme': '?', 'auth': s, 'segs': []}


def independent_decode(tok: str) -> str:
    """Percent-decoding written for the check (not urllib)."""
    return re.sub(r'%([0-9A-Fa-f]{2})', lambda m: chr(int(m.group(1), 16)), tok)


def qname(tok: str) -> etree.QName:
    p, local = tok.split(':')
    return etree.QName(NS[p], local)


def type_tok(q) -> str:
    ns, local = q.namespace, q.localname
    return f'{NS_REV[ns]}:{local}' if ns in NS_REV else f'{{{ns}}}{local}'


def epr_str(tok: str) -> str:
    return f'urn:uuid:c14-epr-{tok}'


def epr_tok(s: str) -> str:
    return s[len('urn:uuid:c14-epr-'):] if isinstance(s, str) and s.startswith('urn:uuid:c14-epr-') else f'?{s}'


def xaddr_str(tok: str) -> str:
    return f'http://10.1.1.1:6001/{tok}'


def xaddr_tok(s: str) -> str:
    return s[len('http://10.1.1.1:6001/'):] if isinstance(s, str) and s.startswith('http://10.1.1.1:6001/') else f'?{s}'


def mid_str(tok: str) -> str:
    return f'urn:uuid:c14-msg-{tok}'


def mid_tok(s) -> str:
    return s[len('urn:uuid:c14-msg-'):] if isinstance(s, str) and s.startswith('urn:uuid:c14-msg-') else str(s)


def match_by_value(rule: str):
    from sdc11073.wsdiscovery.wsdimpl import MatchBy
    return {'absent': None, 'rfc3986': MatchBy.uri.value, 'strcmp0': MatchBy.strcmp.value}[rule]


def mk_scopes(uris: list[dict], rule: str = 'absent'):
    from sdc11073.xml_types import wsd_types
    sc = wsd_types.ScopesType(match_by=match_by_value(rule))
    for u in uris:
        sc.text.append(uri_str(u))
    return sc


def mk_service(srv: dict, epr: str = 'urn:uuid:c14-epr-s'):
    """Real Service for an abstract [types, scopes, noScopesElem]."""
    from sdc11073.wsdiscovery.service import Service
    scopes = None if srv.get('noScopesElem') else mk_scopes(srv['scopes'])
    return Service([qname(t) for t in srv['types']], scopes, [], epr, '1')


def mk_filter_args(flt: dict, as_tuple: bool = False):
    types = None
    if flt['types']['present']:
        types = [qname(t) for t in flt['types']['items']]
        if as_tuple:
            types = tuple(types)
    scopes = mk_scopes(flt['scopes']['items'], flt['rule']) if flt['scopes']['present'] else None
    return types, scopes


# --------------------------------------------------------------------------- SOAP datagrams (hand written)
def _envelope(action: str, mid: str, body: str, rel: str | None = None, app_sequence: bool = True) -> bytes:
    xmlns = ' '.join(f'xmlns:{XML_PREFIX[k]}="{v}"' for k, v in NS.items())
    return (f'<?xml version="1.0" encoding="UTF-8"?>'
            f'<s12:Envelope xmlns:s12="{S12}" xmlns:wsa="{WSA}" xmlns:wsd="{WSD}" {xmlns}><s12:Header>'
            f'<wsa:To>{ADDRESS_ALL}</wsa:To><wsa:Action>{WSD}/{action}</wsa:Action>'
            f'<wsa:MessageID>{mid}</wsa:MessageID>'
            + (f'<wsa:RelatesTo>{rel}</wsa:RelatesTo>' if rel else '')
            + ('<wsd:AppSequence InstanceId="77" MessageNumber="5"/>' if app_sequence else '')
            + f'</s12:Header><s12:Body>{body}</s12:Body></s12:Envelope>').encode('utf-8')


def _types_text(types: list[str]) -> str:
    out = []
    for t in types:
        p, local = t.split(':')
        out.append(f'{XML_PREFIX[p]}:{local}')
    return ' '.join(out)


def _list_elem(tag: str, text: str, items: list, empty_as_absent: bool, attrs: str = '') -> str:
    if not items and empty_as_absent:
        return ''
    if not items:
        return f'<wsd:{tag}{attrs}/>'
    return f'<wsd:{tag}{attrs}>{text}</wsd:{tag}>'


def _announcement_body(a: dict, empty_as_absent: bool) -> str:
    return (f'<wsa:EndpointReference><wsa:Address>{epr_str(a["e"])}</wsa:Address></wsa:EndpointReference>'
            + _list_elem('Types', _types_text(a['types']), a['types'], empty_as_absent)
            + _list_elem('Scopes', ' '.join(uri_str(u) for u in a['scopes']), a['scopes'], empty_as_absent)
            + _list_elem('XAddrs', ' '.join(xaddr_str(x) for x in a['xaddrs']), a['xaddrs'], empty_as_absent)
            + f'<wsd:MetadataVersion>{a["mv"]}</wsd:MetadataVersion>')


def datagram(msg: dict, empty_as_absent: bool = True) -> bytes:
    """Real SOAP datagram for an abstract incoming message [kind, id, anns, e, flt]."""
    kind, mid = msg['kind'], mid_str(msg['id'])
    if kind == 'Hello':
        return _envelope('Hello', mid, f'<wsd:Hello>{_announcement_body(msg["anns"][0], empty_as_absent)}</wsd:Hello>')
    if kind == 'ProbeMatches':
        inner = ''.join(f'<wsd:ProbeMatch>{_announcement_body(a, empty_as_absent)}</wsd:ProbeMatch>' for a in msg['anns'])
        return _envelope('ProbeMatches', mid, f'<wsd:ProbeMatches>{inner}</wsd:ProbeMatches>', rel='urn:uuid:c14-some-probe')
    if kind == 'ResolveMatches':
        inner = ''.join(f'<wsd:ResolveMatch>{_announcement_body(a, empty_as_absent)}</wsd:ResolveMatch>' for a in msg['anns'])
        return _envelope('ResolveMatches', mid, f'<wsd:ResolveMatches>{inner}</wsd:ResolveMatches>',
                         rel='urn:uuid:c14-some-resolve')
    if kind == 'Bye':
        return _envelope('Bye', mid, '<wsd:Bye><wsa:EndpointReference><wsa:Address>' + epr_str(msg['e'])
                         + '</wsa:Address></wsa:EndpointReference></wsd:Bye>')
    if kind == 'Resolve':
        return _envelope('Resolve', mid, '<wsd:Resolve><wsa:EndpointReference><wsa:Address>' + epr_str(msg['e'])
                         + '</wsa:Address></wsa:EndpointReference></wsd:Resolve>', app_sequence=False)
    if kind == 'Probe':
        flt = msg['flt']
        body = ''
        if flt['types']['present']:
            items = flt['types']['items']
            body += f'<wsd:Types>{_types_text(items)}</wsd:Types>' if items else '<wsd:Types/>'
        if flt['scopes']['present']:
            mb = match_by_value(flt['rule'])
            attrs = f' MatchBy="{mb}"' if mb else ''
            items = flt['scopes']['items']
            text = ' '.join(uri_str(u) for u in items)
            body += f'<wsd:Scopes{attrs}>{text}</wsd:Scopes>' if items else f'<wsd:Scopes{attrs}/>'
        return _envelope('Probe', mid, f'<wsd:Probe>{body}</wsd:Probe>', app_sequence=False)
    raise ValueError(f'unmodelled message kind {kind}')


def _q(ns: str, tag: str) -> str:
    return f'{{{ns}}}{tag}'


def _parse_announcement(node) -> dict:
    addr = node.find(f'{_q(WSA, "EndpointReference")}/{_q(WSA, "Address")}')
    types = []
    tnode = node.find(_q(WSD, 'Types'))
    if tnode is not None and tnode.text:
        for item in tnode.text.split():
            prefix, _, local = item.rpartition(':')
            ns = tnode.nsmap.get(prefix or None)
            types.append(f'{NS_REV[ns]}:{local}' if ns in NS_REV else f'{{{ns}}}{local}')
    snode = node.find(_q(WSD, 'Scopes'))
    scopes = [uri_rec(s) for s in (snode.text or '').split()] if snode is not None else []
    xnode = node.find(_q(WSD, 'XAddrs'))
    xaddrs = [xaddr_tok(s) for s in (xnode.text or '').split()] if xnode is not None else []
    mvnode = node.find(_q(WSD, 'MetadataVersion'))
    try:
        mv = int(mvnode.text) if mvnode is not None else -1
    except (TypeError, ValueError):
        mv = -1
    return {'e': epr_tok(addr.text if addr is not None else None), 'mv': mv, 'types': types, 'scopes': scopes,
            'xaddrs': xaddrs}


def parse_outgoing(data: bytes) -> dict:
    """Independent (lxml only) reading of a datagram the node queued: kind, id, rel, announcements, epr."""
    root = etree.fromstring(data)
    header = root.find(_q(S12, 'Header'))
    body = root.find(_q(S12, 'Body'))
    action = header.findtext(_q(WSA, 'Action')) or ''
    kind = action.rsplit('/', 1)[-1]
    rel = header.findtext(_q(WSA, 'RelatesTo'))
    out = {'kind': kind, 'id': header.findtext(_q(WSA, 'MessageID')), 'rel': mid_tok(rel) if rel else '',
           'anns': [], 'e': ''}
    payload = body[0] if len(body) else None
    if payload is None:
        return out
    if kind == 'Hello':
        out['anns'] = [_parse_announcement(payload)]
    elif kind == 'ProbeMatches':
        out['anns'] = [_parse_announcement(n) for n in payload.findall(_q(WSD, 'ProbeMatch'))]
    elif kind == 'ResolveMatches':
        out['anns'] = [_parse_announcement(n) for n in payload.findall(_q(WSD, 'ResolveMatch'))]
    elif kind in ('Bye', 'Resolve'):
        addr = payload.find(f'{_q(WSA, "EndpointReference")}/{_q(WSA, "Address")}')
        out['e'] = epr_tok(addr.text if addr is not None else None)
    return out


# --------------------------------------------------------------------------- the node without sockets
class _QuitWhenDrained:
    """Stands in for NetworkingThread._quit_recv_event: the real _run_q_read loop ends when the queue is empty."""

    def __init__(self, q):
        self._q = q

    def is_set(self) -> bool:
        return self._q.empty()

    def set(self):
        pass


class _RecordingSendQueue:
    """Stands in for NetworkingThread._send_queue: records what the node would send, in order."""

    def __init__(self):
        self.items = []

    def put(self, item, *_, **__):
        self.items.append(item)

    def empty(self) -> bool:
        return True


_quiet = logging.getLogger('c14.discover')
_quiet.setLevel(logging.CRITICAL + 1)
_quiet.propagate = False


def _networking_thread_class():
    from sdc11073.wsdiscovery import networkingthread

    class SocketlessNetworkingThread(networkingthread.NetworkingThread):
        """The real NetworkingThread (real __init__, add_outbound_message, _run_q_read ...) minus the sockets."""

        def _create_multicast_in_socket(self, addr, port):  # noqa: ARG002
            return None

        def _create_multi_out_uni_in_out_socket(self, addr, multicast_ttl):  # noqa: ARG002
            return None

    return SocketlessNetworkingThread


class Node:
    """A real WSDiscovery with a real (socket-less, never started) NetworkingThread."""

    OWN_ADDR = ('127.0.0.1', 50123)

    def __init__(self, cap: int | None = None):
        from sdc11073.wsdiscovery.wsdimpl import WSDiscovery
        self.wsd = WSDiscovery('127.0.0.1', logger=_quiet)
        self.nt = _networking_thread_class()('127.0.0.1', self.wsd, _quiet, self.wsd.multicast_port,
                                             self.wsd.multicast_ttl)
        self.nt._quit_recv_event = _QuitWhenDrained(self.nt._read_queue)
        self.outbox = _RecordingSendQueue()
        self.nt._send_queue = self.outbox
        if cap is not None:  # same container type, smaller bound
            self.nt._known_message_ids = collections.deque(maxlen=cap)
        self.wsd._networking_thread = self.nt
        self.wsd._server_started = True  # as start() would, without creating threads
        self.last_own: bytes | None = None
        self.sender = None

    def close(self):
        self.nt._inbound_selector.close()
        self.nt._outbound_selector.close()

    # inputs
    def feed(self, data: bytes, addr: tuple):
        """Hand a datagram to the node exactly as the receiving thread does, then run the real queue reader."""
        self.sender = addr
        self.nt._add_to_recv_queue(addr, data)
        self.nt._run_q_read()

    def publish(self, e: str, p: dict):
        self.sender = None
        self.wsd.publish_service(epr_str(e), [qname(t) for t in p['types']], mk_scopes(p['scopes']),
                                 [xaddr_str(x) for x in p['xaddrs']])

    def unpublish(self, e: str):
        self.sender = None
        self.wsd.clear_service(epr_str(e))

    # outputs
    def drain_sent(self) -> list[dict]:
        out = []
        for item in self.outbox.items:
            if item.repeat != 1:
                continue  # repetitions of the same datagram
            data = item.msg.created_message.serialize()
            rec = parse_outgoing(data)
            dest = (item.msg.addr, item.msg.port)
            rec['to'] = 'sender' if self.sender is not None and dest == tuple(self.sender) else \
                'mc' if dest == MULTICAST else f'{dest[0]}:{dest[1]}'
            rec['raw_id'] = rec.pop('id')
            out.append(rec)
            self.last_own = data
        self.outbox.items.clear()
        return out

    @staticmethod
    def _project(table: dict) -> list[dict]:
        res = []
        for key, s in table.items():
            e = epr_tok(key) if key == s.epr else f'?{key}|{s.epr}'
            mv = s.metadata_version if isinstance(s.metadata_version, int) else -1
            types = [type_tok(t) for t in (s.types or [])]
            scopes = [] if s.scopes is None else [uri_rec(t) for t in s.scopes.text]
            res.append({'e': e, 'mv': mv, 'types': types, 'scopes': scopes, 'xaddrs': [xaddr_tok(x) for x in s.x_addrs]})
        return res

    def observe(self) -> dict:
        ids = self.nt._known_message_ids
        return {'local': self._project(self.wsd._local_services), 'remote': self._project(self.wsd._remote_services),
                'seen': [mid_tok(i) for i in ids], 'cap': ids.maxlen if ids.maxlen is not None else 1000000}


NO_FLT = {'types': {'present': False, 'items': []}, 'scopes': {'present': False, 'items': []}, 'rule': 'absent'}


def replay(beh: list[dict], variant: int, real_cap: bool) -> list[dict]:
    """Run one TLC behaviour (hist of Discovery.tla) on a fresh real node; return the recorded trace."""
    node = Node(cap=None if real_cap else 2)
    empty_as_absent = variant % 2 == 0
    addr = ('10.0.0.9', 4711) if variant % 3 else ('192.168.7.7', 3702)
    try:
        trace = [{'act': 'Init', 'msg': beh[0]['msg'], 'e': '', 'p': beh[0]['p'], 'sent': [], 'obs': node.observe()}]
        for step in beh[1:]:
            rec = {'act': step['act'], 'msg': step['msg'], 'e': step['e'], 'p': step['p']}
            if step['act'] == 'Recv':
                node.feed(datagram(step['msg'], empty_as_absent), addr)
            elif step['act'] == 'Echo':
                if node.last_own is None:
                    continue  # the real node has not sent anything yet (only after an earlier divergence)
                own = parse_outgoing(node.last_own)
                rec['msg'] = {'kind': own['kind'], 'id': mid_tok(own['id']), 'anns': own['anns'], 'e': own['e'],
                              'flt': NO_FLT}
                node.feed(node.last_own, Node.OWN_ADDR)
            elif step['act'] == 'Publish':
                node.publish(step['e'], step['p'])
            elif step['act'] == 'Unpublish':
                node.unpublish(step['e'])
            else:
                raise ValueError(f'unmodelled step {step["act"]}')
            sent = node.drain_sent()
            rec['sent'] = [{'kind': s['kind'], 'rel': s['rel'], 'to': s['to'], 'anns': s['anns'], 'e': s['e']}
                           for s in sent]
            rec['obs'] = node.observe()
            trace.append(rec)
        return trace
    finally:
        node.close()
