from verif.tlc import run_tlc, json_lines
import time
r = run_tlc('UdpRepeat', '_gen_c15_a.cfg')
print(r.ok, r.generated, r.distinct, r.wall_s)
r = run_tlc('UdpRepeat', '_gen_c15_b.cfg', workers=1)
print(r.ok, r.generated, r.distinct, r.wall_s)
