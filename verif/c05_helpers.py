"""Binding of specs/XmlStructure.tla to the real data types of sdc11073 (check C05).

World      reflection: every class with declared members (xml_structure properties) of pm_types, msg_types,
           eventing_types, wsd_types, addressing_types, dpws_types, mex_types, descriptor and state containers; mapping
           of every property class to its abstract kind (an unmapped one is a machinery failure); the bundled XSD
           (schema_resolver.mk_schema_validator + one probe element of xsd:anyType, fixtures/c05/probe.xsd, that hosts
           a value of any named schema type via xsi:type).
Builder    concrete values: a schema-valid base instance of every class (members that the schema requires are learnt
           from the verdicts of the XSD), the concrete value of an abstract value class for one member.
Xml        writing / reading with the real code (as_etree_node / mk_node, from_node), the XSD verdict of a document and
           its classification: "missing" / "facet" (a value outside the schema value space was chosen), "struct" /
           "order" (the document has a shape the schema forbids), "combination" (an element that is legal in the type
           but not together with its siblings - both branches of a choice, more items than maxOccurs: decided with the
           XSD itself on rearranged / reduced copies of the document), "nested" (inside the object that is the value).
cval/cobj  canonical values (verif.mdibharness.canon; numbers by value, lxml elements by exclusive c14n), Tok: tokens.
"""
from __future__ import annotations

import copy
import enum
import glob
import inspect
import json
import os
import pathlib
import re
from collections import defaultdict
from decimal import Decimal

from lxml import etree

from verif.common import VERIF
from verif.mdibharness import canon
from verif.tlc import MachineryError

PROBE_NS = 'urn:verif:c05:probe'
PROBE_TAG = etree.QName(PROBE_NS, 'probe')
PROBE_XSD = os.path.join(VERIF, 'fixtures', 'c05', 'probe.xsd')
EXT_NS = 'urn:verif:c05:ext'
FIXED_NOW = 1700000000.123
XS = '{http://www.w3.org/2001/XMLSchema}'

# XML-legal string classes (brief): empty, leading / trailing blanks, markup characters, non-BMP, combining marks,
# white space characters that XML normalises unless escaped
STR_CATALOGUE = ['', ' lead', 'trail ', ' in  ner ', '&<>"\'', 'a\U0001F600b', 'e\u0301\u0323', 'tab\there', 'nl\nhere',
                 'cr\rhere', ']]>', '\u00a0nbsp\u2028']
# string items of a list at the border of the item value space: no XML white space (#x20 #x9 #xA #xD), but white space
# in the sense of str.split() / str.isspace(); each is ONE item of an xsd:list
LIST_ITEM_CATALOGUE = ['ac\u00a0hi', 'em\u2003sp', 'nel\u0085x', 'ls\u2028x', '\u3000lead', 'a.b-c_d:e']
# pairs of distinct values of the lexical spaces that string members have in the bundled schemas
STR_PAIRS = [('v1', 'v2'), ('en', 'de-DE'), ('urn:v:1', 'urn:v:2'),
             ('2024-05-06T07:08:09Z', '2025-01-02T03:04:05+01:00'), ('2024-05-06', '2025-01-02')]

SKIP_ALWAYS = {'XMLTypeBase', 'MessageType', 'PropertyBasedPMType', 'ElementWithText', 'ElementWithTextList',
               'ReportPartValuesList'}


class Tok:
    """Canonical forms -> small integers in order of first appearance."""

    def __init__(self):
        self._t: dict[str, int] = {}

    def __call__(self, canonical) -> int:
        key = canonical if isinstance(canonical, str) else json.dumps(canonical, sort_keys=True, default=str)
        if key not in self._t:
            self._t[key] = len(self._t)
        return self._t[key]


def _norm(c):
    """Post-process verif.mdibharness.canon: numbers by value, lxml elements independent of their document."""
    if isinstance(c, bool) or c is None:
        return c
    if isinstance(c, int):
        return 'N:' + str(c)
    if isinstance(c, enum.Enum):
        c = c.value
    if isinstance(c, str):
        s = str(c)
        if s.startswith('F:'):
            try:
                d = Decimal(s[2:]).normalize()
            except Exception:  # noqa: BLE001  (nan, inf)
                return s
            return 'N:' + (format(d, 'f') if d == d.to_integral() else str(d))
        if s.startswith('D:'):
            try:
                d = Decimal(s[2:]).normalize()
            except Exception:  # noqa: BLE001
                return s
            return 'N:' + (format(d, 'f') if d == d.to_integral() else str(d))
        if s.startswith('X:'):
            try:
                el = etree.fromstring(s[2:].encode('utf-8'))
                return 'X:' + etree.tostring(el, method='c14n', exclusive=True).decode('utf-8', 'replace')
            except etree.XMLSyntaxError:
                return s
        return s
    if isinstance(c, (list, tuple)):
        return [_norm(x) for x in c]
    if isinstance(c, dict):
        return {k: _norm(v) for k, v in c.items()}
    return c


EMPTY = '∅'


def cval(value):
    """Canonical form of one member value ('no value' and the empty list are the same thing)."""
    c = _norm(canon(value))
    if c is None or c == [] or c == ():
        return EMPTY
    return c


def cobj(obj, drop=frozenset()):
    return _norm(canon(obj, drop))


class PropInfo:
    """One concrete member of one concrete class."""

    __slots__ = ('cls', 'name', 'prop', 'kind', 'sig', 'stype', 'enum', 'value_class', 'decl', 'attr', 'sub', 'sigkey')

    def __repr__(self):
        return f'{self.cls.__name__}.{self.name}<{type(self.prop).__name__}>'


class World:
    def __init__(self):
        import sdc11073.definitions_sdc  # noqa: F401  (registers the protocol)
        from sdc11073 import namespaces, schema_resolver
        from sdc11073.mdib import containerbase, descriptorcontainers, statecontainers
        from sdc11073.xml_types import (addressing_types, basetypes, dataconverters, dpws_types, eventing_types,
                                        isoduration, mex_types, msg_types, pm_types, wsd_types, xml_structure)
        self.xs = xml_structure
        self.dcv = dataconverters
        self.iso = isoduration
        self.ns = namespaces
        self.nsh = namespaces.default_ns_helper
        self.pm_types = pm_types
        self.basetypes = basetypes
        self.containerbase = containerbase
        self.mex_types = mex_types
        self.modules = [pm_types, msg_types, eventing_types, wsd_types, addressing_types, dpws_types, mex_types,
                        descriptorcontainers, statecontainers, basetypes]
        self.dc = descriptorcontainers
        self.sc = statecontainers
        # the clock of CurrentTimestampAttributeProperty is frozen (harness side, the module global 'time' of xml_structure)
        xml_structure.time = _FrozenTime()
        self.kind_table = self._kind_table()
        self.nsmap_all = {p.prefix: p.namespace for p in namespaces.PrefixesEnum if p.prefix not in ('xml',)}
        probe = namespaces.PrefixNamespace('vp', PROBE_NS, 'urn:verif:c05:probe.xsd', pathlib.Path(PROBE_XSD))
        self.schema = schema_resolver.mk_schema_validator([e.value for e in namespaces.PrefixesEnum] + [probe],
                                                          self.nsh)
        self.xsd_types, self.xsd_elems = self._xsd_names(namespaces.schema_folder)
        self.classes: dict[str, type] = {}
        self.broken: dict[str, str] = {}     # class name -> exception text of sorted_container_properties
        self._discover()
        self.props: dict[type, list[PropInfo]] = {}
        self.undeclared: list[tuple[str, str]] = []   # (class, member) declared but not listed in _props
        for cls in self.classes.values():
            if cls.__name__ not in self.broken:
                self.props[cls] = self._reflect(cls)
        self.tested, self.skipped = self._select()
        self.hosts = self._hosts()

    # ------------------------------------------------------------------ reflection
    def _kind_table(self):
        xs = self.xs
        table = [
            (xs.CurrentTimestampAttributeProperty, 'curtime'),
            (xs._AttributeListBase, 'attrlist'),  # noqa: SLF001
            (xs._AttributeBase, 'attr'),  # noqa: SLF001
            (xs.NodeEnumQNameProperty, 'nodeqname'),
            (xs.NodeTextProperty, 'nodetext'),
            (xs.NodeTextQNameProperty, 'nodeqname'),
            (xs.ExtensionNodeProperty, 'ext'),
            (xs.AnyEtreeNodeProperty, 'anynode'),
            (xs.SubElementWithSubElementListProperty, 'subwithlist'),
            (xs.SubElementProperty, 'sub'),
            (xs.ContainerProperty, 'container'),
            (xs.SubElementListProperty, 'sublist'),
            (xs.ContainerListProperty, 'containerlist'),
            (xs.SubElementTextListProperty, 'textlist'),
            (xs.AnyEtreeNodeListProperty, 'anylist'),
            (xs.NodeTextListProperty, 'wordlist'),
            (xs.NodeTextQNameListProperty, 'qnamelist'),
            (xs.DateOfBirthProperty, 'dob'),
        ]
        # coverage of the model over the code: every property class of xml_structure.py has a kind
        for name, c in inspect.getmembers(xs, inspect.isclass):
            if c.__module__ == xs.__name__ and issubclass(c, xs._XmlStructureBaseProperty) \
                    and not name.startswith('_'):  # noqa: SLF001
                if not any(issubclass(c, k) for k, _ in table):
                    raise MachineryError(f'property class {name} of xml_structure.py has no abstract kind')
        return table

    def kind_of(self, prop) -> str:
        for klass, kind in self.kind_table:
            if isinstance(prop, klass):
                return kind
        raise MachineryError(f'property {type(prop).__name__} is not mapped to an abstract kind')

    @staticmethod
    def _xsd_names(folder):
        types, elems = set(), set()
        for f in glob.glob(os.path.join(str(folder), '*.xsd')):
            root = etree.parse(f).getroot()
            tns = root.get('targetNamespace')
            for ch in root:
                if ch.tag == XS + 'complexType':
                    types.add(etree.QName(tns, ch.get('name')).text)
                elif ch.tag == XS + 'element':
                    elems.add(etree.QName(tns, ch.get('name')).text)
        return types, elems

    def _discover(self):
        for m in self.modules:
            for name, c in inspect.getmembers(m, inspect.isclass):
                if c.__module__ != m.__name__ or not hasattr(c, 'sorted_container_properties'):
                    continue
                if name in self.classes and self.classes[name] is not c:
                    raise MachineryError(f'two classes named {name}')
                self.classes[name] = c
                try:
                    c.sorted_container_properties(c.__new__(c))
                except Exception as ex:  # noqa: BLE001
                    self.broken[name] = f'{type(ex).__name__}: {ex}'

    def _stype(self, conv):
        d = self.dcv
        if isinstance(conv, d.ListConverter):
            return self._stype(conv._element_converter)  # noqa: SLF001

        def is_(k):
            return conv is k or isinstance(conv, k) or (inspect.isclass(conv) and issubclass(conv, k))
        if is_(d.EnumConverter):
            return 'enum', conv._klass  # noqa: SLF001
        if is_(d.StringConverter):
            return 'str', None
        if is_(d.TimestampConverter):
            return 'ts', None
        if is_(d.DecimalConverter):
            return 'dec', None
        if is_(d.DurationConverter):
            return 'dur', None
        if is_(d.UnsignedLongConverter):
            return 'ulong', None
        if is_(d.UnsignedIntConverter):
            return 'uint', None
        if is_(d.IntegerConverter):
            return 'int', None
        if is_(d.BooleanConverter):
            return 'bool', None
        if is_(d.ClassCheckConverter):
            klass = conv._klass  # noqa: SLF001
            if len(klass) == 1:
                k = klass[0]
                if k is etree.QName:
                    return 'qname', None
                if k is str:
                    return 'str', None
                if k is int:
                    return 'int', None
                if k is self.iso.XsdDateInformation:
                    return 'dob', None
                if inspect.isclass(k) and issubclass(k, str) and hasattr(k, '__members__'):
                    return 'enum', k
                if k is self.xs.ExtensionLocalValue or k is etree._Element:  # noqa: SLF001
                    return 'xml', None
                return 'obj', k
        if conv is d.NullConverter:
            return 'xml', None
        raise MachineryError(f'converter {conv!r} is not mapped to a scalar type')

    def _reflect(self, cls) -> list[PropInfo]:
        out = []
        listed = cls.sorted_container_properties(cls.__new__(cls))
        names = {n for n, _ in listed}
        for k in inspect.getmro(cls):
            for n, v in k.__dict__.items():
                if isinstance(v, self.xs._XmlStructureBaseProperty) and n not in names \
                        and getattr(cls, n, None) is v:  # noqa: SLF001
                    self.undeclared.append((cls.__name__, n))
        for name, prop in listed:
            pi = PropInfo()
            pi.cls, pi.name, pi.prop = cls, name, prop
            pi.kind = self.kind_of(prop)
            pi.stype, pi.enum = self._stype(prop._converter)  # noqa: SLF001
            pi.value_class = getattr(prop, 'value_class', None)
            pi.attr = getattr(prop, '_attribute_name', None)
            pi.sub = getattr(prop, '_sub_element_name', None)
            slf = pi.kind not in ('attr', 'attrlist', 'curtime') and pi.sub is None
            df = 'default' if prop._default_py_value is not None else (  # noqa: SLF001
                'implied' if prop._implied_py_value is not None else 'none')  # noqa: SLF001
            pi.sig = {'k': pi.kind, 'opt': bool(prop.is_optional), 'df': df,
                      'ml': 1 if getattr(prop, '_min_length', 0) else 0, 'slf': slf,
                      'st': pi.stype == 'str' and pi.kind in ('attr', 'nodetext')}
            pi.sigkey = json.dumps(pi.sig, sort_keys=True)
            pi.decl = next(k for k in inspect.getmro(cls) if k.__dict__.get(name) is prop)
            out.append(pi)
        return out

    def is_abstract(self, cls) -> bool:
        if cls.__name__ in SKIP_ALWAYS:
            return True
        has_sub = any(c is not cls and issubclass(c, cls) for c in self.classes.values())
        return cls.__name__.startswith('Abstract') and has_sub

    def _select(self):
        tested, skipped = [], {}
        for name in sorted(self.classes):
            cls = self.classes[name]
            if name in self.broken:
                continue
            if self.is_abstract(cls):
                skipped[name] = 'abstract base (members are exercised on every derived class)'
            elif name == 'UnsubscribeResponse':
                skipped[name] = 'as_etree_node returns None by design (empty SOAP body)'
            else:
                tested.append(cls)
        # every declared member of a skipped class must be exercised on some tested class
        covered = {id(pi.prop) for c in tested for pi in self.props[c]}
        for name in skipped:
            for pi in self.props.get(self.classes[name], []):
                if id(pi.prop) not in covered:
                    raise MachineryError(f'member {name}.{pi.name} is not exercised on any tested class')
        return tested, skipped

    def concrete(self, value_class, host_cls=None) -> list[type]:
        """Concrete classes that may be the value of a member declared with value_class (declared class first)."""
        cands = [c for c in self.tested if issubclass(c, value_class)]
        if value_class.__name__ in ('PropertyBasedPMType', 'XMLTypeBase') and host_cls is not None:
            cands = [c for c in cands if c.__module__ == host_cls.__module__]
        cands.sort(key=lambda c: (c is not value_class, c.__name__))
        return cands

    # ------------------------------------------------------------------ validation contexts
    def type_name(self, cls):
        nt = getattr(cls, 'NODETYPE', None)
        return None if nt is None else etree.QName(nt)

    def direct_context(self, cls):
        nt = self.type_name(cls)
        if nt is not None:
            if nt.text in self.xsd_elems and issubclass(cls, self.basetypes.XMLTypeBase):
                return ('elem', nt)
            if nt.text in self.xsd_types:
                return ('type', nt)
        hint = TYPE_HINTS.get(cls.__name__)
        if hint is not None:
            q = etree.QName(self.nsmap_all[hint[1]], hint[2])
            if (q.text in self.xsd_elems) if hint[0] == 'elem' else (q.text in self.xsd_types):
                return (hint[0], q)
            raise MachineryError(f'TYPE_HINTS[{cls.__name__}] does not name a {hint[0]} of the bundled schemas')
        return None

    def _hosts(self):
        """class -> [(host PropInfo)] : members of directly validatable or hosted classes that can hold the class."""
        hosts = defaultdict(list)
        for c in self.tested:
            for pi in self.props[c]:
                if pi.kind in ('sub', 'sublist', 'subwithlist') and pi.value_class is not None and pi.sub is not None:
                    generic = pi.value_class.__name__ in ('PropertyBasedPMType', 'XMLTypeBase')
                    for t in self.tested:
                        if t is pi.value_class or (generic and t.__module__ == c.__module__
                                                   and issubclass(t, pi.value_class) and t is not c):
                            hosts[t].append(pi)
        return hosts


class _FrozenTime:
    @staticmethod
    def time():
        return FIXED_NOW


# classes without NODETYPE whose schema type / element is known: (context, prefix, local name)
TYPE_HINTS = {
    'EndpointReferenceType': ('type', 'wsa', 'EndpointReferenceType'),
    'ScopesType': ('type', 'wsd', 'ScopesType'),
    'ProbeMatchType': ('type', 'wsd', 'ProbeMatchType'),
    'ResolveMatchType': ('type', 'wsd', 'ResolveMatchType'),
    'HostServiceType': ('type', 'dpws', 'HostServiceType'),
    'HostedServiceType': ('type', 'dpws', 'HostedServiceType'),
    'ThisDeviceType': ('type', 'dpws', 'ThisDeviceType'),
    'ThisModelType': ('type', 'dpws', 'ThisModelType'),
    'LocalizedStringType': ('type', 'dpws', 'LocalizedStringType'),
    'DeliveryType': ('type', 'wse', 'DeliveryType'),
    'FilterType': ('type', 'wse', 'FilterType'),
    'LanguageSpecificStringType': ('type', 'wse', 'LanguageSpecificStringType'),
    'InvocationInfo': ('type', 'msg', 'InvocationInfo'),
    'MetaDataRelationship': ('elem', 'dpws', 'Relationship'),
    'Retrievability': ('elem', 'msg', 'Retrievability'),
    'RelatesTo': ('type', 'wsa', 'RelatesToType'),
}


class Builder:
    """Concrete values."""

    def __init__(self, world: World, seed: int = 0):
        self.w = world
        self.required: dict[type, list[str]] = defaultdict(list)   # class -> members the schema requires (learnt)
        self.str_choice: dict[int, int] = {}                       # id(prop) -> index into STR_PAIRS (learnt)
        self.base_state: dict[type, str] = {}                      # class -> 'valid' | 'invalid:<...>' | 'na'
        self.base_errors: dict[type, list] = {}
        self.no_lexical: list[str] = []                            # string members for which no catalogue pair is valid
        self.seed = seed
        self._learning: set = set()

    # ------------------------------------------------------------------ construction
    def construct(self, cls):
        w = self.w
        if issubclass(cls, w.dc.AbstractDescriptorContainer):
            return cls('h1', 'p1')
        if issubclass(cls, w.sc.AbstractMultiStateContainer):
            obj = cls(None, 's1')
            obj.DescriptorHandle = 'h1'
            return obj
        if issubclass(cls, w.sc.AbstractStateContainer):
            obj = cls(None)
            obj.DescriptorHandle = 'h1'
            return obj
        sig = inspect.signature(cls.__init__)
        kwargs = {}
        for n, p in list(sig.parameters.items())[1:]:
            if p.default is not inspect.Parameter.empty or p.kind in (p.VAR_POSITIONAL, p.VAR_KEYWORD):
                continue
            if n not in _CTOR_ARGS:
                raise MachineryError(f'{cls.__name__}.__init__ needs argument {n!r}: no concretisation')
            kwargs[n] = _CTOR_ARGS[n](w)
        obj = cls(**kwargs)
        if cls.__name__ == 'HeaderInformationBlock':
            obj.MessageID = 'urn:uuid:00000000-0000-0000-0000-000000000001'
        return obj

    def base(self, cls, depth: int = 0):
        """A minimal instance: mandatory members and the members the schema requires hold one value."""
        if depth > 8:
            raise MachineryError(f'mandatory members of {cls.__name__} nest deeper than 8 levels')
        return self.complete(self.construct(cls), depth)

    def complete(self, obj, depth: int = 0):
        """Give every mandatory / schema-required member of obj (and of the objects it holds) one value."""
        cls = type(obj)
        if cls not in self.w.props:
            return obj
        for pi in self.w.props[cls]:
            if pi.kind == 'curtime':
                continue
            cur = pi.prop.get_actual_value(obj)
            empty = cur is None or (isinstance(cur, list) and len(cur) == 0) \
                or (pi.kind == 'subwithlist' and cur.is_empty())
            need = pi.name in self.required[cls] and empty
            mandatory = (not pi.prop.is_optional) and cur is None \
                and pi.kind in ('attr', 'nodetext', 'nodeqname', 'sub', 'container', 'anynode', 'dob')
            if need or mandatory:
                self.set_value(obj, pi, 'one', depth=depth + 1)
            elif cur is not None and pi.kind in ('sub', 'container', 'subwithlist') and depth < 8:
                self.complete(cur, depth + 1)     # e.g. a declared default object with mandatory members
        return obj

    def writable(self, value) -> bool:
        """Can the library write this object as it is (all its mandatory members hold a value)?"""
        cls = type(value)
        if cls not in self.w.props:
            return True
        for pi in self.w.props[cls]:
            cur = pi.prop.get_actual_value(value)
            if cur is None and not pi.prop.is_optional \
                    and pi.kind in ('attr', 'nodetext', 'nodeqname', 'sub', 'container', 'anynode'):
                return False
            if cur is not None and pi.kind in ('sub', 'container') and not self.writable(cur):
                return False
        return True

    def full(self, cls, depth: int = 0, skip=()):
        """An instance in which every member holds one value (nested objects are minimal)."""
        obj = self.base(cls, depth)
        for pi in self.w.props[cls]:
            if pi.kind == 'curtime' or pi.name in skip:
                continue
            try:
                self.set_value(obj, pi, 'one', depth=depth + 1)
            except Uninstantiable:
                continue
        from verif.mdibharness import EXTRA_MEMBERS
        for name in EXTRA_MEMBERS.get(cls.__name__, ()):
            # element lists kept outside the declared properties (reference parameters of a header block)
            el_a = etree.Element(etree.QName(EXT_NS, 'RefParamA'), nsmap={'vx': EXT_NS})
            el_a.text = 'rp-a'
            el_b = etree.Element(etree.QName(EXT_NS, 'RefParamB'), nsmap={'vx': EXT_NS})
            etree.SubElement(el_b, etree.QName(EXT_NS, 'Child')).text = 'rp-b'
            setattr(obj, name, [el_a, el_b])
        return obj

    # ------------------------------------------------------------------ scalar values
    def scalar(self, pi: PropInfo, which: str, variant: int = 0):
        w = self.w
        st = pi.stype
        if st == 'str':
            if which == 'bound':
                return STR_CATALOGUE[variant % len(STR_CATALOGUE)]
            pair = STR_PAIRS[self.str_choice.get(id(pi.prop), 0)]
            return pair[0] if which in ('one', 'a') else pair[1]
        if st == 'enum':
            members = list(pi.enum)
            if which in ('one', 'a'):
                return members[0]
            if which in ('two', 'b'):
                return members[1 % len(members)]
            return members[(len(members) - 1 - variant) % len(members)]
        if st == 'bool':
            return which in ('one', 'a')
        if st in ('int', 'uint', 'ulong'):
            if which in ('one', 'a'):
                return 1
            if which in ('two', 'b'):
                return 2
            return {'int': [0, 2147483647, -7], 'uint': [0, 4294967295, 65536],
                    'ulong': [0, 18446744073709551615, 4294967296]}[st][variant % 3]
        if st == 'dec':
            if which in ('one', 'a'):
                return Decimal('0.5')
            if which in ('two', 'b'):
                return Decimal('0.25')
            # (the last three: values python holds with an exponent - str() would write them in scientific notation)
            return [Decimal('1'), Decimal('-12345.678'), Decimal('0.000001'), Decimal('100'), Decimal('1E+2'),
                    Decimal('1.2E+3'), Decimal('5E-7')][variant % 7]
        if st == 'ts':
            return {'one': 1.5, 'a': 1.5, 'two': 2.0, 'b': 2.0}.get(which, [FIXED_NOW - 1000, 0.001, 0][variant % 3])
        if st == 'dur':
            return {'one': 2.0, 'a': 2.0, 'two': 0.5, 'b': 0.5}.get(which, [3723.25, 0.0, 86400.0][variant % 3])
        if st == 'qname':
            if which in ('one', 'a'):
                return etree.QName(w.nsh.PM.namespace, 'QOne')
            if which in ('two', 'b'):
                return etree.QName(w.nsh.MSG.namespace, 'QTwo')
            return [etree.QName('urn:verif:c05:other', 'QBound'), etree.QName(w.nsh.XSD.namespace, 'string')][variant % 2]
        if st == 'dob':
            text = {'one': '2001-02-03', 'a': '2001-02-03', 'two': '1999-12', 'b': '1999-12'}.get(
                which, ['2010', '2001-02-03T04:05:06Z', '2001-02-03T04:05:06.5+01:00'][variant % 3])
            return w.iso.parse_date_time(text)
        raise MachineryError(f'no scalar value for {pi!r} ({st})')

    def xml_item(self, pi: PropInfo, which: str):
        """An lxml element as item of an extension / any-node member."""
        w = self.w
        if pi.cls.__name__ == 'GetMdibResponse':
            el = etree.Element(w.nsh.MSG.tag('Mdib'), nsmap={'msg': w.nsh.MSG.namespace})
            el.set('SequenceId', 'urn:verif:seq:' + which)
            return el
        el = etree.Element(etree.QName(EXT_NS, 'Item' + which.upper()), nsmap={'vx': EXT_NS})
        el.set('k', which)
        child = etree.SubElement(el, etree.QName(EXT_NS, 'Child'))
        child.text = 'text ' + which
        return el

    # ------------------------------------------------------------------ object values
    def obj_classes(self, pi: PropInfo):
        cands = self.w.concrete(pi.value_class, pi.cls)
        if not cands:
            raise Uninstantiable(f'no concrete class for {pi!r}')
        return cands

    def xsi_classes(self, pi: PropInfo):
        """Classes of values that need xsi:type in a member declared with pi.value_class."""
        w = self.w
        declared = getattr(pi.value_class, 'NODETYPE', None)
        out = []
        for c in self.obj_classes(pi):
            nt = getattr(c, 'NODETYPE', None)
            if c is pi.value_class or nt is None or nt == declared:
                continue
            if etree.QName(nt).text not in w.xsd_types:
                continue   # not a named type of the schema: such a value is outside the schema value space
            out.append(c)
        return out

    def obj_value(self, pi: PropInfo, which: str, depth: int, variant: int = 0):
        if which in ('one', 'a', 'full'):
            cands = self.obj_classes(pi)
            if pi.kind in ('container', 'containerlist'):
                # the declared class of container members is an (abstract) base: any concrete class
                cands = [c for c in cands if not self.w.is_abstract(c)]
            cls = cands[0]
            return self.full(cls, depth) if which == 'full' else self.base(cls, depth)
        if which in ('xsi', 'b'):
            cands = self.xsi_classes(pi)
            if pi.kind in ('container', 'containerlist'):
                cands = [c for c in self.obj_classes(pi)][1:]
            if not cands:
                raise Uninstantiable(f'no derived class with a schema type for {pi!r}')
            return self.base(cands[variant % len(cands)], depth)
        raise MachineryError(f'obj_value {which}')

    # ------------------------------------------------------------------ value of a value class
    def value(self, pi: PropInfo, vc: str, depth: int = 0, variant: int = 0):
        """Return the python value of the abstract value class vc for member pi (NOTSET: leave the member alone)."""
        k = pi.kind
        prop = pi.prop
        if vc == 'init':
            # the initial state that the declaration gives the member (a constructor may have overwritten it)
            if k == 'curtime':
                return NOTSET
            if prop._default_py_value is not None:  # noqa: SLF001
                if not self.writable(prop._default_py_value):  # noqa: SLF001
                    raise Uninstantiable('the declared default object has mandatory members without value')
                return copy.deepcopy(prop._default_py_value)  # noqa: SLF001
            return [] if (k in LIST_KINDS and k != 'anynode') else None
        if vc == 'absent':
            if k == 'ext':
                raise Uninstantiable('the setter of ExtensionNodeProperty does not take None')
            return None
        if vc == 'eqd':
            v = prop._default_py_value if prop._default_py_value is not None else prop._implied_py_value  # noqa: SLF001
            if not self.writable(v):
                raise Uninstantiable('the declared default object has mandatory members without value')
            return copy.deepcopy(v)
        if vc == 'stripped':
            vc = 'one'
        if k in ('attr', 'nodetext', 'nodeqname', 'dob'):
            if pi.stype in ('obj', 'xml'):
                raise MachineryError(f'scalar member {pi!r} with object type')
            return self.scalar(pi, vc, variant)
        if k in ('sub', 'container'):
            return self.obj_value(pi, vc, depth, variant)
        if k in ('attrlist', 'wordlist', 'qnamelist', 'textlist'):
            if vc == 'empty':
                return []
            if vc == 'bound':
                first = LIST_ITEM_CATALOGUE[variant % len(LIST_ITEM_CATALOGUE)] if pi.stype == 'str' \
                    else self.scalar(pi, 'bound', variant)
                return [first, self.scalar(pi, 'b')]
            items = [self.scalar(pi, 'a')]
            if vc == 'many':
                items.append(self.scalar(pi, 'b'))
            return items
        if k in ('ext', 'anylist', 'anynode'):
            if vc == 'empty':
                return []
            items = [self.xml_item(pi, 'a')]
            if vc == 'many':
                items.append(self.xml_item(pi, 'b'))
            return items
        if k in ('sublist', 'containerlist'):
            if vc == 'empty':
                return []
            items = [self.obj_value(pi, 'a', depth)]
            if vc == 'many':
                second = self.obj_value(pi, 'a', depth)
                self._vary(second)
                items.append(second)
            if vc == 'xsi':
                items.append(self.obj_value(pi, 'b', depth, variant))
            return items
        if k == 'subwithlist':
            holder = self.base(pi.value_class, depth)
            inner = self.w.props[pi.value_class][0]
            if vc == 'one':
                setattr(holder, inner.name, [self.scalar(inner, 'a')])
            elif vc == 'many':
                setattr(holder, inner.name, [self.scalar(inner, 'a'), self.scalar(inner, 'b')])
            return holder
        raise MachineryError(f'no value for kind {k} / {vc}')

    def _vary(self, obj):
        """Make a second list item differ from the first one (first string / number member gets its second value)."""
        for pi in self.w.props[type(obj)]:
            if pi.kind in ('attr', 'nodetext') and pi.stype in ('str', 'dec', 'int', 'uint', 'ulong') \
                    and pi.name not in ('DescriptorHandle',):
                setattr(obj, pi.name, self.scalar(pi, 'b'))
                return

    def set_value(self, obj, pi: PropInfo, vc: str, depth: int = 0, variant: int = 0):
        v = self.value(pi, vc, depth, variant)
        if v is NOTSET:
            return
        if pi.kind in ('sublist', 'containerlist') and isinstance(v, list):
            # the declared value class of some list members is narrower than what the library puts into them
            # (the library appends); appending is the documented use
            lst = getattr(obj, pi.name)
            if lst is None:
                setattr(obj, pi.name, [])
                lst = getattr(obj, pi.name)
            del lst[:]
            lst.extend(v)
            return
        setattr(obj, pi.name, v)


class Uninstantiable(Exception):
    """The abstract case has no concrete counterpart on this member."""


NOTSET = object()
LIST_KINDS = ('attrlist', 'wordlist', 'qnamelist', 'textlist', 'sublist', 'containerlist', 'ext', 'anylist',
              'anynode')

_CTOR_ARGS = {
    'text': lambda w: 't1',
    'code': lambda w: 'c1',
    'value': lambda w: None,
    'unit': lambda w: None,
    'ref_range': lambda w: w.pm_types.Range(),
    'method': lambda w: w.pm_types.RetrievabilityMethod.GET,
}

_MISSING_CHILD = re.compile(r'Missing child element\(s\)\. Expected is (?:one of )?\( (.*) \)')
_NOT_EXPECTED = re.compile(r'This element is not expected\. Expected is (?:one of )?\( (.*) \)')
_MISSING_ATTR = re.compile(r"The attribute '([^']+)' is required but missing")
_ATTR_OF = re.compile(r"attribute '([^']+)'")


def _all_ns(doc) -> dict:
    ns = {}
    for el in doc.iter():
        for k, v in (el.nsmap or {}).items():
            if k:
                ns.setdefault(k, v)
    return ns


def _index_path(el) -> list[int]:
    out = []
    while el.getparent() is not None:
        out.append(el.getparent().index(el))
        el = el.getparent()
    return list(reversed(out))


def short_exc(ex) -> str:
    """The innermost message of the nested 'could not update' exceptions of the library."""
    text = f'{type(ex).__name__}: {ex}'
    lines = [ln.strip() for ln in text.splitlines() if ln.strip()]
    inner = [ln for ln in lines if re.match(r'^[A-Za-z_.]*(Error|Exception)\b.*:', ln) and 'could not update' not in ln]
    where = re.findall(r'In (\w+\.\w+), ', text)
    msg = inner[-1] if inner else lines[0]
    return (msg + (f' [at {" > ".join(where)}]' if where else ''))[:400]


def err_class(message: str) -> str:
    if 'Missing child element' in message or 'is required but missing' in message:
        return 'missing'
    if '[facet' in message or 'is not a valid value of' in message:
        return 'facet'
    return 'struct'


class Xml:
    """Writing, reading, validating."""

    def __init__(self, world: World, builder: Builder):
        self.w = world
        self.b = builder

    # ------------------------------------------------------------------ write / read with the real code
    def write(self, obj, tag):
        if isinstance(obj, self.w.containerbase.ContainerBase):
            return obj.mk_node(tag, self.w.nsh)
        return obj.as_etree_node(tag, dict(self.w.nsmap_all))

    def root_tag(self, cls):
        ctx = self.w.direct_context(cls)
        if ctx is not None and ctx[0] == 'elem':
            return ctx[1], None
        if ctx is not None:
            return PROBE_TAG, ctx[1]
        hosts = self.w.hosts.get(cls)
        if hosts:
            return hosts[0].sub, None
        return PROBE_TAG, None

    def write_root(self, obj):
        tag, xsi = self.root_tag(type(obj))
        node = self.write(obj, tag)
        if node is None:
            raise MachineryError(f'{type(obj).__name__} writes no node')
        if xsi is not None:
            node.set(self.w.ns.QN_TYPE, self.w.ns.docname_from_qname(xsi, node.nsmap))
        return node

    def read(self, cls, doc):
        if cls is self.w.mex_types.Metadata:
            body = etree.Element(self.w.nsh.S12.tag('Body'))
            body.append(copy.deepcopy(doc))
            return cls.from_node(body)
        return cls.from_node(doc)

    # ------------------------------------------------------------------ validation
    def document(self, obj, _depth=0):
        """Return (root element of a document that the XSD can judge, element of obj in it) or None."""
        cls = type(obj)
        ctx = self.w.direct_context(cls)
        if ctx is not None:
            root = self.write_root(obj)
            return root, root
        if _depth > 4:
            return None
        for hpi in self.w.hosts.get(cls, []):
            if hpi.cls is cls or self.learn(hpi.cls) in ('learning',) or self.b.base_state.get(hpi.cls) != 'valid':
                continue
            host = self.b.base(hpi.cls)
            if hpi.kind == 'sublist':
                lst = getattr(host, hpi.name)
                del lst[:]
                lst.append(obj)
            else:
                setattr(host, hpi.name, obj)
            got = self.document(host, _depth + 1)
            if got is None:
                continue
            root, host_el = got
            target = host_el.find(hpi.sub)
            if target is None:
                continue
            return root, target
        return None

    def verdict(self, obj, pi: PropInfo | None = None, vc: str = '', strip=None, xml1: bytes | None = None):
        """XSD verdict for obj: 'valid' | 'struct' | 'value' | 'na' (+ the error list).

        xml1: the serialised document if the class has a validation context of its own (else obj is written into a
        base instance of a class that holds it)."""
        if xml1 is not None:
            doc = etree.fromstring(xml1)
            target = doc
        else:
            try:
                got = self.document(obj)
            except Exception as ex:  # noqa: BLE001  (writing the host failed: no verdict)
                return 'na', [('', short_exc(ex), 'nodoc')]
            if got is None:
                return 'na', []
            root, target_w = got
            if strip is not None:
                strip(target_w)
            path_t = root.getroottree().getpath(target_w)
            doc = etree.fromstring(etree.tostring(root))
            found = doc.getroottree().xpath(path_t, namespaces=_all_ns(doc))
            target = found[0] if found else doc
        if self.w.schema.validate(doc):
            return 'valid', []
        errors = [(e.path, e.message, err_class(e.message)) for e in self.w.schema.error_log]
        tree = doc.getroottree()
        depth_t = tree.getpath(target).count('/')
        kinds = set()
        out = []
        for path, message, k in errors:
            if k == 'struct' and 'This element is not expected' in message:
                m = _NOT_EXPECTED.search(message)
                if m and pi is not None and pi.sub is not None and vc in ('absent', 'stripped', 'empty', 'init') \
                        and pi.sub.text in [t.strip() for t in m.group(1).split(',')]:
                    k = 'missing'      # the member that was left out is required by the schema
                else:
                    k = self._diagnose(doc, path)
            if pi is not None and vc in ('one', 'full', 'xsi', 'many') and path.count('/') > depth_t + 1 \
                    and pi.kind in ('sub', 'sublist', 'container', 'containerlist'):
                k = 'nested'           # inside the object that is the value: judged on the records of its own class
            kinds.add(k)
            out.append((path, message, k))
        kinds.discard('nested')
        if not kinds:
            return 'value', out
        return ('struct' if kinds & {'struct', 'order'} else 'value'), out

    def _diagnose(self, doc, path: str) -> str:
        """An element 'is not expected': wrong place ('order'), not combinable with its siblings ('combination':
        a value outside the schema value space, e.g. both branches of a choice, too many items) or illegal
        ('struct')?  Decided with the XSD on rearranged / reduced copies of the document."""
        tree = doc.getroottree()
        found = tree.xpath(path, namespaces=_all_ns(doc))
        if not found or found[0].getparent() is None:
            return 'struct'
        idx_path = _index_path(found[0])

        def variant(edit):
            cp = copy.deepcopy(doc)
            el = cp
            for i in idx_path:
                el = el[i]
            edit(el.getparent(), el)
            if self.w.schema.validate(cp):
                return True
            # the complaint about the shape is gone (what remains concerns values)
            return all(err_class(e.message) != 'struct' for e in self.w.schema.error_log)
        n = len(found[0].getparent())
        my = idx_path[-1]
        for pos in range(n):
            if pos == my:
                continue

            def move(parent, el, pos=pos):
                parent.remove(el)
                parent.insert(pos, el)
            if variant(move):
                return 'order'
        for other in range(n):
            if other == my:
                continue

            def drop(parent, el, other=other):
                parent.remove(parent[other])
            if variant(drop):
                return 'combination'

        def alone(parent, el):
            for ch in list(parent):
                if ch is not el:
                    parent.remove(ch)
        if n > 2 and variant(alone):
            return 'combination'
        return 'struct'

    # ------------------------------------------------------------------ learning what the schema requires
    def objmap(self, obj, elem, out=None):
        """Map the elements of the written tree to the objects that wrote them."""
        if out is None:
            out = {}
        out[elem] = obj
        cls = type(obj)
        if cls not in self.w.props:
            return out
        for pi in self.w.props[cls]:
            if pi.kind not in ('sub', 'sublist', 'container', 'containerlist', 'subwithlist') or pi.sub is None:
                continue
            val = pi.prop.get_actual_value(obj)
            if val is None:
                continue
            vals = val if isinstance(val, list) else [val]
            for child, v in zip(elem.findall(pi.sub), vals):
                if child not in out:
                    self.objmap(v, child, out)
        return out

    def learn(self, cls) -> str:
        """Make base(cls) schema-valid by learning required members / string lexical spaces; return its state."""
        b = self.b
        if cls in b.base_state:
            return b.base_state[cls]
        if cls in b._learning:  # noqa: SLF001
            return 'learning'
        b._learning.add(cls)  # noqa: SLF001
        state = 'na'
        try:
            for _ in range(40):
                try:
                    obj = b.base(cls)
                    got = self.document(obj)
                except MachineryError:
                    raise
                except Exception as ex:  # noqa: BLE001
                    state = f'invalid:write raises {type(ex).__name__}'
                    b.base_errors[cls] = [('', short_exc(ex), 'write')]
                    break
                if got is None:
                    state = 'na'
                    break
                root, target = got
                data = etree.tostring(root)
                doc = etree.fromstring(data)
                if self.w.schema.validate(doc):
                    state = 'valid'
                    break
                errors = [(e.path, e.message, err_class(e.message)) for e in self.w.schema.error_log]
                tree_w = root.getroottree()
                omap = {tree_w.getpath(el): o for el, o in self.objmap(obj, target).items()}
                if not self._repair(errors, omap, doc):
                    state = 'invalid:' + ('struct' if any(k == 'struct' for _, _, k in errors) else 'value')
                    b.base_errors[cls] = errors
                    break
            else:
                state = 'invalid:no fixpoint'
        finally:
            b._learning.discard(cls)  # noqa: SLF001
        b.base_state[cls] = state
        return state

    def learn_strings(self, cls):
        """Pick, for every string member of cls, a pair of values from the lexical space the schema gives it."""
        b = self.b
        if b.base_state.get(cls) != 'valid':
            return
        for pi in self.w.props[cls]:
            if pi.stype != 'str' or pi.kind not in ('attr', 'nodetext', 'textlist', 'wordlist', 'attrlist') \
                    or id(pi.prop) in b.str_choice:
                continue
            for choice in range(len(STR_PAIRS)):
                b.str_choice[id(pi.prop)] = choice
                try:
                    obj = b.base(cls)
                    b.set_value(obj, pi, 'one')
                    verdict, errors = self.verdict(obj, pi, 'one')
                except Exception:  # noqa: BLE001
                    verdict, errors = 'na', []
                if verdict != 'value' or not any(k == 'facet' for _, _, k in errors):
                    break
            else:
                b.str_choice[id(pi.prop)] = 0
                b.no_lexical.append(f'{cls.__name__}.{pi.name}')

    def _repair(self, errors, omap, doc) -> bool:
        progress = False
        b = self.b
        for path, message, k in errors:
            if k == 'missing':
                owner = omap.get(path)
                if owner is None:
                    continue
                cls = type(owner)
                m = _MISSING_ATTR.search(message)
                if m:
                    pi = next((p for p in self.w.props[cls] if p.attr == m.group(1)), None)
                else:
                    m = _MISSING_CHILD.search(message)
                    if not m:
                        continue
                    want = m.group(1).split(', ')[-1].strip()
                    pi = next((p for p in self.w.props[cls] if p.sub is not None and p.sub.text == want), None)
                if pi is not None and pi.name not in b.required[cls]:
                    b.required[cls].append(pi.name)
                    progress = True
            elif k == 'struct' and _NOT_EXPECTED.search(message):
                parent = path.rpartition('/')[0]
                owner = omap.get(parent)
                if owner is None:
                    continue
                want = _NOT_EXPECTED.search(message).group(1).split(', ')[-1].strip()
                cls = type(owner)
                pi = next((p for p in self.w.props[cls] if p.sub is not None and p.sub.text == want), None)
                if pi is not None and pi.name not in b.required[cls]:
                    empty = pi.prop.get_actual_value(owner) in (None, [])
                    if empty:
                        b.required[cls].append(pi.name)
                        progress = True
            elif k == 'facet':
                m = _ATTR_OF.search(message)
                if m:
                    owner = omap.get(path)
                    pi = None if owner is None else next(
                        (p for p in self.w.props[type(owner)] if p.attr == m.group(1)), None)
                else:
                    parent, _, last = path.rpartition('/')
                    owner = omap.get(parent)
                    local = last.split('[')[0].split(':')[-1]
                    pi = None if owner is None else next(
                        (p for p in self.w.props[type(owner)]
                         if p.sub is not None and etree.QName(p.sub).localname == local), None)
                    if pi is None:   # the text of the element itself
                        owner = omap.get(path)
                        pi = None if owner is None else next(
                            (p for p in self.w.props[type(owner)] if p.sig['slf'] and p.kind == 'nodetext'), None)
                if pi is not None and pi.stype == 'str':
                    cur = b.str_choice.get(id(pi.prop), 0)
                    if cur + 1 < len(STR_PAIRS):
                        b.str_choice[id(pi.prop)] = cur + 1
                        progress = True
        return progress
