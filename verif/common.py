"""Shared plumbing of all checks: tiers, seeds, verdicts, evidence, known findings."""
from __future__ import annotations

import json
import os
import sys
import tempfile
import time
import traceback

from .tlc import MachineryError, TlcResult

VERIF = os.path.dirname(os.path.dirname(os.path.abspath(__file__)))
REPO = os.environ.get('VERIF_REPO', '/repo')
EVIDENCE_DIR = os.environ.get('VERIF_EVIDENCE_DIR') or os.path.join(VERIF, 'evidence')
REPLAY_DIR = os.environ.get('VERIF_REPLAY_DIR') or os.path.join(VERIF, 'replays')
FINDINGS_FILE = os.path.join(VERIF, 'known_findings.json')


def load_findings() -> list[dict]:
    if not os.path.exists(FINDINGS_FILE):
        return []
    with open(FINDINGS_FILE) as f:
        return json.load(f).get('findings', [])


class Run:
    """One run of one check. Collects TLC statistics, violations and coverage; writes evidence."""

    def __init__(self, pid: str, tier: str, seed: int):
        self.pid = pid
        self.tier = tier
        self.seed = seed
        self.t0 = time.time()
        self.tlc: list[TlcResult] = []
        self.coverage: dict = {}
        self.samples: list = []
        self.assumptions: list[str] = []
        self.violations: list[dict] = []   # unlisted violations
        self.known_hits: dict[str, int] = {}
        self.traces_validated = 0
        self.distinct_traces: set = set()
        self.evaluations = 0
        self._findings = [f for f in load_findings() if f.get('property') == pid]
        self.tmp = tempfile.mkdtemp(prefix=f'verif_{pid}_')

    @property
    def quick(self) -> bool:
        return self.tier == 'quick'

    def pick(self, quick, thorough):
        return quick if self.tier == 'quick' else thorough

    def add_tlc(self, res: TlcResult, need_actions: list[str] | None = None) -> TlcResult:
        self.tlc.append(res)
        if need_actions:
            missing = [a for a in need_actions if res.coverage.get(a, (0, 0))[1] == 0]
            if missing:
                raise MachineryError(f'{res.module}/{res.cfg}: actions never taken (vacuous model run): {missing}')
        return res

    def note(self, key: str, value):
        self.coverage[key] = value

    def count(self, key: str, n: int = 1):
        self.coverage[key] = self.coverage.get(key, 0) + n

    def sample(self, obj, limit: int = 3):
        if len(self.samples) < limit:
            self.samples.append(obj)

    def is_known(self, descr: dict) -> bool:
        """Count and report True if descr matches a listed known finding."""
        for f in self._findings:
            if all(descr.get(k) == v for k, v in f.get('match', {}).items()):
                self.known_hits[f['id']] = self.known_hits.get(f['id'], 0) + 1
                return True
        return False

    def violation(self, descr: dict, what: str, replay_obj=None):
        """Report a property violation seen on the real code.

        descr: discriminating fields (check, action, clause, class ...) matched against known findings.
        """
        for f in self._findings:
            if all(descr.get(k) == v for k, v in f.get('match', {}).items()):
                self.known_hits[f['id']] = self.known_hits.get(f['id'], 0) + 1
                return
        key = json.dumps(descr, sort_keys=True)
        for v in self.violations:
            if v['key'] == key:
                v['count'] += 1
                return
        path = None
        if replay_obj is not None:
            os.makedirs(REPLAY_DIR, exist_ok=True)
            path = os.path.join(REPLAY_DIR, f'{self.pid}_{len(self.violations)}.json')
            with open(path, 'w') as f:
                json.dump({'property': self.pid, 'descr': descr, 'what': what, 'replay': replay_obj}, f, indent=1,
                          default=str)
        self.violations.append({'key': key, 'descr': descr, 'what': what, 'replay': path, 'count': 1})

    def finish(self) -> int:
        states = sum(r.distinct for r in self.tlc)
        transitions = sum(r.generated for r in self.tlc)
        cov = dict(self.coverage)
        cov.update({
            'states': max(states, 0),
            'transitions': max(transitions, 0),
            'traces_validated_against_impl': self.traces_validated,
            'evaluations': max(self.evaluations, self.traces_validated),
            'distinct_nontrivial': len(self.distinct_traces),
            'samples': self.samples or ['(no sample recorded)'],
            'tlc_runs': [{'module': r.module, 'cfg': r.cfg, 'distinct_states': r.distinct,
                          'states_generated': r.generated, 'wall_s': round(r.wall_s, 1),
                          'action_coverage': {k: v[1] for k, v in r.coverage.items()}} for r in self.tlc],
            'known_findings_reproduced': self.known_hits,
        })
        ev = {
            'property_id': self.pid, 'tier': self.tier, 'seed': self.seed, 'level': 'model_checking',
            'coverage': cov, 'assumptions': self.assumptions, 'wall_s': round(time.time() - self.t0, 2),
            'violations': len(self.violations),
        }
        os.makedirs(EVIDENCE_DIR, exist_ok=True)
        with open(os.path.join(EVIDENCE_DIR, f'{self.pid}.json'), 'w') as f:
            json.dump(ev, f, indent=1, default=str)
        for f in self._findings:
            if f['id'] in self.known_hits:
                print(f"KNOWN-FINDING: property={self.pid} {f['what']} (id={f['id']}, seen {self.known_hits[f['id']]}x)")
        for v in self.violations:
            print(f"  violation x{v['count']}: {v['what']}  descr={v['key']}")
            print(f"VIOLATION property={self.pid} replay={v['replay']}")
        import shutil
        shutil.rmtree(self.tmp, ignore_errors=True)
        print(f'{self.pid} {self.tier}: states={states} transitions={transitions} traces={self.traces_validated} '
              f'distinct={len(self.distinct_traces)} violations={len(self.violations)} '
              f'known={sum(self.known_hits.values())} wall={ev["wall_s"]}s')
        return 1 if self.violations else 0


def main_wrapper(check_fn, pid: str, argv: list[str]) -> int:
    tier = os.environ.get('VERIF_TIER', 'quick')
    replay = None
    i = 0
    while i < len(argv):
        if argv[i] == '--tier':
            tier = argv[i + 1]
            i += 2
        elif argv[i] == '--replay':
            replay = argv[i + 1]
            i += 2
        else:
            i += 1
    seed = int(os.environ.get('VERIF_SEED', '20260923'))
    # a machinery failure (never a verdict) is retried once with fresh state: the harnesses drive real threads with
    # watchdog timeouts, and a heavily loaded machine can trip one
    for attempt in (1, 2):
        run = Run(pid, tier, seed)
        try:
            check_fn(run, replay)
            return run.finish()
        except MachineryError as ex:
            print(f'MACHINERY-FAILURE property={pid}: {ex}' + (' (retrying once)' if attempt == 1 else ''),
                  file=sys.stderr)
        except Exception:  # noqa: BLE001
            traceback.print_exc()
            print(f'MACHINERY-FAILURE property={pid}: unexpected exception in harness'
                  + (' (retrying once)' if attempt == 1 else ''), file=sys.stderr)
        import shutil
        shutil.rmtree(run.tmp, ignore_errors=True)
    return 2
