"""C12 - instances never share mutable state or alter the defaults of later instances.

spec:    specs/Defaults.tla - heap model of one default-valued member: every instance references a cell, cell 0 is the
         class level default; one action per API call (New / ParseAbsent / ParsePresent / DeepCopy / MkCopy /
         UpdateFrom / MutateNested / Drop) over 3 instances and 2 written values.  Invariants NoSharing, DefaultStable;
         action properties Isolated, DefaultUntouched, ObsSound (the heap actions imply the observable step relations
         that recorded executions are judged with).  Two defect switches (ShareAbsent, ShallowCopy) must make TLC find
         counterexamples (non-vacuity of the invariants).
binding: TLC emits EVERY history of exactly D calls (tree, history is part of the state; new instances take the lowest
         free number and written values appear in order - both are interchangeable; shorter trees are the prefixes).
         Each history is replayed on the real classes for every (class, member) pair that reflection finds with an
         object valued `_default_py_value` or a list valued member in pm_types, msg_types, eventing_types,
         addressing_types, dpws_types, mex_types, wsd_types, descriptorcontainers, statecontainers
         (verif/c12_helpers.py; worker processes, one task per pair).  After every call the harness records the
         canonical value of the member of every live instance, the identity (`is`) of the mutable objects the values
         consist of, and the value of a freshly constructed instance.  TLC judges the recorded traces
         (DefaultsTrace.tla).  Recorded traces are abstract (no class names), so identical traces of different pairs
         are judged once.
depth:   thorough: object valued defaults D=5 (classes that merely inherit the descriptor: 4), list members 4
         (inherited descriptor: 3).  quick: object valued 4 (inherited 3), one list pair per kind of descriptor 3,
         all other list pairs 2.
verdict: one violation per (descriptor class, call that established the sharing, failing call, clause); descr fields
         check='defaults', descriptor, shared_by, act, clause.  Value-level clauses (step, isolated,
         default_untouched, default_stable) are preferred; sharing seen only as identity is reported as no_sharing.
--replay path: replays the stored history of the stored pair and lets TLC judge it.
"""
from __future__ import annotations

import copy
import json
import os

from verif import c12_helpers as h
from verif import tracecheck
from verif.tlc import SPEC_DIR, MachineryError, json_lines, run_tlc

ALL_OPS = ['New', 'ParseAbsent', 'ParsePresent', 'DeepCopy', 'MkCopy', 'UpdateFrom', 'MutateNested', 'Drop']
N = 3
VALUE_CLAUSES = ('step', 'isolated', 'default_untouched', 'default_stable')


# --------------------------------------------------------------------------- TLC side
def _cfg(name: str, base: str, repl: dict, extra: str = '') -> str:
    txt = open(os.path.join(SPEC_DIR, base)).read()
    out = []
    for line in txt.splitlines():
        key = line.strip().split(' ')[0] if line.strip() else ''
        if key in repl:
            line = f'  {key} = {repl[key]}'
        out.append(line)
    fname = f'_gen_c12_{name}.cfg'
    with open(os.path.join(SPEC_DIR, fname), 'w') as f:
        f.write('\n'.join(out) + '\n' + extra)
    return fname


def tree(depth: int):
    """All histories of exactly `depth` calls (all API calls enabled)."""
    cfg = _cfg(f'tree{depth}', 'Defaults_tree.cfg', {'MaxOps': depth})
    res = run_tlc('Defaults', cfg, workers=1, timeout=3000)
    behs = json_lines(res.stdout, 'BEH')
    if not behs or any(len(b) != depth + 1 for b in behs):
        raise MachineryError(f'tree of depth {depth}: {len(behs)} behaviours, unexpected shape')
    return res, behs


DEFECTS = [('ShareAbsent', 'INVARIANT DefaultStable'), ('ShallowCopy', 'PROPERTY Isolated'),
           ('ShareAbsent', 'INVARIANT NoSharing'), ('ShareAbsent', 'PROPERTY DefaultUntouched'),
           ('ShareAbsent', 'PROPERTY Isolated'), ('ShallowCopy', 'INVARIANT NoSharing')]


def defect_model(switch: str, prop: str):
    """The invariants must reject the defects the property is about (else they would be vacuous)."""
    base = open(os.path.join(SPEC_DIR, 'Defaults_mc.cfg')).read()
    lines = [ln for ln in base.splitlines() if not ln.startswith(('INVARIANT', 'PROPERTY'))]
    lines = [f'  {switch} = TRUE' if ln.strip().startswith(switch) else ln for ln in lines]
    fname = f'_gen_c12_defect_{switch}_{prop.split()[1]}.cfg'
    with open(os.path.join(SPEC_DIR, fname), 'w') as f:
        f.write('\n'.join(lines) + f'\n{prop}\n')
    res = run_tlc('Defaults', fname, workers=2, expect_ok=False)
    if res.ok or 'is violated' not in res.stdout:
        raise MachineryError(f'defect model {switch}: TLC did not report a violation of {prop}:\n'
                             f'{res.error_text[:500]}')
    return res


# --------------------------------------------------------------------------- replay on the real classes
def _record(m: h.Member, insts: dict, op: dict) -> dict:
    dflt_ids = h.mutable_ids(m.default_obj(), set())
    val, ref, owner = [], [], {}
    for i in range(1, N + 1):
        inst = insts.get(i)
        if inst is None:
            val.append('-')
            ref.append(i)
            continue
        val.append(m.token(inst))
        ids = h.mutable_ids(m.value_obj(inst), set())
        if ids & dflt_ids:
            ref.append(0)
        else:
            ref.append(min([owner[x] for x in ids if x in owner] or [i]))
        for x in ids:
            owner.setdefault(x, ref[-1])
    return {'act': op['act'], 'i': op.get('i', 0), 's': op.get('s', 0), 'v': op.get('v', '-'),
            'live': sorted(insts), 'val': val, 'ref': ref, 'fresh': m.token(m.new())}


def replay(m: h.Member, beh: list[dict]) -> list[dict] | None:
    """Execute one TLC history on the real class of pair m; None if the class does not offer one of the calls."""
    if any(op['act'] in m.unsupported for op in beh[1:]):
        return None
    insts: dict = {}
    trace = [_record(m, insts, {'act': 'Init'})]
    try:
        for op in beh[1:]:
            act = op['act']
            if act == 'New':
                insts[op['i']] = m.new()
            elif act == 'ParseAbsent':
                insts[op['i']] = m.parse_absent()
            elif act == 'ParsePresent':
                insts[op['i']] = m.parse_present(op['v'])
            elif act == 'DeepCopy':
                insts[op['i']] = copy.deepcopy(insts[op['s']])
            elif act == 'MkCopy':
                insts[op['i']] = insts[op['s']].mk_copy()
            elif act == 'UpdateFrom':
                insts[op['i']].update_from_other_container(insts[op['s']])
            elif act == 'MutateNested':
                if not m.mutate(insts[op['i']], op['v']):
                    break    # member is None (constructor sets None): nothing nested to write into
            elif act == 'Drop':
                del insts[op['i']]
            else:
                raise MachineryError(f'unmodelled action {op}')
            trace.append(_record(m, insts, op))
    except MachineryError:
        raise
    except Exception as ex:  # noqa: BLE001
        # the library cannot perform this call on this object (e.g. deepcopy of a parsed lxml QName): not a C12
        # matter; the history ends here and the incident is listed in the evidence
        key = f'{m.ident}: {op["act"]}: {h._reason(ex)}'  # noqa: SLF001
        m.failed_calls[key] = m.failed_calls.get(key, 0) + 1
    finally:
        if m.default_polluted():
            m.reset_default()
    return trace


def _sig(trace: list[dict]) -> tuple:
    return tuple((r['act'], r['i'], r['s'], r['v'], tuple(r['live']), tuple(r['val']), tuple(r['ref']), r['fresh'])
                 for r in trace)


def _trace_of(sig: tuple) -> list[dict]:
    return [{'act': r[0], 'i': r[1], 's': r[2], 'v': r[3], 'live': list(r[4]), 'val': list(r[5]), 'ref': list(r[6]),
             'fresh': r[7]} for r in sig]


_WORKER: dict = {}


def _replay_pair(task: tuple) -> dict:
    """Worker process: replay the tree of histories for one pair; return the distinct recorded traces."""
    mi, plan_file = task
    try:
        if not _WORKER:
            with open(plan_file) as f:
                _WORKER.update(json.load(f))
            _WORKER['members'] = h.discover()      # same order in every process
        m = _WORKER['members'][mi]
        m.prepare()
        sigs = set()
        replays = skipped = 0
        for beh in _WORKER['trees'][str(_WORKER['depth_of'][mi])]:
            tr = replay(m, beh)
            if tr is None:
                skipped += 1
            else:
                replays += 1
                sigs.add(_sig(tr))
        return {'sigs': sigs, 'replays': replays, 'skipped': skipped, 'resets': m.resets, 'failed': m.failed_calls,
                'unsupported': {k: v for k, v in m.unsupported.items() if 'no such method' not in v}}
    except Exception as ex:  # noqa: BLE001
        import traceback
        return {'error': f'pair #{mi}: {ex}\n{traceback.format_exc()[-1500:]}'}


# --------------------------------------------------------------------------- the check
def check(run, replay_path=None):
    xs = h._xs()  # noqa: SLF001
    old_flag = xs.MANDATORY_VALUE_CHECKING
    xs.MANDATORY_VALUE_CHECKING = False   # library switch: harness documents need not be schema-complete
    try:
        if replay_path:
            _replay_one(run, replay_path)
        else:
            _check(run)
    finally:
        xs.MANDATORY_VALUE_CHECKING = old_flag
        for name in os.listdir(SPEC_DIR):
            if name.startswith('_gen_c12_'):
                os.remove(os.path.join(SPEC_DIR, name))


def _replay_one(run, path: str):
    """--replay: run the stored history for the stored pair again and let TLC judge the recorded trace."""
    with open(path) as f:
        data = json.load(f)['replay']
    members = h.discover()
    mi = next(i for i, m in enumerate(members) if m.ident == data['pair'])
    members[mi].prepare()
    tr = replay(members[mi], data['behaviour'])
    if tr is None:
        raise MachineryError(f'{data["pair"]} does not offer a call of {data["behaviour"]}')
    print(f'replayed {data["pair"]}:')
    for r in tr:
        print('  ', r)
    sig = _sig(tr)
    run.distinct_traces.add(sig)
    judge(run, members, {sig: 1 << mi}, [sig], [tr])


def _plan(run, trees: dict, depth_choice: tuple):
    """2. reflection: every (class, member) pair, and the depth of the tree of histories it is replayed with."""
    d_obj, d_obj_inherited, d_first, d_inherited = depth_choice
    members = h.discover()
    obj_pairs = [m for m in members if m.kind == 'obj']
    if len(obj_pairs) < 20 or len(members) < 200:
        raise MachineryError(f'reflection found only {len(obj_pairs)} object valued / {len(members)} pairs')
    seen_descriptors, seen_kinds = set(), set()
    depth_of = []
    for m in members:
        first = id(m.prop) not in seen_descriptors
        seen_descriptors.add(id(m.prop))
        vcls = getattr(m.prop, 'value_class', None)
        kind = (m.descriptor, m.container, 'plain' if vcls is None else
                'container' if h._is_container(vcls) else 'data')  # noqa: SLF001
        representative = kind not in seen_kinds
        seen_kinds.add(kind)
        if m.kind == 'obj':
            depth_of.append(d_obj if first else d_obj_inherited)
        elif run.quick:    # quick: the medium tree only for one pair per kind of list descriptor
            depth_of.append(d_first if representative else d_inherited)
        else:
            depth_of.append(d_first if first else d_inherited)
    run.note('pairs', {'total': len(members), 'object_valued_default': len(obj_pairs),
                       'list_valued': len(members) - len(obj_pairs),
                       'distinct_descriptors': len(seen_descriptors),
                       'pairs_per_tree_depth': {str(d): depth_of.count(d) for d in sorted(set(depth_of))}})
    run.note('tree_sizes', {str(d): len(b) for d, b in trees.items()})
    return members, depth_of


def _check(run):
    import time
    t0 = time.time()
    phases = {}
    # 1. design: exhaustive model check, defect models, tree of histories.  The TLC processes run side by side; the
    #    replay workers are forked first (before any thread exists) and only need the tree, so the model check and
    #    the defect models finish while the histories are being replayed.
    import multiprocessing as mp
    from concurrent.futures import ThreadPoolExecutor
    d_obj, d_obj_inherited, d_first, d_inherited = run.pick((4, 3, 3, 2), (5, 4, 4, 3))
    depths = sorted({d_obj, d_obj_inherited, d_first, d_inherited})
    nproc = max(1, min(12, (os.cpu_count() or 2) - 2))
    plan_file = os.path.join(run.tmp, 'c12_plan.json')
    with mp.get_context('fork').Pool(nproc) as workers, ThreadPoolExecutor(max_workers=4) as pool:
        f_tree = pool.submit(tree, depths[-1])
        f_mc = pool.submit(run_tlc, 'Defaults', 'Defaults_mc.cfg', coverage=True, workers=2)
        f_defects = [pool.submit(defect_model, sw, prop) for sw, prop in DEFECTS[:run.pick(2, len(DEFECTS))]]
        res, deepest = f_tree.result()
        run.add_tlc(res)
        # the histories of exactly d < D calls are the prefixes of the histories of D calls (some call is always
        # enabled and the numbering conventions are prefix closed)
        trees = {depths[-1]: deepest}
        for d in depths[:-1]:
            uniq = {}
            for b in deepest:
                uniq.setdefault(json.dumps(b[:d + 1], sort_keys=True), b[:d + 1])
            trees[d] = list(uniq.values())
        phases['tree_of_histories'] = round(time.time() - t0, 1)
        members, depth_of = _plan(run, trees, (d_obj, d_obj_inherited, d_first, d_inherited))
        with open(plan_file, 'w') as f:
            json.dump({'trees': {str(d): b for d, b in trees.items()}, 'depth_of': depth_of}, f)
        order = sorted(range(len(members)),
                       key=lambda i: -len(trees[depth_of[i]]) * (2 if members[i].container else 1))
        results = workers.map(_replay_pair, [(mi, plan_file) for mi in order], chunksize=1)
        phases['replay'] = round(time.time() - t0, 1)
        run.add_tlc(f_mc.result(), ALL_OPS)
        for f in f_defects:
            f.result()
            run.count('defect_models_rejected_by_tlc')
    run.note('exhaustive', True)
    run.note('model_constants', {'instances': N, 'written_values': 2, 'actions': ALL_OPS})
    phases['model_check_and_defect_models'] = round(time.time() - t0, 1)

    # 3. identical abstract traces of different pairs are judged once
    by_member = dict(zip(order, results))
    users: dict[tuple, int] = {}        # distinct recorded trace -> bit mask of the pairs that produced it
    replays = skipped = resets = 0
    failed, unsupported = {}, {}
    for mi in range(len(members)):
        r = by_member[mi]
        if 'error' in r:
            raise MachineryError(r['error'])
        for sig in r['sigs']:
            users[sig] = users.get(sig, 0) | (1 << mi)
        replays += r['replays']
        skipped += r['skipped']
        resets += r['resets']
        failed.update(r['failed'])
        if r['unsupported']:
            unsupported[members[mi].ident] = r['unsupported']
    run.note('calls_the_library_cannot_perform', unsupported)
    if len(unsupported) > 16:
        raise MachineryError(f'too many pairs with unusable parse/copy calls: {unsupported}')
    sigs = sorted(users)
    traces = [_trace_of(sig) for sig in sigs]
    acts_done = set()
    for sig in sigs:
        acts_done.update(r[0] for r in sig)
        run.distinct_traces.add(sig)
    missing = [a for a in ALL_OPS if a not in acts_done]
    if missing:
        raise MachineryError(f'API calls never replayed: {missing}')
    run.evaluations = replays
    run.note('histories_cut_short_because_a_library_call_raised', failed)
    if sum(failed.values()) > replays // 10:
        raise MachineryError(f'too many histories cut short by exceptions of the library: {failed}')
    run.note('replays', {'histories_replayed': replays, 'histories_skipped_call_not_offered': skipped,
                         'distinct_recorded_traces': len(traces), 'worker_processes': nproc,
                         'default_resets_between_histories': resets})
    run.sample({'pairs': [members[i].ident for i in range(len(members)) if users[sigs[-1]] >> i & 1][:3],
                'trace': traces[-1]})

    judge(run, members, users, sigs, traces)
    phases['trace_validation_and_verdicts'] = round(time.time() - t0, 1)
    run.note('seconds_elapsed_after_phase', phases)
    run.assumptions += ASSUMPTIONS


def judge(run, members, users, sigs, traces):
    # 4. code -> spec: TLC judges every distinct recorded trace
    rejects = tracecheck.validate(run, 'DefaultsTrace', 'DefaultsTrace.cfg', traces, chunk=6000)
    by_trace: dict[int, list] = {}
    for (ti, li, clause) in rejects:
        by_trace.setdefault(ti, []).append((li, clause))
    run.note('rejected_distinct_traces', len(by_trace))

    # 5. verdicts.  A rejected trace is described by the earliest change the application can see (value-level
    #    clause) - or, if sharing was only seen as identity, by that - and by the call that established the sharing
    #    (first no_sharing reject; "none" if no object identity was shared).  One violation per
    #    (descriptor class, sharing call, failing call, clause); the affected (class, member) pairs are listed.
    found: dict[tuple, dict] = {}
    for ti, rj in by_trace.items():
        rj.sort()
        val_rj = [(li, c) for li, c in rj if c in VALUE_CLAUSES]
        li, clause = (val_rj or rj)[0]
        rec = traces[ti][li]
        shared_at = None      # last call up to the failure after which an instance shares objects it did not before
        for x in range(1, li + 1):
            now, before = traces[ti][x], traces[ti][x - 1]
            if any(now['ref'][i - 1] != i and (i not in before['live'] or before['ref'][i - 1] != now['ref'][i - 1])
                   for i in now['live']):
                shared_at = x
        shared_by = traces[ti][shared_at]['act'] if shared_at is not None else 'none'
        beh = [{'act': 'Init'}] + [{k: v for k, v in (('act', r['act']), ('i', r['i']), ('s', r['s']), ('v', r['v']))
                                    if v not in (0, '-')} for r in traces[ti][1:]]
        for mi in range(len(members)):
            if not users[sigs[ti]] >> mi & 1:
                continue
            m = members[mi]
            key = (m.descriptor, shared_by, rec['act'], clause)
            cur = found.get(key)
            if cur is None:
                cur = found[key] = {'pair': None, 'members': set(), 'distinct_traces': 0}
            cur['members'].add(m.ident)
            cur['distinct_traces'] += 1
            if cur['pair'] is None or (li, len(beh), m.ident) < (cur['failing_record'], len(cur['behaviour']),
                                                                  cur['pair']):
                cur.update({'pair': m.ident, 'behaviour': beh, 'trace': traces[ti], 'failing_record': li,
                            'first_shared_record': shared_at})
    # sharing that also shows as a value change is reported through the value change only
    value_roots = {(k[0], k[1]) for k in found if k[3] in VALUE_CLAUSES}
    for key, info in sorted(found.items()):     # (their pairs are listed with the value-level entries)
        if key[3] == 'no_sharing' and (key[0], key[1]) in value_roots:
            for k2, other in found.items():
                if k2[3] in VALUE_CLAUSES and k2[:2] == key[:2]:
                    other.setdefault('members_sharing_seen_as_identity_only', set()).update(info['members'])
    for key, info in sorted(found.items()):
        descriptor, shared_by, act, clause = key
        if clause == 'no_sharing' and (descriptor, shared_by) in value_roots:
            continue
        if 'members_sharing_seen_as_identity_only' in info:
            info['members_sharing_seen_as_identity_only'] = sorted(
                info['members_sharing_seen_as_identity_only'] - set(info['members']))
        descr = {'check': 'defaults', 'descriptor': descriptor, 'shared_by': shared_by, 'act': act, 'clause': clause}
        info['members'] = sorted(info['members'])
        hist_txt = ' ; '.join(_op_txt(o) for o in info['behaviour'][1:info['failing_record'] + 1])
        rec = info['trace'][info['failing_record']]
        run.violation(descr,
                      f'{info["pair"]}: after [{hist_txt}] clause {clause} fails: values={rec["val"]} '
                      f'identity={rec["ref"]} fresh={rec["fresh"]}; {len(info["members"])} (class, member) pairs '
                      f'affected, e.g. {", ".join(x.split(".", 1)[1] for x in info["members"][:4])}',
                      info)


ASSUMPTIONS = [
    'abstract value of a member = canonical form (verif.mdibharness.canon) of the member value read through the '
    'real property descriptors; the table canonical form -> abstract value is learnt per pair on private copies '
    'before any history is replayed',
    'MutateNested writes every simple member (string / decimal / integer) and every list of the nested object '
    '(one more level for nested data objects) in place; a list is changed by writing an attribute of each present '
    'element and then slice-assigning the new content',
    'xml_structure.MANDATORY_VALUE_CHECKING (library switch) is off while the harness writes its XML documents; '
    'mandatory members are filled with placeholder values',
    'if a history changed a class level default, the harness restores it before the next history (histories are '
    'independent experiments)',
    'a member that is absent in the XML may be read as the default value, as None or as an empty value of its '
    'own: the statement only requires it to be private',
    'copy operations driven: copy.deepcopy, ContainerBase.mk_copy, update_from_other_container',
    'identity is compared for the member value, the lists inside it, their mutable elements and data objects nested '
    'up to two levels',
    'pairs whose class cannot perform a call at all (listed under calls_the_library_cannot_perform) are replayed '
    'without the histories that contain that call',
]


def _op_txt(op: dict) -> str:
    a = op['act']
    if a in ('DeepCopy', 'MkCopy', 'UpdateFrom'):
        return f'{a}({op["s"]}->{op["i"]})'
    if 'v' in op:
        return f'{a}({op["i"]},{op["v"]})'
    return f'{a}({op["i"]})'
