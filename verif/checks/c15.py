"""C15 - discovery datagrams are retransmitted within the SOAP-over-UDP time envelope.

spec:    specs/UdpRepeat.tla      reference schedule + the clauses of the property as operators over an observed
                                  offset sequence; every outcome of the two random draws for both parameter sets is
                                  one TLC state (laws of the reference as invariant `Laws`)
         specs/UdpRepeatLoop.tla  operational model of the known-message-id memory (own ids pre-registered,
                                  looped-back own datagrams ignored)
binding: (a) TLC emits every case (ps, d0, g).  The harness replaces the module globals `random` and `time` of
             sdc11073.wsdiscovery.networkingthread by enumerating stubs, lets the REAL WS-Discovery senders
             (_send_probe/_send_resolve/_send_hello/_send_bye -> multicast set, _send_probe_match/_send_resolve_match
             -> unicast set, plus a direct add_outbound_message call) queue the message on a REAL NetworkingThread
             (threads not started) and records the entries found on `_send_queue`, the parameter object the code
             passed, the ranges the code asked the random source for, whether the own id is known, what the real
             receive path (_add_to_recv_queue + _run_q_read) does with the own datagram, and - on a sample - how many
             datagrams the real send loop (_run_send under a virtual clock) writes to the socket.
             The records are judged by TLC (UdpRepeatTrace.tla) with the operators of UdpRepeat.tla.
         (b) behaviours of UdpRepeatLoop (exhaustive tree + simulation) are replayed on two real nodes (own and
             foreign sender) and the recorded traces are validated by TLC (UdpRepeatLoopTrace.tla).
         (c) specs/UdpSendLoop.tla models the send loop with two messages in flight (hand-over at any moment, also
             while the loop sleeps); TLC checks OnTime / InOrder / Complete / WireEnvelope / termination and emits the
             cases; each is replayed on the REAL _run_send under the virtual clock (the second message is handed over
             from inside the loop's sleep) and the captured datagrams are judged by TLC (UdpSendLoopTrace.tla):
             wire_count, wire_on_time (not before the planned time, at most one polling raster - the larger of the
             module's two sleep constants - after it), wire_envelope (gaps on the wire = planned gaps +- raster).
Parameter values are the ones CONFIGURED in the real module (read at run time and written into the generated cfg).
time.time() is stubbed to 1000.0 s (offsets are exact to well below a microsecond); offsets are clamped to +-1000 s.
Clause `reference` (queued offsets = Schedule(d0, g) exactly) is stronger than the statement; a case failing only
this clause is recorded as a note, not as a violation.  Clauses foreign_* of part (b) are a vacuity guard only.
"""
from __future__ import annotations

import json
import logging
import os
import random as _random
import re
import socket
import threading
import types

from verif import tracecheck
from verif.tlc import SPEC_DIR, MachineryError, json_lines, run_tlc

NOW = 1000.0          # value of the stubbed time.time() when a message is queued
LIMIT_US = 1_000_000_000
IP = '127.0.0.1'
PORT = 37021
PROPERTY_CLAUSES = ('param_set', 'draw_initial_delay', 'draw_first_gap', 'count', 'initial_delay', 'first_gap',
                    'doubling_capped', 'own_id_known', 'loopback_ignored', 'transmit_count')
KINDS = {'multicast': ['Probe', 'Resolve', 'Hello', 'Bye', 'direct'],
         'unicast': ['ProbeMatch', 'ResolveMatch', 'direct']}
# a sender call that queues a block of messages (one ProbeMatch per matching service): schedule part only
BLOCK_KINDS = {'unicast': ['ProbeMatch3']}
ALL_KINDS = [('multicast', k) for k in KINDS['multicast']] + [('unicast', k) for k in KINDS['unicast']]
RELATES_TO = 'urn:uuid:aaaaaaaa-2222-3333-4444-555555555555'


# --------------------------------------------------------------------------- stubs for the module globals
class DrawStub:
    """Stands in for the module `random` of networkingthread: draw #1 = initial delay, draw #2 = first gap."""

    def __init__(self, seed):
        self.plan = None
        self.calls = []
        self.clamped = False
        self._rng = _random.Random(seed)

    def arm(self, d0=None, g=None, free=False):
        self.plan = 'free' if free else [d0, g]
        self.calls = []
        self.clamped = False

    def _draw(self, lo, hi):
        i = len(self.calls)
        if i >= 40:
            raise MachineryError('harness assumption broken: more than 40 random draws for one sender call')
        if hi < lo:
            raise MachineryError(f'random draw #{i + 1} with empty range [{lo}, {hi}]')
        self.calls.append((lo, hi))
        if self.plan == 'free':
            return self._rng.randint(lo, hi)
        # draws alternate: initial delay, first gap (a sender that queues several messages draws once per message -
        # or shares draws between them; either way every message has to keep the envelope)
        v = self.plan[i % 2]
        if v is None:
            return lo
        if not lo <= v <= hi:
            self.clamped = True
            return lo
        return v

    def randint(self, a, b):
        return self._draw(int(a), int(b))

    def randrange(self, start, stop=None, step=1):
        if step != 1:
            raise MachineryError('random.randrange with a step is not modelled')
        if stop is None:
            start, stop = 0, start
        return self._draw(int(start), int(stop) - 1)

    def __getattr__(self, name):
        raise MachineryError(f'random.{name} is used by networkingthread but not modelled by the C15 harness')


class ClockStub:
    """Stands in for the module `time`: a virtual clock that only moves when the code sleeps."""

    def __init__(self):
        self.now = NOW
        self.inject = []   # [(time, fn)]: things that happen while the code sleeps (a message is handed over)

    def time(self):
        return self.now

    def sleep(self, seconds):
        end = self.now + seconds
        while self.inject and self.inject[0][0] <= end:
            t, fn = self.inject[0]
            self.now = max(self.now, t)
            fn()
            self.inject.pop(0)
        self.now = end

    def __getattr__(self, name):
        raise MachineryError(f'time.{name} is used by networkingthread but not modelled by the C15 harness')


class _QuitWhenDrained:
    """Replaces _quit_recv_event: lets a direct call of _run_q_read process what is queued and return."""

    def __init__(self, q):
        self._q = q

    def is_set(self):
        return self._q.empty()

    def set(self):
        pass


class _Recorder:
    """Takes the place of the WSDiscovery object the networking thread hands received messages to."""

    def __init__(self):
        self.got = []

    def handle_received_message(self, received_message, addr_from):  # noqa: ARG002
        self.got.append(received_message.p_msg.header_info_block.MessageID)


class _CaptureSocket:
    def __init__(self, clock):
        self.clock = clock
        self.sent = []

    def sendto(self, data, addr):
        self.sent.append((self.clock.now, bytes(data), addr))


class _CaptureSelector:
    def __init__(self, sock):
        self._key = types.SimpleNamespace(fileobj=sock)

    def select(self, timeout=None):  # noqa: ARG002
        return [(self._key, 0)]


# --------------------------------------------------------------------------- the real objects
class Env:
    """Imports the real modules and swaps `random`/`time` of networkingthread for the stubs."""

    def __init__(self, seed):
        import sdc11073.definitions_sdc  # noqa: F401
        from sdc11073.definitions_sdc import SdcV1Definitions
        from sdc11073.wsdiscovery import networkingthread as ntm
        from sdc11073.wsdiscovery import wsdimpl
        from sdc11073.wsdiscovery.common import MULTICAST_IPV4_ADDRESS
        from sdc11073.wsdiscovery.service import Service
        from sdc11073.xml_types import wsd_types
        from sdc11073.xml_types.addressing_types import HeaderInformationBlock
        self.ntm, self.wsdimpl, self.wsd_types = ntm, wsdimpl, wsd_types
        self.HeaderInformationBlock = HeaderInformationBlock
        self.mc_addr = MULTICAST_IPV4_ADDRESS
        self.rnd = DrawStub(seed)
        self.clock = ClockStub()
        self._orig = (ntm.random, ntm.time)
        self.logger = logging.getLogger('verif.c15')
        self.logger.addHandler(logging.NullHandler())
        self.logger.propagate = False
        self.logger.setLevel(logging.CRITICAL + 1)
        self.sockets = 'real'
        scopes = wsd_types.ScopesType('sdc.ctxt.loc:/sdc.ctxt.loc.detail/a%2Fb%2Fc?fac=a')
        self.service = Service(list(SdcV1Definitions.MedicalDeviceTypesFilter), scopes, ['http://127.0.0.1:5555/x'],
                               'urn:uuid:11111111-2222-3333-4444-555555555555', '12345')
        # two more services of the same node: one Probe is answered with one ProbeMatch message per matching service
        self.services3 = [self.service] + [
            Service(list(SdcV1Definitions.MedicalDeviceTypesFilter), scopes, [f'http://127.0.0.1:555{n}/x'],
                    f'urn:uuid:11111111-2222-3333-4444-55555555555{n}', '12345') for n in (6, 7)]

    def __enter__(self):
        self.ntm.random, self.ntm.time = self.rnd, self.clock
        return self

    def __exit__(self, *exc):
        self.ntm.random, self.ntm.time = self._orig

    def params(self, ps):
        p = self.ntm.UNICAST_REPEAT_PARAMS if ps == 'unicast' else self.ntm.MULTICAST_REPEAT_PARAMS
        return params_dict(p)


def params_dict(p) -> dict:
    return {'maxInitial': int(p.max_initial_delay_ms), 'repeat': int(p.repeat), 'min': int(p.min_delay_ms),
            'max': int(p.max_delay_ms), 'upper': int(p.upper_delay_ms)}


class Node:
    """A real NetworkingThread (threads not started) behind a real WSDiscovery object."""

    def __init__(self, env: Env):
        self.env = env
        self.rec = _Recorder()
        ntm = env.ntm
        try:
            self.nt = ntm.NetworkingThread(IP, self.rec, env.logger, PORT, 1)
        except OSError:
            # no multicast capable loop-back interface: the sockets are never used by this check (datagrams are
            # fed through _add_to_recv_queue and captured at sendto), so plain unbound sockets do
            env.sockets = 'plain (multicast setup not possible here)'
            cls = ntm.NetworkingThread
            saved = (cls._create_multicast_in_socket, cls._create_multi_out_uni_in_out_socket)
            cls._create_multicast_in_socket = lambda s, a, p: socket.socket(socket.AF_INET, socket.SOCK_DGRAM)
            cls._create_multi_out_uni_in_out_socket = lambda s, a, t: socket.socket(socket.AF_INET, socket.SOCK_DGRAM)
            try:
                self.nt = cls(IP, self.rec, env.logger, PORT, 1)
            finally:
                cls._create_multicast_in_socket, cls._create_multi_out_uni_in_out_socket = saved
        self.wsd = env.wsdimpl.WSDiscovery(IP, logger=env.logger, multicast_port=PORT)
        self.wsd._networking_thread = self.nt
        self.last_params = None
        orig = self.nt.add_outbound_message

        def spy(msg, addr, port, repeat_params):
            self.last_params = repeat_params
            return orig(msg, addr, port, repeat_params)

        self.nt.add_outbound_message = spy
        self.nt._quit_recv_event = _QuitWhenDrained(self.nt._read_queue)
        self._real_out_selector = self.nt._outbound_selector

    def close(self):
        for s in (self.nt.multi_in, self.nt.multi_out_uni_in_out):
            try:
                s.close()
            except OSError:
                pass
        self.nt._inbound_selector.close()
        self._real_out_selector.close()

    # ---- one real sender per message kind
    def send(self, ps, kind):
        env, wsd = self.env, self.wsd
        if kind == 'Probe':
            wsd._send_probe()
        elif kind == 'Resolve':
            wsd._send_resolve(env.service.epr)
        elif kind == 'Hello':
            wsd._send_hello(env.service)
        elif kind == 'Bye':
            wsd._send_bye(env.service)
        elif kind == 'ProbeMatch':
            wsd._send_probe_match([env.service], RELATES_TO, (IP, 4000))
        elif kind == 'ProbeMatch3':
            wsd._send_probe_match(list(env.services3), RELATES_TO, (IP, 4000))
        elif kind == 'ResolveMatch':
            wsd._send_resolve_match(env.service, RELATES_TO, (IP, 4000))
        elif kind == 'direct':
            payload = env.wsd_types.ProbeType()
            if ps == 'multicast':
                inf = env.HeaderInformationBlock(action=payload.action, addr_to=env.wsdimpl.ADDRESS_ALL)
                msg = env.wsdimpl._mk_wsd_soap_message(inf, payload)
                self.nt.add_outbound_message(msg, env.mc_addr, PORT, env.ntm.MULTICAST_REPEAT_PARAMS)
            else:
                inf = env.HeaderInformationBlock(action=payload.action, addr_to=env.wsdimpl.WSA_ANONYMOUS)
                msg = env.wsdimpl._mk_wsd_soap_message(inf, payload)
                self.nt.add_outbound_message(msg, IP, 4000, env.ntm.UNICAST_REPEAT_PARAMS)
        else:
            raise MachineryError(f'unknown message kind {kind}')

    def queued(self):
        """Entries on the send queue in transmission order (must all belong to one message)."""
        entries = sorted(self.nt._send_queue.queue, key=lambda e: (e.send_time, getattr(e, 'repeat', 0), id(e.msg)))
        if len({id(e.msg) for e in entries}) > 1:
            raise MachineryError('harness assumption broken: one sender call queued more than one message')
        return entries

    def queued_groups(self):
        """Entries on the send queue in transmission order, one list per queued message."""
        groups = {}
        for e in sorted(self.nt._send_queue.queue, key=lambda e: (e.send_time, getattr(e, 'repeat', 0), id(e.msg))):
            groups.setdefault(id(e.msg), []).append(e)
        return list(groups.values())

    def drain(self):
        q = self.nt._send_queue
        with q.mutex:            # (not through get(): popping compares entries, which need not be comparable)
            q.queue.clear()

    def feed(self, data: bytes) -> str:
        """Hand a datagram to the real receive path; report whether it reached the discovery layer."""
        n = len(self.rec.got)
        self.nt._add_to_recv_queue((IP, 40000), data)
        self.nt._run_q_read()
        return 'delivered' if len(self.rec.got) > n else 'ignored'

    def transmit_all(self, mid: str) -> int:
        """Run the real send loop under the virtual clock until the queue is empty; count datagrams of `mid`."""
        cap = _CaptureSocket(self.env.clock)
        self.nt._outbound_selector = _CaptureSelector(cap)
        ev = self.nt._quit_send_event
        ev.set()  # loop ends as soon as the queue is empty
        try:
            t = threading.Thread(target=self.nt._run_send, daemon=True)
            t.start()
            t.join(60)
            if t.is_alive():
                raise MachineryError('real send loop did not terminate under the virtual clock')
        finally:
            ev.clear()
            self.nt._outbound_selector = self._real_out_selector
        return sum(1 for (_, data, _) in cap.sent if mid.encode() in data)


# --------------------------------------------------------------------------- part (a): schedule
def run_case(env: Env, node: Node, case: dict, kind: str, with_tx: bool) -> list[dict]:
    ps = case['ps']
    env.rnd.arm(case['d0'], case['g'])
    env.clock.now = NOW
    node.last_params = None
    send_exc = ''
    try:
        node.send(ps, kind)
    except MachineryError:
        raise
    except Exception as ex:  # noqa: BLE001  the sender died half way: what it queued so far is judged (count)
        send_exc = f'{type(ex).__name__}: {ex}'[:120]
    if len(env.rnd.calls) < 2:
        raise MachineryError(f'harness assumption broken: {len(env.rnd.calls)} random draws instead of 2')
    if env.rnd.clamped:
        raise MachineryError(f'case {case} is not a possible outcome of the draws {env.rnd.calls}')
    groups = node.queued_groups()
    recs = []
    for gi, entries in enumerate(groups or [[]]):
        # the parameter set is the one the module configures for the destination (the spy only confirms it when the
        # sender went through add_outbound_message)
        cfg_obj = node.last_params
        if entries:
            cfg_obj = env.ntm.MULTICAST_REPEAT_PARAMS if entries[0].msg.addr == env.mc_addr else env.ntm.UNICAST_REPEAT_PARAMS
        if cfg_obj is None:
            raise MachineryError(f'sender {kind} queued nothing')
        rec = {'ps': ps, 'kind': kind, 'd0': case['d0'], 'g': case['g'], 'cfg': params_dict(cfg_obj),
               'draw': {'d0lo': env.rnd.calls[0][0], 'd0hi': env.rnd.calls[0][1],
                        'glo': env.rnd.calls[1][0], 'ghi': env.rnd.calls[1][1]},
               'off': [_us(e.send_time - NOW) for e in entries], 'known': True, 'loop': 'ignored', 'tx': -1,
               'nth': gi, 'send_exc': send_exc}
        if entries:
            msg = entries[0].msg
            rec['ps'] = 'multicast' if msg.addr == env.mc_addr else 'unicast'
            mid = msg.created_message.p_msg.header_info_block.MessageID
            rec['known'] = mid in node.nt._known_message_ids
            rec['loop'] = node.feed(msg.created_message.serialize())
            if with_tx and len(groups) == 1:
                rec['tx'] = node.transmit_all(mid)
        recs.append(rec)
    node.drain()
    return recs


def _us(seconds: float) -> int:
    """Microseconds; clamped to +-1000 s (far outside any envelope) so that TLC's 32 bit integers cannot overflow."""
    return max(-LIMIT_US, min(LIMIT_US, round(seconds * 1e6)))


def probe_ranges(env: Env, node: Node) -> dict:
    """Ranges of outcomes the code asks the random source for, per parameter set."""
    out = {}
    for ps, kinds in KINDS.items():
        env.rnd.arm(None, None)
        node.send(ps, kinds[0])
        if len(env.rnd.calls) < 2:
            raise MachineryError(f'harness assumption broken: {len(env.rnd.calls)} random draws instead of 2')
        out[ps] = {'d0': env.rnd.calls[0], 'g': env.rnd.calls[1]}
        node.drain()
    return out


def gen_cfg(name: str, base: str, consts: dict, drop_invariants=(), extra_lines: str = '') -> str:
    lines = []
    for line in open(os.path.join(SPEC_DIR, base)).read().splitlines():
        m = re.match(r'\s*(\w+)\s*=', line)
        if m and m.group(1) in consts:
            line = f'  {m.group(1)} = {consts[m.group(1)]}'
        if any(line.strip() == f'INVARIANT {i}' for i in drop_invariants):
            continue
        lines.append(line)
    path = os.path.join(SPEC_DIR, f'_gen_c15_{name}.cfg')
    with open(path, 'w') as f:
        f.write('\n'.join(lines) + '\n' + extra_lines)
    return os.path.basename(path)


def tlc_consts(env: Env, step: int) -> dict:
    c = {'Step': step}
    for prefix, ps in (('Uni', 'unicast'), ('Mul', 'multicast')):
        p = env.params(ps)
        for k, v in (('MaxInitial', 'maxInitial'), ('Repeat', 'repeat'), ('Min', 'min'), ('Max', 'max'),
                     ('Upper', 'upper')):
            if p[v] < 0:
                raise MachineryError(f'negative configured value {ps}.{v}')
            c[prefix + k] = p[v]
    return c


def _ms(us_list):
    return [round(u / 1000, 3) for u in us_list]


def describe(rec: dict, exp: list | None) -> str:
    off = rec['off']
    gaps = [b - a for a, b in zip(off, off[1:])]
    return (f"{rec['ps']} {rec['kind']} d0={rec['d0']} g={rec['g']} cfg={rec['cfg']}: queued offsets (ms) {_ms(off)}, "
            f"gaps (ms) {_ms(gaps)}; reference schedule (ms) {exp}; known={rec['known']} loop={rec['loop']} "
            f"tx={rec['tx']} draws={rec['draw']}")


def schedule_part(run, env: Env, only_cases: list | None = None):
    step = run.pick(7, 1)
    consts = tlc_consts(env, step)
    standard = {'unicast': {'maxInitial': 500, 'repeat': 2, 'min': 50, 'max': 250, 'upper': 500},
                'multicast': {'maxInitial': 500, 'repeat': 4, 'min': 50, 'max': 250, 'upper': 500}}
    run.note('configured_parameter_sets', {ps: env.params(ps) for ps in KINDS})
    run.note('configured_equal_ws_discovery_defaults', all(env.params(ps) == standard[ps] for ps in KINDS))

    # 1. spec: laws of the reference on every case + emission of the cases
    if only_cases is None:
        cfg = gen_cfg('mc', 'UdpRepeat_mc.cfg', consts)
        res = run_tlc('UdpRepeat', cfg, workers=1, timeout=3000)
        run.add_tlc(res)
        cases = json_lines(res.stdout, 'CASE')
        if len(cases) != res.distinct or not cases:
            raise MachineryError(f'TLC visited {res.distinct} cases but emitted {len(cases)}')
        if step == 1:
            want = sum((env.params(ps)['maxInitial'] + 1) * (env.params(ps)['max'] - env.params(ps)['min'] + 1)
                       for ps in KINDS)
            if len(cases) != want:
                raise MachineryError(f'exhaustive domain has {want} cases, TLC emitted {len(cases)}')
        run.note('schedule_domain', {'step': step, 'cases': len(cases), 'exhaustive': step == 1})
    else:
        cases = only_cases

    # 2. spec -> code: every case through the real senders / scheduler
    node = Node(env)
    try:
        ranges = probe_ranges(env, node)
        run.note('draw_ranges_requested_by_code', {ps: {k: list(v) for k, v in r.items()} for ps, r in ranges.items()})
        extra = []
        for ps, r in ranges.items():
            p = env.params(ps)
            for d in r['d0']:
                if not 0 <= d <= p['maxInitial']:
                    extra.append({'ps': ps, 'd0': d, 'g': r['g'][0], 'exp': None, 'code_only': True})
            for g in r['g']:
                if not p['min'] <= g <= p['max']:
                    extra.append({'ps': ps, 'd0': r['d0'][0], 'g': g, 'exp': None, 'code_only': True})
        if only_cases is None:
            cases = cases + extra
            run.note('outcomes_outside_spec_domain_added', len(extra))
        records, kept = [], []
        infeasible = 0
        tx_every = max(1, len(cases) // run.pick(60, 400))
        counters = {ps: 0 for ps in KINDS}
        kinds_used = {}
        for i, case in enumerate(cases):
            ps = case['ps']
            r = ranges[ps]
            if not (r['d0'][0] <= case['d0'] <= r['d0'][1] and r['g'][0] <= case['g'] <= r['g'][1]):
                infeasible += 1  # inside the configured window but never drawn by the code (e.g. randrange excludes max)
                continue
            kind = case.get('kind') or KINDS[ps][counters[ps] % len(KINDS[ps])]
            if not case.get('kind') and ps in BLOCK_KINDS and counters[ps] % 7 == 3:
                kind = BLOCK_KINDS[ps][0]
            counters[ps] += 1
            for rec in run_case(env, node, case, kind, with_tx=(i % tx_every == 0) or bool(case.get('tx'))):
                kinds_used[kind] = kinds_used.get(kind, 0) + 1
                records.append(rec)
                kept.append(case)
                run.distinct_traces.add((rec['ps'], rec['d0'], rec['g']))
        run.evaluations += len(records)
        run.note('outcomes_in_window_never_drawn_by_code', infeasible)
        run.note('cases_per_sender', kinds_used)
        run.note('cases_with_real_send_loop', sum(1 for r in records if r['tx'] >= 0))
        run.note('sockets', env.sockets)
    finally:
        node.close()
    if not records:
        raise MachineryError('no feasible case was driven')
    for rec in records[:1] + records[-1:]:
        run.sample({'case': {k: rec[k] for k in ('ps', 'kind', 'd0', 'g')}, 'queued_offsets_us': rec['off'],
                    'own_id_known': rec['known'], 'loopback': rec['loop'], 'tx': rec['tx']})

    # 3. code -> spec: TLC judges every record
    tcfg = gen_cfg('trace', 'UdpRepeatTrace.cfg', consts)
    rejects = tracecheck.validate(run, 'UdpRepeatTrace', tcfg, [[r] for r in records], timeout=3000,
                                  chunk=run.pick(10000, 25000))
    failing: dict[int, list[str]] = {}
    for ti, _li, clause in rejects:
        failing.setdefault(ti, []).append(clause)
    ref_only = 0
    for ti in sorted(failing, key=lambda t: (records[t]['d0'], records[t]['g'], records[t]['ps'])):
        rec, case = records[ti], kept[ti]
        clauses = failing[ti]
        prop = [c for c in clauses if c in PROPERTY_CLAUSES]
        unknown = [c for c in clauses if c not in PROPERTY_CLAUSES and c != 'reference']
        if unknown:
            raise MachineryError(f'trace spec printed unknown clauses {unknown}')
        if not prop:
            ref_only += 1
            if ref_only == 1:
                run.note('reference_only_mismatch_example', describe(rec, case.get('exp')))
            continue
        for clause in prop:
            descr = {'check': 'schedule', 'clause': clause, 'ps': rec['ps']}
            run.violation(descr, f'clause {clause} fails: ' + describe(rec, case.get('exp')),
                          {'part': 'schedule', 'cases': [{'ps': rec['ps'], 'd0': rec['d0'], 'g': rec['g'],
                                                          'kind': rec['kind'], 'tx': rec['tx'] >= 0,
                                                          'exp': case.get('exp')}],
                           'record': rec, 'failing_clauses': clauses})
    run.note('schedule_cases_judged', len(records))
    run.note('schedule_cases_rejected', len([t for t in failing if any(c in PROPERTY_CLAUSES for c in failing[t])]))
    run.note('reference_only_mismatches', ref_only)
    return records, failing


# --------------------------------------------------------------------------- part (c): the datagrams on the wire
class _QuitWhenNothingPending:
    """Replaces _quit_send_event: the loop ends when the queue is empty and no hand-over is pending."""

    def __init__(self, clock):
        self._clock = clock

    def is_set(self):
        return not self._clock.inject

    def set(self):
        pass

    def clear(self):
        pass


def run_overlap(env: Env, node: Node, case: dict, n: int) -> dict:
    """Two messages in flight: A handed over at 0, B handed over (from inside the loop's sleep) at B.te."""
    clock = env.clock
    clock.now = NOW
    clock.inject = []
    mids = {}
    kinds = {}

    def hand_over(name):
        c = case[name]
        kind = KINDS[c['ps']][(n + (name == 'B')) % len(KINDS[c['ps']])]
        before = {id(e.msg) for e in node.nt._send_queue.queue}
        env.rnd.arm(c['d0'], c['g'])
        node.send(c['ps'], kind)
        if env.rnd.clamped or len(env.rnd.calls) != 2:
            raise MachineryError(f'overlap case {case}: draws {env.rnd.calls} clamped={env.rnd.clamped}')
        new = [e for e in node.nt._send_queue.queue if id(e.msg) not in before]
        if not new:
            raise MachineryError(f'overlap case {case}: message {name} was not queued')
        mids[name] = new[0].msg.created_message.p_msg.header_info_block.MessageID.encode()
        kinds[name] = kind

    cap = _CaptureSocket(clock)
    node.nt._outbound_selector = _CaptureSelector(cap)
    saved_quit = node.nt._quit_send_event
    node.nt._quit_send_event = _QuitWhenNothingPending(clock)
    try:
        for name in ('A', 'B'):
            clock.inject.append((NOW + case[name]['te'] / 1000.0, lambda name=name: hand_over(name)))
        clock.inject.sort(key=lambda x: x[0])
        while clock.inject and clock.inject[0][0] <= clock.now:   # handed over before the loop polls for the first time
            clock.inject[0][1]()
            clock.inject.pop(0)
        t = threading.Thread(target=node.nt._run_send, daemon=True)
        t.start()
        t.join(60)
        if t.is_alive():
            raise MachineryError('real send loop did not terminate under the virtual clock (overlap case)')
    finally:
        node.nt._quit_send_event = saved_quit
        node.nt._outbound_selector = node._real_out_selector
        clock.inject = []
        node.drain()
    tx = []
    for (t_sent, data, _addr) in cap.sent:
        names = [name for name, mid in mids.items() if mid in data]
        if len(names) != 1:
            raise MachineryError('a captured datagram belongs to no / several messages of the case')
        tx.append({'t': _us(t_sent - NOW), 'm': names[0]})
    raster = max(float(getattr(env.ntm, 'SEND_LOOP_IDLE_SLEEP', 0.1)), float(getattr(env.ntm, 'SEND_LOOP_BUSY_SLEEP', 0.01)))
    return {'A': case['A'], 'B': case['B'], 'kinds': kinds, 'raster': _us(raster), 'tx': tx}


def overlap_part(run, env: Env):
    consts = tlc_consts(env, 1)
    idle = round(float(getattr(env.ntm, 'SEND_LOOP_IDLE_SLEEP', 0.1)) * 1000)
    busy = round(float(getattr(env.ntm, 'SEND_LOOP_BUSY_SLEEP', 0.01)) * 1000)
    if idle <= 0 or busy <= 0:
        raise MachineryError(f'send loop sleep constants {idle} / {busy} ms are not modelled')
    consts.update({'Idle': idle, 'Busy': busy,
                   'BTimes': run.pick('{1, 60, 300, 700}', '{1, 60, 255, 300, 470, 700, 1300, 2400}')})
    cfg = gen_cfg('loop_mc', 'UdpSendLoop_mc.cfg', consts)
    res = run_tlc('UdpSendLoop', cfg, workers=1, timeout=3000)
    run.add_tlc(res)
    cases = json_lines(res.stdout, 'LCASE')
    seen, uniq = set(), []
    for c in cases:
        key = json.dumps([c['A'], c['B']], sort_keys=True)
        if key not in seen:
            seen.add(key)
            uniq.append(c)
    want = 4 * 12 * run.pick(4, 8)
    if len(uniq) != want:
        raise MachineryError(f'UdpSendLoop: expected {want} cases, TLC emitted {len(uniq)}')
    node = Node(env)
    try:
        records = [run_overlap(env, node, c, i) for i, c in enumerate(uniq)]
    finally:
        node.close()
    run.evaluations += len(records)
    for r in records:
        run.distinct_traces.add(('overlap', json.dumps([r['A'], r['B']], sort_keys=True)))
    burst = sum(1 for r in records
                if any(a['m'] != b['m'] for a, b in zip(r['tx'], r['tx'][1:])))
    if not burst:
        raise MachineryError('vacuous overlap check: the transmissions of the two messages never interleave')
    run.note('overlap', {'cases': len(records), 'cases_with_interleaved_transmissions': burst,
                         'loop_sleep_ms': {'idle': idle, 'busy': busy}})
    run.sample({'overlap_case': {'A': records[len(records) // 2]['A'], 'B': records[len(records) // 2]['B']},
                'datagrams_us': [[x['t'], x['m']] for x in records[len(records) // 2]['tx']],
                'model_ms': uniq[len(records) // 2]['exp']})
    tcfg = gen_cfg('loop_trace', 'UdpSendLoopTrace.cfg', consts)
    rejects = tracecheck.validate(run, 'UdpSendLoopTrace', tcfg, [[r] for r in records], timeout=3000)
    for ti, _li, clause in rejects:
        r = records[ti]
        descr = {'check': 'wire', 'clause': clause, 'ps': r['B']['ps']}
        run.violation(descr, f'two messages in flight, A={r["A"]} B={r["B"]} (senders {r["kinds"]}): clause {clause} '
                             f'fails; datagrams (ms, message) {[(round(x["t"] / 1000, 1), x["m"]) for x in r["tx"]]}; '
                             f'model {uniq[ti]["exp"]}',
                      {'part': 'overlap', 'case': uniq[ti], 'record': r})
    return records


# --------------------------------------------------------------------------- part (b): own ids are ignored
_PREFILL: list = []


def prefill_datagrams(env: Env, n: int) -> list:
    """n datagrams of other nodes (made once): history a node has seen before the behaviour starts."""
    if len(_PREFILL) < n:
        b = Node(env)
        try:
            while len(_PREFILL) < n:
                env.rnd.arm(free=True)
                b.send('multicast', ('Probe', 'Hello')[len(_PREFILL) % 2])
                _PREFILL.append(b.queued()[0].msg.created_message.serialize())
                b.drain()
        finally:
            b.close()
    return _PREFILL[:n]


def replay_loop(env: Env, beh: list, variant: int, prefill: int = 0) -> list:
    a, b = Node(env), Node(env)   # a: node under test, b: produces the datagrams of other nodes
    try:
        real = {}   # abstract id -> (real MessageID, datagram)
        if prefill:
            # the node has already seen `prefill` messages of other nodes (its id memory is full): outside the abstract
            # history, the projection only shows the ids of the behaviour
            for data in prefill_datagrams(env, prefill):
                a.feed(data)
            a.rec.got.clear()

        def produce(node, i):
            ps, kind = ALL_KINDS[(variant + i) % len(ALL_KINDS)]
            env.rnd.arm(free=True)
            env.clock.now = NOW
            node.send(ps, kind)
            entries = node.queued()
            if not entries:
                raise MachineryError('sender queued nothing')
            msg = entries[0].msg
            node.drain()
            return msg.created_message.p_msg.header_info_block.MessageID, msg.created_message.serialize(), kind

        def post():
            names = {mid: name for name, (mid, _d) in real.items()}
            known = sorted(name for name, (mid, _d) in real.items() if mid in a.nt._known_message_ids)
            return {'known': known, 'delivered': [names.get(mid, 'unknown') for mid in a.rec.got]}

        trace = [{'act': 'Init', 'id': '-', 'res': 'ok', 'post': post()}]
        for i, op in enumerate(beh[1:]):
            rec = {'act': op['act'], 'id': op['id']}
            if op['act'] == 'Send':
                mid, data, kind = produce(a, i)
                real[op['id']] = (mid, data)
                rec['kind'] = kind
                rec['res'] = 'queued'
            elif op['act'] == 'Recv':
                if op['id'] not in real:
                    if not op['id'].startswith('f'):
                        raise MachineryError(f'behaviour receives own id {op["id"]} before it was sent')
                    mid, data, kind = produce(b, i)
                    real[op['id']] = (mid, data)
                    rec['kind'] = kind
                rec['res'] = a.feed(real[op['id']][1])
            else:
                raise MachineryError(f'unmodelled action {op}')
            rec['post'] = post()
            trace.append(rec)
        return trace
    finally:
        a.close()
        b.close()


def memory_bound(env: Env) -> int:
    """Informational: after how many distinct foreign ids an own id is forgotten (0 = never within 1000)."""
    a, b = Node(env), Node(env)
    try:
        env.rnd.arm(free=True)
        a.send('multicast', 'Hello')
        own = a.queued()[0].msg.created_message.serialize()
        a.drain()
        for n in range(1, 1001):
            env.rnd.arm(free=True)
            b.send('multicast', 'Probe')
            data = b.queued()[0].msg.created_message.serialize()
            b.drain()
            a.feed(data)
            if a.feed(own) == 'delivered':
                return n
        return 0
    finally:
        a.close()
        b.close()


def loop_part(run, env: Env):
    res = run_tlc('UdpRepeatLoop', 'UdpRepeatLoop_mc.cfg', coverage=True)
    run.add_tlc(res, ['Send', 'RecvOwn', 'RecvNew', 'RecvDup'])
    depth = run.pick(4, 6)
    cfg = gen_cfg('loop_tree', 'UdpRepeatLoop_tree.cfg', {'MaxOps': depth})
    res = run_tlc('UdpRepeatLoop', cfg, workers=1, timeout=3000)
    run.add_tlc(res)
    behs = json_lines(res.stdout, 'BEH')
    n_tree = len(behs)
    n_sim, sim_depth = run.pick(300, 3000), run.pick(10, 14)
    cfg = gen_cfg('loop_sim', 'UdpRepeatLoop_tree.cfg',
                  {'MaxOps': sim_depth, 'Own': '{"m1", "m2", "m3"}', 'Foreign': '{"f1", "f2", "f3"}'})
    res = run_tlc('UdpRepeatLoop', cfg, workers=1, simulate=f'num={n_sim}', depth=sim_depth + 1, seed=run.seed)
    run.add_tlc(res)
    sim = json_lines(res.stdout, 'BEH')
    if len(sim) < n_sim or not n_tree:
        raise MachineryError(f'expected {n_sim} simulated behaviours and a tree, got {len(sim)} / {n_tree}')
    behs += sim
    probe = Node(env)
    try:
        capacity = getattr(probe.nt._known_message_ids, 'maxlen', None)
    finally:
        probe.close()
    fill = capacity if isinstance(capacity, int) and 0 < capacity <= 2000 else 200
    # every 4th behaviour runs on a node whose id memory is already full of foreign ids
    traces = [replay_loop(env, b, i, prefill=fill if i % 4 == 3 else 0) for i, b in enumerate(behs)]
    run.note('loop_prefilled_memory', {'foreign_ids_seen_before': fill, 'behaviours': sum(1 for i in range(len(behs)) if i % 4 == 3)})
    run.evaluations += sum(len(t) - 1 for t in traces)
    # the model predicts the result of every step; compare what TLC predicted with what was seen in the judge only
    rejects = tracecheck.validate(run, 'UdpRepeatLoopTrace', 'UdpRepeatLoopTrace.cfg', traces, timeout=3000)
    for t in traces:
        run.distinct_traces.add(('loop', tuple((r['act'], r['id'], r['res']) for r in t)))
    run.sample({'loop_trace': [{k: r[k] for k in ('act', 'id', 'res')} for r in traces[len(traces) // 2]]})
    foreign_notes = 0
    for ti, li, clause in tracecheck.first_rejects(rejects):
        rec = traces[ti][li]
        if clause.startswith('foreign_'):
            foreign_notes += 1
            run.note('foreign_step_deviation_example', {'clause': clause, 'step': {k: rec[k] for k in rec if k != 'post'}})
            continue
        if clause in ('unmodelled_step', 'init'):
            raise MachineryError(f'loop trace {ti} record {li}: {clause}: {rec}')
        descr = {'check': 'loopback', 'clause': clause.replace('inv_', ''), 'act': rec['act'], 'res': rec['res']}
        run.violation(descr, f'own-id memory: {rec["act"]}({rec["id"]}, message kind {rec.get("kind", "-")}) -> '
                             f'{rec["res"]}: clause {clause} fails; '
                             f'known={rec["post"]["known"]} delivered={rec["post"]["delivered"]}',
                      {'part': 'loop', 'behaviour': behs[ti], 'variant': ti, 'prefill': fill if ti % 4 == 3 else 0,
                       'trace': traces[ti], 'failing_record': li})
    delivered = sum(1 for t in traces for r in t if r['act'] == 'Recv' and r['res'] == 'delivered')
    own_recv = sum(1 for t in traces for r in t if r['act'] == 'Recv' and r['id'].startswith('m'))
    if delivered == 0 or own_recv == 0:
        raise MachineryError('vacuous loop-back check: no foreign datagram was delivered or no own datagram was fed')
    run.note('loop', {'tree_depth': depth, 'tree_behaviours': n_tree, 'simulated': n_sim, 'sim_depth': sim_depth,
                      'own_datagrams_fed_back': own_recv, 'foreign_datagrams_delivered': delivered,
                      'foreign_step_deviations': foreign_notes})
    bound = memory_bound(env)
    run.note('own_id_forgotten_after_distinct_foreign_ids', bound if bound else 'never (<= 1000)')


def _cleanup():
    for name in os.listdir(SPEC_DIR):
        if name.startswith('_gen_c15_'):
            os.remove(os.path.join(SPEC_DIR, name))


def check(run, replay_path=None):
    try:
        with Env(run.seed) as env:
            if replay_path:
                with open(replay_path) as f:
                    obj = json.load(f)['replay']
                if obj.get('part') == 'loop':
                    trace = replay_loop(env, obj['behaviour'], obj.get('variant', 0), prefill=obj.get('prefill', 0))
                    rejects = tracecheck.validate(run, 'UdpRepeatLoopTrace', 'UdpRepeatLoopTrace.cfg', [trace])
                    print(f'replay {replay_path}: trace={[(r["act"], r["id"], r["res"]) for r in trace]} '
                          f'rejects={rejects}')
                    for _ti, li, clause in tracecheck.first_rejects(rejects):
                        if not clause.startswith('foreign_'):
                            run.violation({'check': 'loopback', 'clause': clause.replace('inv_', ''),
                                           'act': trace[li]['act'], 'res': trace[li]['res']},
                                          f'replay: clause {clause} fails', obj)
                elif obj.get('part') == 'overlap':
                    node = Node(env)
                    try:
                        rec = run_overlap(env, node, obj['case'], 0)
                    finally:
                        node.close()
                    consts = tlc_consts(env, 1)
                    consts.update({'Idle': 100, 'Busy': 10, 'BTimes': '{1}'})
                    rejects = tracecheck.validate(run, 'UdpSendLoopTrace', gen_cfg('loop_trace', 'UdpSendLoopTrace.cfg', consts),
                                                  [[rec]])
                    print(f'replay {replay_path}: datagrams={[(x["t"], x["m"]) for x in rec["tx"]]} rejects={rejects}')
                    for _ti, _li, clause in rejects:
                        run.violation({'check': 'wire', 'clause': clause, 'ps': rec['B']['ps']},
                                      f'replay: clause {clause} fails', obj)
                else:
                    records, failing = schedule_part(run, env, only_cases=obj['cases'])
                    print(f'replay {replay_path}: ' + describe(records[0], obj['cases'][0].get('exp'))
                          + f' failing clauses={failing.get(0, [])}')
                return
            schedule_part(run, env)
            overlap_part(run, env)
            loop_part(run, env)
    finally:
        _cleanup()
    run.assumptions += [
        'random and time of networkingthread are replaced by stubs: draw #1 is the initial delay, draw #2 the first '
        'gap; outcomes are whole milliseconds (the code draws integers)',
        'schedule part: observed at the send queue (send_time - now, rounded to microseconds); wire part: datagrams '
        'written by the real send loop under a virtual clock, judged up to the polling raster of the module '
        '(max of SEND_LOOP_IDLE_SLEEP / SEND_LOOP_BUSY_SLEEP); sending itself takes no time',
        'parameter sets are the configured ones (read from the module at run time); a multicast destination must '
        'use MULTICAST_REPEAT_PARAMS, a unicast destination UNICAST_REPEAT_PARAMS',
        'own-id memory is judged within its capacity (fewer distinct foreign ids between send and loop-back than '
        'the bound recorded under own_id_forgotten_after_distinct_foreign_ids)',
        'threads of NetworkingThread are not started: datagrams are handed to _add_to_recv_queue and processed by '
        'a direct call of _run_q_read',
    ]
