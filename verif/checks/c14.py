"""C14 - WS-Discovery answers and records exactly what its matching rules prescribe.

specs
  DiscoveryMatch.tla       reference semantics of the matching rules over an abstract URI / type domain
  DiscoveryMatchMC.tla     enumeration of the case domains (every case is a TLC state), algebraic laws of the
                           reference as invariants, emission of the cases
  DiscoveryMatchTrace.tla  judges the results of the real match_scope / matches_filter / filter_services
  Discovery.tla (+MC)      operational model of one node: published services, remote table with the
                           property-level ghost of the announcements, id memory (FIFO), one action per message
                           kind / API call; exhaustive check of ProbeAnswer, ResolveAnswer, HighestMv, ActOnce
  DiscoveryTrace.tla       judges recorded executions of the real node with the predicates of Discovery.tla

binding
  (a) spec -> code: TLC writes the cases, the harness concretises each one (verif/c14_helpers.py) and calls
      the real functions of sdc11073.wsdiscovery.wsdimpl; code -> spec: TLC judges {case, actual}.
  (b) spec -> code: TLC behaviours (class-balanced simulation SimSpec, exhaustive tree of short behaviours,
      long behaviours for the real capacity of the id memory) are replayed on a real WSDiscovery whose real
      NetworkingThread is built without sockets and never started: hand-written SOAP datagrams go through
      _add_to_recv_queue + the real _run_q_read, the send queue is a recording stub, the remote table, the
      published services and the id memory are read after every step; code -> spec: TLC judges every step.
      Half of the behaviours run against the unmodified id memory (deque(maxlen=200)), half against the same
      container bounded to 2 so that eviction happens within a few messages.
"""
from __future__ import annotations

import json
import os
import random

from verif import c14_helpers as h
from verif import tracecheck
from verif.tlc import SPEC_DIR, MachineryError, json_lines, run_tlc

REC_PER_TRACE = 2000


# --------------------------------------------------------------------------- part (a)
def _emit_cases(run, which: str, cfg: str) -> tuple[list[dict], dict]:
    out = os.path.join(run.tmp, f'cases_{which}.json')
    res = run_tlc('DiscoveryMatchMC', cfg, workers=1, env={'OUT_FILE': out})
    run.add_tlc(res)
    with open(out) as f:
        data = json.load(f)
    os.remove(out)
    seen, cases = set(), []
    for c in data['cases']:
        key = json.dumps(c, sort_keys=True)
        if key not in seen:
            seen.add(key)
            cases.append(c)
    if res.distinct != len(cases):
        raise MachineryError(f'{cfg}: TLC visited {res.distinct} states but emitted {len(cases)} distinct cases')
    if not cases:
        raise MachineryError(f'{cfg}: no cases')
    return cases, data['tables']


def _check_tables(tables: dict):
    """The meaning tables of the abstract alphabet must agree with an independent reading of the tokens."""
    for tok, low in tables['lower'].items():
        if tok != 'None' and tok.lower() != low:
            raise MachineryError(f'LowerOf[{tok!r}] = {low!r} is not the lower case of the token')
    for tok, dec in tables['dec'].items():
        if h.independent_decode(tok) != dec:
            raise MachineryError(f'DecOf[{tok!r}] = {dec!r} but the token decodes to {h.independent_decode(tok)!r}')
        if '/' in tok:
            raise MachineryError(f'segment token {tok!r} contains a literal slash')


def _call(fn, *args) -> str:
    try:
        return 'T' if fn(*args) else 'F'
    except Exception as ex:  # noqa: BLE001
        return f'exc:{type(ex).__name__}'


def _scope_record(case: dict) -> dict:
    from sdc11073.wsdiscovery.wsdimpl import MatchBy, match_scope
    a, b = h.uri_str(case['a']), h.uri_str(case['b'])
    how = {'absent': (None, ''), 'rfc3986': (MatchBy.uri, MatchBy.uri.value),
           'strcmp0': (MatchBy.strcmp, MatchBy.strcmp.value)}[case['rule']]
    return {'kind': 'scope', 'case': case, 'actual': [_call(match_scope, a, b, m) for m in how], 'args': [a, b]}


def _filter_record(case: dict) -> dict:
    from sdc11073.wsdiscovery.wsdimpl import matches_filter
    srv = h.mk_service(case['srv'])
    actual = []
    for as_tuple in (False, True):
        types, scopes = h.mk_filter_args(case['flt'], as_tuple)
        actual.append(_call(matches_filter, srv, types, scopes))
    return {'kind': 'filter', 'case': case, 'actual': actual}


def _select_record(case: dict) -> dict:
    from sdc11073.wsdiscovery.wsdimpl import filter_services
    srvs = [h.mk_service(s, epr=f'urn:uuid:c14-epr-s{i}') for i, s in enumerate(case['srvs'])]
    types, scopes = h.mk_filter_args(case['flt'])
    try:
        got = filter_services(srvs, types, scopes)
        pos = {id(s): i + 1 for i, s in enumerate(srvs)}
        actual = {'res': 'ok', 'idx': [pos.get(id(s), 0) for s in got]}
    except Exception as ex:  # noqa: BLE001
        actual = {'res': f'exc:{type(ex).__name__}', 'idx': []}
    return {'kind': 'select', 'case': case, 'actual': actual}


def _uri_tags(*uris: dict) -> str:
    """Primary feature of the URIs of a failing case (one tag, by priority) - discriminates classes of defects."""
    tags = set()
    for u in uris:
        for seg in u['segs']:
            if seg == '':
                tags.add('empty_segment')
            if '%2F' in seg or '%2f' in seg:
                tags.add('encoded_slash')
            if '%25' in seg:
                tags.add('double_encoded')
            elif '%61' in seg or '%41' in seg:
                tags.add('encoded_letter')
        if u['auth'] == 'None':
            tags.add('no_authority')
    for a in uris:
        for b in uris:
            if a['scheme'] != b['scheme'] and a['scheme'].lower() == b['scheme'].lower():
                tags.add('scheme_case')
            if a['auth'] != b['auth'] and a['auth'].lower() == b['auth'].lower():
                tags.add('authority_case')
    for t in ('encoded_slash', 'double_encoded', 'encoded_letter', 'empty_segment', 'authority_case', 'scheme_case',
              'no_authority'):
        if t in tags:
            return t
    return 'plain'


def _part_a(run):
    tier = run.pick('quick', 'thorough')
    plan = [('scope', f'DiscoveryMatch_scope_{tier}.cfg', _scope_record),
            ('filter', f'DiscoveryMatch_filter_{tier}.cfg', _filter_record),
            ('select', 'DiscoveryMatch_select.cfg', _select_record)]
    summary = {}
    for which, cfg, mk in plan:
        cases, tables = _emit_cases(run, which, cfg)
        _check_tables(tables)
        records = [mk(c) for c in cases]
        run.evaluations += sum(len(r['actual']) if isinstance(r['actual'], list) else 1 for r in records)
        stripped = [{k: v for k, v in r.items() if k != 'args'} for r in records]
        traces = [stripped[i:i + REC_PER_TRACE] for i in range(0, len(stripped), REC_PER_TRACE)]
        rejects = tracecheck.validate(run, 'DiscoveryMatchTrace', 'DiscoveryMatchTrace.cfg', traces, chunk=25)
        positives = 0
        for r in records:
            act = r['actual']
            hit = (act['res'] == 'ok' and bool(act['idx'])) if isinstance(act, dict) else all(x == 'T' for x in act)
            positives += hit
            if which == 'scope':
                run.distinct_traces.add(('scope', r['args'][0], r['args'][1], r['case']['rule']))
            else:
                run.distinct_traces.add((which, json.dumps(r['case'], sort_keys=True)))
        if positives == 0 or positives == len(records):
            raise MachineryError(f'{which}: vacuous domain ({positives} of {len(records)} cases match)')
        summary[which] = {'cases': len(records), 'matching': positives, 'rejected': len(rejects)}
        if which == 'scope':
            run.sample({'match_scope': records[len(records) // 2]['args'], 'rule': records[len(records) // 2]['case']['rule'],
                        'actual': records[len(records) // 2]['actual']})
        for (ti, li, clause) in rejects:
            rec = records[ti * REC_PER_TRACE + li]
            case = rec['case']
            if which == 'scope':
                descr = {'check': 'match_scope', 'rule': case['rule'], 'actual': sorted(set(rec['actual'])),
                         'class': _uri_tags(case['a'], case['b'])}
                what = (f'match_scope({rec["args"][0]!r}, {rec["args"][1]!r}, {case["rule"]}) = {rec["actual"]}, '
                        f'the rule says {"F" if "T" in rec["actual"] else "T"}')
            elif which == 'filter':
                uris = case['flt']['scopes']['items'] + case['srv']['scopes']
                descr = {'check': 'matches_filter', 'rule': case['flt']['rule'], 'actual': sorted(set(rec['actual'])),
                         'types_present': case['flt']['types']['present'],
                         'scopes_present': case['flt']['scopes']['present'],
                         'service_scopes_elem': not case['srv']['noScopesElem'], 'class': _uri_tags(*uris)}
                what = f'matches_filter(service={case["srv"]}, filter={case["flt"]}) = {rec["actual"]}'
            else:
                descr = {'check': 'filter_services', 'rule': case['flt']['rule'], 'res': rec['actual']['res']}
                what = f'filter_services({case["srvs"]}, {case["flt"]}) returned positions {rec["actual"]}'
            run.violation(descr, what, {'part': 'a', 'kind': which, 'case': case, 'actual': rec['actual'],
                                        'clause': clause, 'concrete': rec.get('args')})
    run.note('matching_rules', summary)


# --------------------------------------------------------------------------- part (b)
def _gen_cfg(name: str, base: str, subst: dict) -> str:
    txt = open(os.path.join(SPEC_DIR, base)).read()
    out = []
    for line in txt.splitlines():
        key = line.strip().split(' ')[0] if line.strip() else ''
        if key in subst:
            line = f'  {key} {subst[key]}'
        out.append(line)
    path = os.path.join(SPEC_DIR, f'_gen_c14_{name}.cfg')
    with open(path, 'w') as f:
        f.write('\n'.join(out) + '\n')
    return os.path.basename(path)


def _sim(run, name: str, num: int, depth: int, seed: int, subst: dict | None = None) -> list:
    cfg = _gen_cfg(name, 'Discovery_sim.cfg', {'MaxOps': f'= {depth}', **(subst or {})})
    res = run_tlc('DiscoveryMC', cfg, workers=1, simulate=f'num={num}', depth=depth + 1, seed=seed, timeout=1500)
    run.add_tlc(res)
    behs = json_lines(res.stdout, 'BEH')
    if len(behs) != num:
        raise MachineryError(f'{name}: expected {num} behaviours from TLC, got {len(behs)}')
    return behs


def _tree(run, depth: int) -> list:
    cfg = _gen_cfg('tree', 'Discovery_tree.cfg', {'MaxOps': f'= {depth}'})
    res = run_tlc('DiscoveryMC', cfg, workers=1, timeout=1500)
    run.add_tlc(res)
    behs = json_lines(res.stdout, 'BEH')
    if not behs:
        raise MachineryError('tree: no behaviours')
    return behs


def _step_signature(rec: dict) -> tuple:
    m = rec['msg']
    return (rec['act'], m['kind'], m['id'] if rec['act'] == 'Recv' else '', rec['e'],
            tuple((a['e'], a['mv'], len(a['types']), len(a['scopes']), len(a['xaddrs'])) for a in m['anns']),
            tuple(s['kind'] for s in rec['sent']))


def _part_b(run):
    # 1. design: exhaustive check of the operational model
    res = run_tlc('DiscoveryMC', run.pick('Discovery_mc_quick.cfg', 'Discovery_mc.cfg'), coverage=True, timeout=1500)
    run.add_tlc(res, ['RecvHello', 'RecvProbeMatches', 'RecvProbeMatches2', 'RecvResolveMatches', 'RecvEmptyMatches',
                      'RecvBye', 'RecvProbe', 'RecvResolve', 'Duplicate', 'Echo', 'Publish', 'Unpublish'])
    run.note('model_check', {'distinct_states': res.distinct, 'cfg': res.cfg})

    # 2. behaviours: balanced simulation, exhaustive tree, long runs against the real capacity
    n_sim, depth = run.pick((1500, 8), (20000, 10))
    behs = [('sim', b) for b in _sim(run, 'sim', n_sim, depth, run.seed)]
    behs += [('tree', b) for b in _tree(run, run.pick(1, 2))]
    n_long = run.pick(2, 12)
    long_behs = _sim(run, 'long', n_long, 330, run.seed + 1,
                     {'Cap': '= 200', 'MsgIds': '<- LongIds', 'Contents': '<- TreeContents', 'PairContents': '<- TreePair',
                      'Filters': '<- TreeFilters'})
    behs += [('long', b) for b in long_behs]

    # 3. replay on the real node
    traces, meta = [], []
    for i, (src, b) in enumerate(behs):
        real_cap = src == 'long' or i % 2 == 0
        traces.append(h.replay(b, i, real_cap))
        meta.append({'source': src, 'real_capacity': real_cap, 'variant': i})
        run.evaluations += len(b) - 1
    stats = {'dup_ignored': 0, 'evicted_then_acted': 0, 'probe_answered': 0, 'probe_unanswered': 0,
             'resolve_answered': 0, 'resolve_unanswered': 0, 'version_replaced': 0, 'version_outdated': 0,
             'same_version': 0, 'echo_ignored': 0, 'echo_acted': 0, 'bye_removed': 0}
    for t in traces:
        ever = set()
        for prev, rec in zip(t, t[1:]):
            m = rec['msg']
            if rec['act'] in ('Recv', 'Echo'):
                dup = m['id'] in prev['obs']['seen']
                if rec['act'] == 'Echo':
                    stats['echo_ignored' if dup else 'echo_acted'] += 1
                elif dup:
                    stats['dup_ignored'] += 1
                elif m['id'] in ever:
                    stats['evicted_then_acted'] += 1
                ever.add(m['id'])
                if not dup:
                    if m['kind'] == 'Probe':
                        stats['probe_answered' if rec['sent'] else 'probe_unanswered'] += 1
                    elif m['kind'] == 'Resolve':
                        stats['resolve_answered' if rec['sent'] else 'resolve_unanswered'] += 1
                    elif m['kind'] == 'Bye':
                        stats['bye_removed'] += any(r['e'] == m['e'] for r in prev['obs']['remote'])
                    for a in m['anns']:
                        old = [r for r in prev['obs']['remote'] if r['e'] == a['e']]
                        if old:
                            key = 'version_replaced' if a['mv'] > old[0]['mv'] else \
                                'same_version' if a['mv'] == old[0]['mv'] else 'version_outdated'
                            stats[key] += 1
        if len(t) > 1:
            run.distinct_traces.add(tuple(_step_signature(r) for r in t[1:]))
    # side observation (not part of C14): version announced by the node's own Hello vs. version it holds
    hello_mismatch = sum(1 for t in traces for r in t[1:] if r['act'] == 'Publish' and r['sent'] and r['sent'][0]['anns']
                         and any(s['e'] == r['e'] and s['mv'] != r['sent'][0]['anns'][0]['mv'] for s in r['obs']['local']))
    run.note('observation_own_hello_version_differs_from_published_version', hello_mismatch)
    run.note('node_replay', {'behaviours': {s: sum(1 for x, _ in behs if x == s) for s in ('sim', 'tree', 'long')},
                             'situations': stats})
    run.sample({'node_trace': [{k: v for k, v in r.items() if k in ('act', 'msg', 'sent')} for r in traces[0][1:3]]})

    # 4. judge with TLC
    rejects = tracecheck.validate(run, 'DiscoveryTrace', 'DiscoveryTrace.cfg', traces, chunk=2500)
    for (ti, li, clause) in tracecheck.first_rejects(rejects):
        rec = traces[ti][li]
        if clause.startswith(('api:', 'init_empty')):
            raise MachineryError(f'harness precondition failed ({clause}) in trace {ti} record {li}: {rec}')
        m = rec['msg']
        descr = {'check': 'node', 'clause': clause.split(':')[0], 'kind': m['kind'] if rec['act'] != 'Publish' else 'Api',
                 'act': rec['act']}
        if clause.startswith('highest_mv'):
            prev = traces[ti][li - 1]['obs']['remote']
            rel = []
            for a in m['anns']:
                old = [r for r in prev if r['e'] == a['e']]
                rel.append('new' if not old else 'higher' if a['mv'] > old[0]['mv'] else
                           'equal' if a['mv'] == old[0]['mv'] else 'lower')
            descr['versions'] = rel
        run.violation(descr, f'{rec["act"]} {m["kind"]} id={m["id"]}: clause {clause} fails; sent={rec["sent"]} '
                             f'remote={rec["obs"]["remote"]}',
                      {'part': 'b', 'meta': meta[ti], 'behaviour': behs[ti][1], 'trace': traces[ti],
                       'failing_record': li, 'clause': clause})
    # vacuity of the replay (judged last: a defect of the code must surface as a violation, not as this error)
    missing = [k for k, v in stats.items() if v == 0]
    if missing and not run.violations and not run.known_hits:
        raise MachineryError(f'vacuous replay: situations never exercised on the real node: {missing}')


def check(run, replay_path=None):  # noqa: ARG001
    import logging
    logging.getLogger('sdc').setLevel(logging.CRITICAL + 1)
    logging.getLogger('sdc_comm').setLevel(logging.CRITICAL + 1)
    random.seed(run.seed)
    try:
        _part_a(run)
        _part_b(run)
    finally:
        for name in os.listdir(SPEC_DIR):
            if name.startswith('_gen_c14_'):
                os.remove(os.path.join(SPEC_DIR, name))
    run.assumptions += [
        'URI domain: schemes {sdc.x, SDC.X, Sdc.X, sdc.y}, authorities {h, H, g, none, h:1, H:1, h:2, u@h, v@h}, path segments over '
        '{a, A, %61, %41, %2F, %2f, empty, a%2Fa, %2561, b}; query, fragment, dot segments, ldap and uuid rules '
        'are outside the domain',
        'trailing slash = last segment empty; "segment-wise prefix" is taken literally (sdc.x://h/a/ is not a prefix '
        'of sdc.x://h/a/b)',
        'several announcements with the same highest version: the table entry must carry that version and each of '
        'types/scopes/xaddrs must be the value of one of them; lists are compared as sets; an absent optional '
        'element and an empty one are the same',
        'an input counts as acted upon iff its id is not in the observed id memory before the step; the memory '
        'itself is only required to be bounded by its maxlen and to contain the id right after acting on it',
        'a Resolve for a published EPR may stay unanswered (the statement says "only")',
        'announcements always carry AppSequence (messages without it are dropped by configuration '
        'allow_missing_app_sequence=False) and a non-empty EPR',
        'half of the behaviours run with the id memory bounded to 2 (same container type) instead of 200',
    ]
