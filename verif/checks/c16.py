"""C16 - location scopes round-trip; location filtering tolerates foreign scopes.

spec:    specs/Location.tla - reference semantics over texts that are sequences of Unicode code points:
         Scope (rendering, 4 percent-encoding variants), Parse (RFC 3986 split + query decoding), Inside,
         Widen/Change filter locations, and three enumerated domains in one TLC run (one state per case, the laws
         Parse(Scope(l)) = l, Inside(l, Widen(l, S)), ~Inside(l, Change(l, e)), totality/classification of Parse on the
         foreign domain as invariants of the reference):
           loc      64 presence patterns x value classes x shapes x how an absent element is passed (None / '')
           foreign  scheme x authority x path shape x query class x fragment of a scope another device publishes
           ident    the Identification shapes an application can give the provider's own location state
binding: spec -> code: TLC prints every case (CASE lines, -workers 1) and the plan of filter locations (PLAN); this
         module concretises them (code points -> str, '' / None for absent elements) and calls the real
         SdcLocation.scope_string / from_scope_string / filter_services_inside, ProviderMdibXtra.set_location
         (-> LocationContextStateContainer.update_from_sdc_location) + scopesfactory.mk_scopes, and
         WSDiscovery.search_sdc_device_services_in_location (no sockets: timeout=0 over a pre-filled remote service
         table).
         code -> spec: every recorded result is judged by TLC (specs/LocationTrace.tla) with the SAME operators;
         nothing is compared in python, which only maps a rejected clause to a finding description (exception
         class, raising function) and orders the rejected records so that the simplest input becomes the replay.
clauses: own_scope_total / own_roundtrip / own_inside_widening / own_outside_changed  (SdcLocation.scope_string),
         own_neighbourhood (13 devices that differ in one element - other value / other letter case - filter each
         other's scopes in one process: exactly the reference's Inside matrix),
         pub_total / pub_roundtrip / pub_inside_widening / pub_outside_changed        (mk_scopes after set_location),
         own_scope_grammar / pub_scope_grammar (the real scope read by the reference parser, '+' in a query accepted
         as blank or as itself), ref_scope_parsed (reference renderings with %20, upper and lower case hex, read by
         the real parser), filter_total / filter_sublist / filter_keeps_inside / filter_foreign_verdict (foreign
         scopes; a verdict is demanded only for well-formed sdc.ctxt.loc:/root/ext scopes), pub_inside_own (ident).
not demanded (acceptance decisions): '' is the same as None; root stays at its default; '' is never used as an element
         of a filter location; publishing the all-absent location (documented ValueError) is not judged.
--replay <file>: re-drives the single case stored in a replay file and lets TLC judge it.
"""
from __future__ import annotations

import json
import os
import traceback
import warnings

from verif import tracecheck
from verif.common import VERIF
from verif.tlc import MachineryError, json_lines, run_tlc

ELEMENTS = ('fac', 'bldng', 'flr', 'poc', 'rm', 'bed')
FIXTURE = os.path.join(VERIF, 'fixtures', 'one_mds.xml')
MDIB_REUSE = 12  # set_location calls on one mdib before it is rebuilt (every call leaves a disassociated state)


# --------------------------------------------------------------------------- small helpers
def txt(cps) -> str:
    return ''.join(map(chr, cps))


def cps(s: str) -> list[int]:
    return [ord(ch) for ch in s]


def exc_info(ex: BaseException) -> dict:
    """Exception class, innermost sdc11073 function on the stack, and the module that raised."""
    frames = traceback.extract_tb(ex.__traceback__)
    where = ''
    for fr in frames:
        if '/sdc11073/' in fr.filename.replace('\\', '/') and not fr.name.startswith('<'):
            where = fr.name
    last = frames[-1].filename.replace('\\', '/') if frames else ''
    if '/sdc11073/' in last:
        origin = 'sdc11073'
    else:
        origin = os.path.splitext(os.path.basename(last))[0] if last else ''
        if last.endswith('/urllib/parse.py'):
            origin = 'urllib.parse'
    return {'exc': type(ex).__name__, 'where': where, 'origin': origin, 'msg': str(ex)[:200]}


class Real:
    """The real objects under test (imported late so that an import problem is a machinery failure)."""

    def __init__(self):
        warnings.simplefilter('ignore')  # scope_string / root are deprecated, still the published API
        try:
            import sdc11073.definitions_sdc  # noqa: F401  registers the protocol
            from sdc11073.definitions_sdc import SdcV1Definitions
            from sdc11073.location import SdcLocation
            from sdc11073.mdib import ProviderMdib
            from sdc11073.provider.scopesfactory import mk_scopes
            from sdc11073.wsdiscovery import WSDiscovery
            from sdc11073.wsdiscovery.service import Service
            from sdc11073.xml_types import pm_types
            from sdc11073.xml_types.wsd_types import ScopesType
        except Exception as ex:  # noqa: BLE001
            raise MachineryError(f'cannot import the code under test: {ex!r}') from ex
        self.SdcLocation = SdcLocation
        self.ProviderMdib = ProviderMdib
        self.mk_scopes = mk_scopes
        self.Service = Service
        self.ScopesType = ScopesType
        self.pm_types = pm_types
        self.types = list(SdcV1Definitions.MedicalDeviceTypesFilter)
        try:
            self.wsd = WSDiscovery('127.0.0.1')
            if not hasattr(self.wsd, '_server_started') or not hasattr(self.wsd, '_remote_services'):
                raise AttributeError('WSDiscovery._server_started / _remote_services')
            self.wsd._server_started = True  # noqa: SLF001  nothing is started: searches run with timeout=0
        except Exception as ex:  # noqa: BLE001
            raise MachineryError(f'cannot prepare WSDiscovery without sockets: {ex!r}') from ex
        self._mdib = None
        self._mdib_uses = 0
        self.calls = 0

    # ---- concretisation
    def location(self, loc: dict, absent=None):
        return self.SdcLocation(**{e: (txt(loc[e]) if loc[e] else absent) for e in ELEMENTS})

    def service(self, epr: str, scopes):
        """scopes: list of str, a ScopesType, or None."""
        if isinstance(scopes, list):
            st = self.ScopesType()
            st.text.extend(scopes)
            scopes = st
        return self.Service(list(self.types), scopes, ['http://127.0.0.1:1/x'], epr, '1')

    def mdib(self):
        if self._mdib is None or self._mdib_uses >= MDIB_REUSE:
            try:
                self._mdib = self.ProviderMdib.from_mdib_file(FIXTURE)
            except Exception as ex:  # noqa: BLE001
                raise MachineryError(f'cannot load fixture mdib: {ex!r}') from ex
            self._mdib_uses = 0
        self._mdib_uses += 1
        return self._mdib

    # ---- observations
    def parse(self, scope: str) -> dict:
        """from_scope_string -> [exc, root, loc] (absent and '' both become the empty text)."""
        self.calls += 1
        try:
            p = self.SdcLocation.from_scope_string(scope)
            loc = {e: cps(getattr(p, e) or '') for e in ELEMENTS}
            return {'exc': '', 'root': cps(p.root or ''), 'loc': loc}
        except Exception as ex:  # noqa: BLE001
            return {'exc': type(ex).__name__, 'root': [], 'loc': {e: [] for e in ELEMENTS}, 'info': exc_info(ex)}

    def filter(self, q, services: list, via: str = 'direct') -> dict:
        """filter_services_inside (or the WSDiscovery search that ends in it) -> [exc, islist, alien, res]."""
        self.calls += 1
        try:
            if via == 'direct':
                res = q.filter_services_inside(services)
            else:
                self.wsd._remote_services = {s.epr: s for s in services}  # noqa: SLF001
                res = self.wsd.search_sdc_device_services_in_location(q, timeout=0)
        except Exception as ex:  # noqa: BLE001
            return {'exc': type(ex).__name__, 'islist': False, 'alien': 0, 'res': [], 'info': exc_info(ex)}
        ids = {id(s): i + 1 for i, s in enumerate(services)}
        try:
            items = list(res)
        except TypeError:
            return {'exc': '', 'islist': False, 'alien': 0, 'res': []}
        return {'exc': '', 'islist': isinstance(res, list), 'alien': sum(1 for s in items if id(s) not in ids),
                'res': [ids[id(s)] for s in items if id(s) in ids]}

    def verdicts(self, l_dict: dict, others, plan: dict, scopes) -> tuple[list[int], list]:
        """All NW widenings and NC changes of the plan applied to one single-service list: 1 in, 0 out, 2 exception."""
        svc = self.service('urn:uuid:dev', scopes)
        out, infos = [], []
        base = {e: (txt(l_dict[e]) if l_dict[e] else None) for e in ELEMENTS}

        def ask(kw):
            self.calls += 1
            try:
                r = self.SdcLocation(**kw).filter_services_inside([svc])
                out.append(1 if len(r) == 1 and r[0] is svc else (0 if len(r) == 0 else 3))
            except Exception as ex:  # noqa: BLE001
                out.append(2)
                if not infos:
                    infos.append(exc_info(ex))

        for n in range(plan['nw']):
            ask({e: (None if (n >> i) & 1 else base[e]) for i, e in enumerate(ELEMENTS)})
        for mask, i, k in plan['change']:
            kw = {e: (None if (mask >> j) & 1 else base[e]) for j, e in enumerate(ELEMENTS)}
            kw[ELEMENTS[i - 1]] = txt(others[i - 1][k - 1])
            ask(kw)
        return out, infos

    def neighbourhood(self, l_dict: dict, others, absent=None) -> list[list[int]]:
        """NP = 13 devices (Location.tla PopLoc): the location itself and, per element, a sibling with another value
        (k = 1) and one with the other letter case (k = 3); every member filters the scopes of all members."""
        base = {e: (txt(l_dict[e]) if l_dict[e] else None) for e in ELEMENTS}
        pop = [dict(base)]
        for i, e in enumerate(ELEMENTS):
            for k in (1, 3):
                kw = dict(base)
                if l_dict[e]:
                    kw[e] = txt(others[i][k - 1])
                pop.append(kw)
        locs = [self.SdcLocation(**kw) for kw in pop]
        services = [self.service(f'urn:uuid:n{j}', [lo.scope_string]) for j, lo in enumerate(locs)]
        ids = {id(s): j + 1 for j, s in enumerate(services)}
        out = []
        for lo in locs:
            self.calls += 1
            try:
                out.append(sorted(ids[id(s)] for s in lo.filter_services_inside(services)))
            except Exception:  # noqa: BLE001
                out.append([0])
        return out

    def publish(self, location):
        """set_location on a provider mdib, then mk_scopes -> (ScopesType, list of its sdc.ctxt.loc scope texts)."""
        mdib = self.mdib()
        self.calls += 2
        mdib.xtra.set_location(location)
        scopes = self.mk_scopes(mdib)
        return mdib, scopes, [t for t in scopes.text if t.lower().startswith('sdc.ctxt.loc:')]


# --------------------------------------------------------------------------- drivers (one record per case)
def drive_loc(real: Real, payload: dict, plan: dict) -> dict:
    c, loc, others = payload['c'], payload['loc'], payload['others']
    absent = None if c['absent'] == 'none' else ''
    a: dict = {'scope_exc': '', 'scope': [], 'parsed': None, 'in_own': [], 'neigh': [],
               'pub_exc': '', 'pub_n': 0, 'pub': [], 'pub_parsed': None, 'in_pub': []}
    empty_parse = {'exc': 'skipped', 'root': [], 'loc': {e: [] for e in ELEMENTS}}
    a['parsed'] = a['pub_parsed'] = empty_parse
    infos = {}
    own = real.location(loc, absent)
    # 1. own scope string, parsed back, recognised by every widening, by no changed location
    try:
        real.calls += 1
        scope = own.scope_string
        if not isinstance(scope, str):
            raise TypeError(f'scope_string returned {type(scope).__name__}')
        a['scope'] = cps(scope)
    except Exception as ex:  # noqa: BLE001
        a['scope_exc'] = type(ex).__name__
        infos['own_scope_total'] = exc_info(ex)
        scope = None
    if scope is not None:
        a['parsed'] = real.parse(scope)
        a['in_own'], inf = real.verdicts(loc, others, plan, [scope])
        a['neigh'] = real.neighbourhood(loc, others)
        if inf:
            infos['own_inside'] = inf[0]
    # 2. reference renderings (what any URI writer may produce) read by the real parser
    a['ref_lower'] = real.parse(txt(payload['refs']['lower']))
    a['ref_upper'] = real.parse(txt(payload['refs']['upper']))
    # 3. the scope a provider publishes for this location
    if c['pat'] != 0:
        try:
            _, scopes, loc_scopes = real.publish(own)
            a['pub_n'] = len(loc_scopes)
            if len(loc_scopes) == 1:
                a['pub'] = cps(loc_scopes[0])
                a['pub_parsed'] = real.parse(loc_scopes[0])
                a['in_pub'], inf = real.verdicts(loc, others, plan, scopes)
                if inf:
                    infos['pub_inside'] = inf[0]
        except MachineryError:
            raise
        except Exception as ex:  # noqa: BLE001
            a['pub_exc'] = type(ex).__name__
            infos['pub_total'] = exc_info(ex)
    for key in ('parsed', 'ref_lower', 'ref_upper', 'pub_parsed'):
        if 'info' in a[key]:
            infos[key] = a[key].pop('info')
    return {'c': c, 'a': a, 'infos': infos}


def drive_foreign(real: Real, payload: dict) -> dict:
    c = payload['c']
    foreign, good = txt(payload['scope']), txt(payload['good'])
    q = real.location(payload['q'])
    a, infos = {}, {}
    for key, via in (('d', 'direct'), ('w', 'wsdiscovery')):
        services = [real.service('urn:uuid:1', [good]), real.service('urn:uuid:2', [foreign]),
                    real.service('urn:uuid:3', [foreign, good]), real.service('urn:uuid:4', None),
                    real.service('urn:uuid:5', [])]
        a[key] = real.filter(q, services, via)
        if 'info' in a[key]:
            infos[via] = a[key].pop('info')
    return {'c': c, 'a': a, 'infos': infos, 'scope': foreign}


def drive_ident(real: Real, payload: dict) -> dict:
    c = payload['c']
    own = real.location(payload['loc'])
    a = {'mk_exc': '', 'n_loc': 0, 'f': {'exc': 'skipped', 'islist': False, 'alien': 0, 'res': []}}
    infos, published = {}, []
    ii = real.pm_types.InstanceIdentifier
    try:
        real._mdib = None  # noqa: SLF001  fresh mdib: exactly one location state
        mdib = real.mdib()
        mdib.xtra.set_location(own)  # fallback identifier (root sdc.ctxt.loc.detail, extension from the elements)
        states = [s for s in mdib.context_states.objects
                  if s.NODETYPE.localname == 'LocationContextState' and s.Identification]
        if len(states) != 1:
            raise MachineryError(f'fixture mdib: expected 1 location state, got {len(states)}')
        if c['id'] != 'fallback':
            with mdib.context_state_transaction() as mgr:
                st = mgr.get_context_state(states[0].Handle)
                fallback = list(st.Identification)
                st.Identification = {
                    'noext': [ii(root='urn:oid:1.2.3')],
                    'defaultroot_noext': [ii(root='sdc.ctxt.loc.detail')],
                    'noroot': [ii(extension_string='x')],
                    'two': [*fallback, ii(root='urn:oid:1.2.3')],
                    'extslash': [ii(root='urn:oid:1.2.3', extension_string='a/b')],
                }[c['id']]
        real.calls += 1
        scopes = real.mk_scopes(mdib)
        published = list(scopes.text)
        a['n_loc'] = sum(1 for t in published if t.lower().startswith('sdc.ctxt.loc:'))
    except MachineryError:
        raise
    except Exception as ex:  # noqa: BLE001
        a['mk_exc'] = type(ex).__name__
        infos['pub_total'] = exc_info(ex)
        scopes = None
    if scopes is not None:
        a['f'] = real.filter(own, [real.service('urn:uuid:own', scopes)])
        if 'info' in a['f']:
            infos['direct'] = a['f'].pop('info')
    return {'c': c, 'a': a, 'infos': infos, 'published': published}


# --------------------------------------------------------------------------- TLC side
def cases_of(run, cfg: str, expect: int | None = None, timeout: int = 1500):
    res = run_tlc('Location', cfg, workers=1, timeout=timeout)
    run.add_tlc(res)
    seen, out = set(), []
    for p in json_lines(res.stdout, 'CASE'):
        key = json.dumps(p['c'], sort_keys=True)
        if key not in seen:
            seen.add(key)
            out.append((key, p))
    out.sort(key=lambda kp: kp[0])
    if not out or len(out) != res.distinct:
        raise MachineryError(f'{cfg}: {len(out)} distinct CASE lines for {res.distinct} states')
    if expect is not None and len(out) != expect:
        raise MachineryError(f'{cfg}: expected {expect} cases, TLC enumerated {len(out)}')
    plans = json_lines(res.stdout, 'PLAN')
    if not plans:
        raise MachineryError(f'{cfg}: no PLAN line')
    return [p for _, p in out], plans[0]


def info_for(rec: dict, clause: str) -> dict:
    """The exception behind a rejected clause (if one was recorded)."""
    infos = rec.get('infos', {})
    base, _, via = clause.partition(':')
    keys = {'own_scope_total': ['own_scope_total'], 'own_roundtrip': ['parsed'], 'ref_scope_parsed': ['ref_lower', 'ref_upper'],
            'own_inside_widening': ['own_inside'], 'own_outside_changed': ['own_inside'], 'own_neighbourhood': ['own_inside'],
            'pub_total': ['pub_total'], 'pub_roundtrip': ['pub_parsed'],
            'pub_inside_widening': ['pub_inside'], 'pub_outside_changed': ['pub_inside'],
            'filter_total': [via] if via else []}.get(base, [])
    for k in keys:
        if k in infos:
            return infos[k]
    return {}


def simplicity(item):
    """Order in which rejected records are reported: the simplest concrete input first (it becomes the replay)."""
    rec, payload = item[1], item[2]
    if rec['c']['kind'] == 'foreign':
        return (len(rec['scope']), f"{int(rec['c']['scheme'] != 'loc')}{rec['scope']}")
    return (sum(len(v) for v in payload['loc'].values()), json.dumps(rec['c'], sort_keys=True))


def judge(run, recs: list[dict], payloads: list[dict], chunk: int):
    """Let TLC judge the records; turn rejected clauses into violations."""
    traces = [[{'c': r['c'], 'a': r['a']}] for r in recs]
    rejects = tracecheck.validate(run, 'LocationTrace', 'LocationTrace.cfg', traces, chunk=chunk, timeout=2400)
    items = sorted(((clause, recs[ti], payloads[ti]) for ti, _li, clause in rejects), key=simplicity)
    for clause, rec, payload in items:
        c = rec['c']
        kind = c['kind']
        run.count(f'rejected_clauses_{kind}')
        info = info_for(rec, clause)
        base, _, via = clause.partition(':')
        descr = {'check': kind, 'clause': base, 'exc': info.get('exc', ''), 'where': info.get('where', ''),
                 'origin': info.get('origin', '')}
        if via:
            descr['via'] = via
        if kind == 'loc':
            descr['cls'] = c['cls'] if c['shape'] != 'rot' else 'rot'
            descr['absent'] = c['absent']
            what = f'location {show_loc(payload["loc"], c["absent"])}: clause {clause} fails'
        elif kind == 'foreign':
            what = f'filter_services_inside with a service publishing {rec["scope"]!r}: clause {clause} fails'
        else:
            if base != 'filter_total':
                descr['id'] = c['id']
            what = f'own location state with Identification "{c["id"]}" publishes {rec["published"]}: clause {clause} fails'
        if info:
            what += f' ({info["exc"]}: {info["msg"]} raised in {info["where"]} / {info["origin"]})'
        run.violation(descr, what, {'kind': kind, 'payload': payload, 'record': rec})


def show_loc(loc: dict, absent: str) -> str:
    a = 'None' if absent == 'none' else "''"
    return 'SdcLocation(' + ', '.join(f'{e}={txt(loc[e])!r}' if loc[e] else f'{e}={a}' for e in ELEMENTS) + ')'


# --------------------------------------------------------------------------- entry point
def check(run, replay_path=None):
    real = Real()
    if replay_path:
        with open(replay_path) as f:
            rp = json.load(f)['replay']
        _, plan = cases_of(run, 'Location_ident.cfg')
        payload, kind = rp['payload'], rp['kind']
        rec = {'loc': lambda: drive_loc(real, payload, plan), 'foreign': lambda: drive_foreign(real, payload),
               'ident': lambda: drive_ident(real, payload)}[kind]()
        judge(run, [rec], [payload], 10)
        run.sample({'replayed': kind, 'case': payload['c'], 'actual': {k: v for k, v in rec['a'].items() if 'in_' not in k}})
        return

    # ---- spec -> code: one TLC run enumerates the three domains and checks the laws of the reference
    n_loc = run.pick(64 * 7 * 2, 64 * 33 * 4)
    n_foreign = run.pick(4 * 2 * 11 * 17 * 1, 8 * 4 * 11 * 17 * 3)
    payloads, plan = cases_of(run, run.pick('Location_quick.cfg', 'Location.cfg'), expect=n_loc + n_foreign + 24)
    if plan['nw'] != 64 or len(plan['change']) != plan['nc']:
        raise MachineryError(f'unexpected plan {plan["nw"]}/{plan["nc"]}')
    by_kind = {k: [p for p in payloads if p['c']['kind'] == k] for k in ('loc', 'foreign', 'ident')}
    if [len(by_kind[k]) for k in ('loc', 'foreign', 'ident')] != [n_loc, n_foreign, 24]:
        raise MachineryError(f'unexpected domain sizes { {k: len(v) for k, v in by_kind.items()} }')
    payloads = by_kind['loc'] + by_kind['foreign'] + by_kind['ident']
    recs = []
    for p in payloads:
        kind = p['c']['kind']
        if kind == 'loc':
            r = drive_loc(real, p, plan)
            if p['c']['pat'] != 0:
                run.distinct_traces.add(('loc', tuple(tuple(p['loc'][e]) for e in ELEMENTS), p['c']['absent']))
        elif kind == 'foreign':
            r = drive_foreign(real, p)
            run.distinct_traces.add(('foreign', r['scope']))
        else:
            r = drive_ident(real, p)
            run.distinct_traces.add(('ident', tuple(r['published'])))
        recs.append(r)

    def pick(**want):
        return next(i for i, p in enumerate(payloads) if all(p['c'].get(k) == v for k, v in want.items()))

    i = pick(kind='loc', pat=41, cls='mixed', shape='mid', absent='none')
    run.sample({'case': payloads[i]['c'], 'location': show_loc(payloads[i]['loc'], 'none'),
                'scope_string': txt(recs[i]['a']['scope']), 'published': txt(recs[i]['a']['pub']),
                'inside_verdicts_own': ''.join(map(str, recs[i]['a']['in_own']))})
    i = pick(kind='foreign', scheme='loc', path='p1', query='inside', auth='none', frag='no')
    run.sample({'case': payloads[i]['c'], 'foreign_scope': recs[i]['scope'], 'actual': recs[i]['a']})
    i = pick(kind='ident', id='noext', pat=1)
    run.sample({'case': payloads[i]['c'], 'published': recs[i]['published'], 'actual': recs[i]['a']})
    run.note('cases', {k: len(v) for k, v in by_kind.items()})
    run.note('filter_locations_per_loc_case', {'widenings': plan['nw'], 'changes': plan['nc'], 'scopes': 2})
    run.note('foreign_judged_verdicts', sum(1 for p in by_kind['foreign'] if p['c']['scheme'] == 'loc'
                                            and p['c']['auth'] == 'none' and p['c']['path'] == 'p2'
                                            and p['c']['query'] in ('inside', 'outside', 'unknown')))
    for k in by_kind:
        run.count(f'rejected_clauses_{k}', 0)

    # ---- code -> spec: TLC judges every record
    judge(run, recs, payloads, run.pick(4000, 3000))

    run.evaluations = real.calls
    run.note('exhaustive', True)
    run.assumptions += [
        "'' and None denote the same absent element (acceptance decision); '' is only passed to the location that is "
        "rendered/published, filter locations use None",
        'the deprecated root stays at its default sdc.ctxt.loc.detail',
        'publishing the all-absent location is not judged (update_from_sdc_location documents ValueError)',
        'texts are XML-legal scalar values (no lone surrogates, no C0 controls except tab/LF)',
        'foreign scopes: only well-formed sdc.ctxt.loc:/root/ext scopes have a demanded verdict, all others only totality',
        'WSDiscovery path driven without sockets (timeout=0, pre-filled remote service table); XML (de)serialisation of '
        'the scopes is not part of this check',
    ]
