"""C02 - MDIB version counters are monotonic, gap-free and referentially consistent.

spec:    specs/Mdib.tla (operational, shaped like transactions.py); properties Gapless, EmptyNoBump, NonEmptyBumps,
         Monotone*, ChangeBumps*, RefConsistent checked exhaustively by TLC
binding: TLC-simulated behaviours replayed on the real ProviderMdib (classic and entity interface, all transaction
         kinds); every recorded step validated by TLC against the abstract commit obligation in specs/MdibTrace.tla
"""
from verif.checks import mdibcommon


def check(run, replay_path=None):
    mdibcommon.run_family(run, 'C02')
    run.assumptions += ['model universe: vmd/channel/metric + 2 dynamic descriptors + patient context with 2 states + '
                        'alert/operation/rt leaves; tokens {0,1,2}; <= 4 transactions of <= 4 calls per behaviour',
                        'API precondition: a descriptor is not added below a descriptor deleted in the same transaction',
                        'calls with adjust_*_version=False are not driven']
