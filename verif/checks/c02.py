"""C02 - MDIB version counters are monotonic, gap-free and referentially consistent.

spec:    specs/Mdib.tla (operational, shaped like transactions.py); properties Gapless, EmptyNoBump, NonEmptyBumps,
         Monotone*, ChangeBumps*, RefConsistent checked exhaustively by TLC
binding: TLC-simulated behaviours replayed on the real ProviderMdib (classic and entity interface, all transaction
         kinds); every recorded step validated by TLC against the abstract commit obligation in specs/MdibTrace.tla
"""
from verif.checks import mdibcommon


WRITERS_QUICK = [('W_metric_m1', 'W_metric_m2'), ('W_metric_m1', 'W_ctx', 'W_descr_m1')]
WRITERS_THOROUGH = WRITERS_QUICK + [('W_metric_m1', 'W_comp_vmd', 'W_rt'), ('W_descr_m1', 'W_descr_ch', 'W_ctx'),
                                    ('W_metric_m1', 'W_metric_m1', 'W_metric_m2', 'W_ctx')]


def concurrent_writers(run):
    """MdibVersion under concurrently committing threads: every interleaving of the recorded thread programs that the
    locks admit (specs/Threads.tla) is executed on real threads; each commit raises the version by exactly one."""
    from verif.checks.c07 import run_scenarios
    run_scenarios(run, run.pick(WRITERS_QUICK, WRITERS_THOROUGH), run.pick(40, 800),
                  {'one_version_per_commit', 'request_answered'}, prefix='c02')


def check(run, replay_path=None):
    mdibcommon.run_family(run, 'C02')
    concurrent_writers(run)
    run.assumptions += ['model universe: vmd/channel/metric + 2 dynamic descriptors + patient context with 2 states + '
                        'alert/operation/rt leaves; tokens {0,1,2}; <= 4 transactions of <= 4 calls per behaviour',
                        'API precondition: a descriptor is not added below a descriptor deleted in the same transaction',
                        'calls with adjust_*_version=False are not driven']
