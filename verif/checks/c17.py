"""C17 - HTTP body framing and content coding are lossless and honour negotiation.

specs:   specs/HttpFraming.tla         reference semantics (chunk writer / grammar / decoder over real byte values,
                                       abstract codec with damage classes, Accept-Encoding acceptability)
         specs/HttpFramingDomains.tla  the enumerated abstract domains
         specs/HttpFramingMC.tla       laws of the reference semantics checked on every element; emits the cases
         specs/ChunkReader.tla         operational de-chunking reader: terminates on every input (liveness),
                                       refines HttpFraming!Parse, needs at most Len+1 reads
         specs/HttpFramingTrace.tla    judges the recorded executions of the real code

binding: spec -> code: every case printed by TLC is concretised into calls of the real functions
           mk_chunks, HTTPReader._read_dechunk / read_request_body / read_response_body, CompressionHandler,
           DispatchingRequestHandler (whole do_POST over an in-memory socket), SoapClient._send_soap_request /
           get_from_url (real http.client connection over an in-memory socket), SoapClientAsync (real aiohttp session
           to an in-process TCP server that captures the wire bytes), ActionBasedSubscriptionsManager /
           BICEPSSubscriptionsManagerBaseAsync._mk_subscription_instance + SoapClientPool + SdcProvider._mk_soap_client.
         code -> spec: the recorded results are judged by TLC (HttpFramingTrace) with the operators of HttpFraming.
         Computed in python, not in TLC: byte equality of bodies (`same`, `delivered`, `returned`, `actual`) because
         bodies go up to megabytes, and for part "big" also the validity of the framing (python mirror
         c17_helpers.py_parse_chunked of HttpFraming!Parse, which TLC cross-checks on every small stream: clause
         harness_parser_agrees; a disagreement is a machinery failure).
         Every stream given to a real reader has a read-count watchdog (c17_helpers.WatchedIO): a reader that spins is
         recorded as res = "spin".
"""
from __future__ import annotations

import os
import random
import types
from concurrent.futures import ThreadPoolExecutor

from verif import c17_helpers as H
from verif import tracecheck
from verif.tlc import SPEC_DIR, MachineryError, json_lines, run_tlc

XML_PROLOG = b'<?xml version="1.0" encoding="utf-8"?>'


# --------------------------------------------------------------------------------------------- TLC side
def _consts(run, registered):
    reg = '{' + ', '.join(f'"{r}"' for r in registered) + '}'
    q = dict(MaxN=20, MaxC=6, MutN=3, MutC=2, ShortLen=4, MaxEntries=2, Registered=reg)
    t = dict(MaxN=64, MaxC=17, MutN=6, MutC=3, ShortLen=6, MaxEntries=3, Registered=reg)
    return run.pick(q, t)


def _write_cfg(name, consts, tail):
    txt = 'SPECIFICATION Spec\nCONSTANTS\n' + ''.join(f'  {k} = {v}\n' for k, v in consts.items()) + tail
    with open(os.path.join(SPEC_DIR, name), 'w') as f:
        f.write(txt)
    return name


def _emit(run, consts, part):
    big = run.pick('BigQuick', 'BigThorough')
    cfg = _write_cfg(f'_gen_c17_{part}.cfg', consts, f'  Part = "{part}"\n  BigCases <- {big}\nINVARIANT Laws\n')
    res = run_tlc('HttpFramingMC', cfg, workers=1, timeout=1500)
    cases = json_lines(res.stdout, 'CASE')
    if len(cases) != res.distinct or not cases:
        raise MachineryError(f'part {part}: TLC visited {res.distinct} cases but printed {len(cases)}')
    return res, cases


def _reader_mc(run, consts, dom, coverage=False):
    """Model-check the reader machine on one stream domain (coverage is slow: only on a small domain)."""
    name = f'_gen_c17_reader_{dom}{"_cov" if coverage else ""}.cfg'
    cfg = _write_cfg(name, consts,
                     f'  StreamDomain = "{dom}"\n' + ('' if coverage else 'INVARIANT Refines\n') +
                     'INVARIANT ReadBound\nINVARIANT TypeOK\nPROPERTY Terminates\n')
    return run_tlc('ChunkReader', cfg, workers=1 if coverage else 2, coverage=coverage, timeout=1500)


# --------------------------------------------------------------------------------------------- concretisation
def _outcome(res, val, expect: bytes):
    """Abstract outcome of a guarded real call that should have produced `expect`."""
    if res == 'body':
        return 'same' if val == expect else 'other'
    return res  # reject | spin


def _frame_headers(hdr: dict):
    return {'te': 'chunked' in hdr.get('transfer-encoding', '').lower(), 'cl': 'content-length' in hdr}


class Ctx:
    def __init__(self, run, registered):
        self.run = run
        self.registered = registered
        self.rng = random.Random(run.seed)
        self.exc_kinds = {}
        self.async_wire = None

    def exc(self, where, name):
        key = f'{where}:{name}'
        self.exc_kinds[key] = self.exc_kinds.get(key, 0) + 1


def _dechunk_records(ctx, stream: bytes, vias, tag):
    """Feed one chunked stream to the real readers."""
    from sdc11073.httpserver.httpreader import mk_chunks  # noqa: F401
    pyok, _pybody, pyused, _cnt = H.py_parse_chunked(stream)
    recs = []
    for via in vias:
        if via == 'direct':
            res, val = H.dechunk_direct(stream)
        elif via == 'request':
            s = H.serve(H.mk_request('POST', '/svc/x', [('Transfer-Encoding', 'chunked')], stream), [], 0, b'')
            res, val = ('body', s.delivered) if s.res == 'ok' and s.delivered is not None else (s.res, s.exc)
            if s.res == 'ok' and s.delivered is None:
                res, val = 'reject', 'no_delivery'
        else:  # response: http.client de-chunks, read_response_body collects
            res, val, _ = H.read_response(H.mk_response([('Transfer-Encoding', 'chunked')], stream))
        if res == 'reject':
            ctx.exc(f'dechunk/{via}', val)
        recs.append({'kind': 'dechunk', 'via': via, 'tag': tag, 'stream': list(stream), 'res': res,
                     'body': list(val) if res == 'body' and val is not None else [],
                     'pyok': pyok, 'pyused': pyused})
    return recs


def _exchange(ctx, body: bytes, reply: bytes, coding: str, chunk: int, client_kind: str, info: dict):
    """One request/response exchange: real client -> wire -> real server -> wire -> real client."""
    enabled = [coding] if coding != 'none' else []
    seen = {}

    def peer(raw):
        s = H.serve(raw, enabled, chunk, reply)
        seen['s'] = s
        seen['raw'] = raw
        return s.raw_response

    rec = {'kind': 'exchange', 'client': client_kind, 'coding': coding, 'chunk': chunk, **info}
    if client_kind == 'sync':
        client = H.mk_sync_client(ctx.registered, enabled or None, chunk)
        H.attach(client, peer)
        res, val = H.sync_post(client, '/svc/x', body)
        returned = _outcome(res, val, reply)
        rec['res'] = 'ok' if res == 'body' else res
        if res == 'reject':
            ctx.exc('exchange/sync', val)
    else:  # async: the request goes over a real aiohttp session; the response direction is not exercised
        from sdc11073.pysoap.soapclient_async import SoapClientAsync
        client = SoapClientAsync(ctx.async_wire.netloc, 5, H._logger(), None, None, None,  # noqa: SLF001
                                 supported_encodings=ctx.registered, request_encodings=enabled or None,
                                 chunk_size=chunk)
        res, raw = ctx.async_wire.post(client, '/svc/x', body)
        if res == 'body':
            peer(raw)
            rec['res'] = 'ok' if seen['s'].res == 'ok' else seen['s'].res
        else:
            rec['res'] = res
            ctx.exc('exchange/async', raw)
        returned = 'same'
    s = seen.get('s')
    rec['delivered'] = 'none' if s is None or s.delivered is None else ('same' if s.delivered == body else 'other')
    rec['returned'] = returned
    req_hdr, req_rest = H.split_head(seen.get('raw', b''))
    resp_hdr, resp_rest = H.split_head(s.raw_response if s is not None else b'')
    fh = _frame_headers(req_hdr)
    rec['req_te'], rec['req_cl'] = fh['te'], fh['cl']
    rec['req_len'] = len(req_rest)
    rec['req_coding'] = req_hdr.get('content-encoding', 'none')
    _framed(rec, 'req', req_rest if fh['te'] else b'')
    if client_kind == 'sync':
        fh = _frame_headers(resp_hdr)
        rec['resp_te'], rec['resp_cl'] = fh['te'], fh['cl']
        rec['resp_len'] = len(resp_rest)
        _framed(rec, 'resp', resp_rest if fh['te'] else b'')
    else:
        rec['resp_te'], rec['resp_cl'], rec['resp_len'] = False, True, 0
        _framed(rec, 'resp', b'')
    return rec


TLC_MAX_CHUNKS = 200  # longer streams are judged by the python mirror (keeps the JSON for TLC small)


def _framed(rec, side, stream: bytes):
    """Attach a chunked stream for judgement: by TLC, or beyond TLC_MAX_CHUNKS by the python mirror of Parse."""
    ok, _b, used, count = H.py_parse_chunked(stream)
    rec[side + '_pyvalid'] = bool(ok and used == len(stream))
    if count <= TLC_MAX_CHUNKS:
        rec[side + '_judge'] = 'tlc'
        rec[side + '_stream'] = list(stream)
    else:
        rec[side + '_judge'] = 'python'
        rec[side + '_stream'] = []


def conc_chunk(ctx, case, idx):
    from sdc11073.httpserver.httpreader import mk_chunks
    run = ctx.run
    n, c, pat = case['n'], case['c'], case['pat']
    body = bytes(case['body'])
    if body != H.pattern_body(n, pat):
        raise MachineryError(f'python mirror of Body({n},{pat}) differs from the TLC value')
    recs = []
    res, stream = H.guarded(lambda: mk_chunks(body, c))
    if res != 'body':
        recs.append({'kind': 'mkchunks', 'n': n, 'c': c, 'pat': pat, 'stream': [], 'pyok': False, 'pyused': 0})
    else:
        pyok, _b, pyused, _cnt = H.py_parse_chunked(stream)
        recs.append({'kind': 'mkchunks', 'n': n, 'c': c, 'pat': pat, 'stream': list(stream), 'pyok': pyok,
                     'pyused': pyused, 'is_reference': list(stream) == case['streams']['plain']})
        if list(stream) == case['streams']['plain']:
            run.count('mk_chunks_equals_reference_writer')
    # the reference writer's output in every spelling -> the real readers
    for style, st in sorted(case['streams'].items()):
        if run.quick:
            vias = ('direct', 'request', 'response') if style == ('plain', 'ext', 'upper', 'lead0')[idx % 4] else ('direct',)
        else:
            vias = ('direct', 'request', 'response') if style in ('plain', 'ext') or idx % 3 == 0 else ('direct',)
        recs += _dechunk_records(ctx, bytes(st), vias, style)
    # whole exchanges, request and response direction, with and without content coding
    reply = body[::-1]
    codings = ['none', *ctx.registered]
    for k, coding in enumerate(codings):
        if (run.quick or n > 32) and k != idx % len(codings) and coding != 'none':
            continue
        recs.append(_exchange(ctx, body, reply, coding, c, 'sync', {'n': n, 'c': c, 'pat': pat}))
    if c == 1:  # Content-Length framing
        recs.append(_exchange(ctx, body, reply, codings[idx % len(codings)], 0, 'sync', {'n': n, 'c': 0, 'pat': pat}))
    if ctx.async_wire is not None and (n * 31 + c * 7 + idx) % run.pick(9, 5) == 0:
        coding = codings[(idx // 3) % len(codings)]
        recs.append(_exchange(ctx, XML_PROLOG + body, b'', coding, c if idx % 4 else 0, 'async',
                              {'n': n, 'c': c, 'pat': pat}))
    return recs


def conc_stream(ctx, case, idx):
    stream = bytes(case['stream'])
    vias = ['direct']
    if case['kind'] == 'mutant' or idx % 7 == 0:
        vias.append('request')
    if case.get('mut') == 'trunc':
        vias.append('response')
    return _dechunk_records(ctx, stream, vias, case.get('mut', 'short'))


# ---- content codings
def _xmlish(n, rng):
    words = [b'<msg:Value>', b'</msg:Value>', b'<pm:State Handle="h', b'"/>', b'0123', b' xmlns:pm="urn:x"', b'\r\n']
    out = bytearray(XML_PROLOG)
    while len(out) < n:
        out += rng.choice(words)
    return bytes(out[:n])


def coding_bodies(ctx):
    rng = random.Random(ctx.run.seed + 1)
    bodies = {'empty': b'', 'one': b'a', 'xml': _xmlish(1000, rng), 'rnd': rng.randbytes(300)}
    if not ctx.run.quick:
        bodies['xml_big'] = _xmlish(1 << 20, rng)
        bodies['rnd_big'] = rng.randbytes((1 << 20) + 17)
    return bodies


def damage_variants(ctx, damage, coded: bytes, body: bytes, big: bool, limit: int):
    """Concrete representatives of one damage class: list of (description, payload)."""
    ln = len(coded)
    rng = random.Random(ctx.run.seed + ln)
    if damage == 'none':
        return [('intact', coded)]
    if damage == 'empty':
        return [('empty', b'')]
    if damage == 'plain':
        return [('uncoded body', body)] if body != coded else []
    if damage == 'garbage':
        return [('random bytes', rng.randbytes(64)), ('zero bytes', bytes(10))][:limit]
    if damage == 'magic':
        return [('first byte inverted', bytes([coded[0] ^ 0xFF]) + coded[1:]),
                ('first 4 bytes zero', bytes(4) + coded[4:])][:limit]
    if damage == 'trailing':
        return [('CRLF appended', coded + b'\r\n'), ('second message appended', coded + coded)][:limit]
    if damage == 'trunc':
        pos = sorted({1, 2, 4, 10, ln // 2, ln - 9, ln - 8, ln - 4, ln - 1} | (set(range(1, ln)) if ln <= 64 else set()))
        pos = [p for p in pos if 0 < p < ln]
        if len(pos) > limit:
            pos = sorted(rng.sample(pos, limit - 2) + [pos[0], pos[-1]])
        return [(f'first {p} of {ln} bytes', coded[:p]) for p in sorted(set(pos))]
    if damage == 'flip':
        if big or ln > 64:
            pos = sorted({0, 3, 10, ln // 3, ln // 2, ln - 8, ln - 5, ln - 1} | {rng.randrange(ln) for _ in range(8)})
        else:
            pos = list(range(ln))
        cand = [(p, b) for p in pos for b in (0, 7)]
        if len(cand) > limit:
            cand = rng.sample(cand, limit)
        out = []
        for p, b in sorted(cand):
            x = bytearray(coded)
            x[p] ^= 1 << b
            out.append((f'bit {b} of byte {p}/{ln} flipped', bytes(x)))
        return out
    raise MachineryError(f'unknown damage class {damage}')


def conc_coding(ctx, case, idx, bodies, coded_cache):
    from sdc11073.httpserver.compression import CompressionHandler
    from sdc11073.httpserver.httpreader import mk_chunks
    enc, label, damage, framing, path = case['enc'], case['label'], case['damage'], case['framing'], case['path']
    interesting = label in ctx.registered and label.replace('x-', '') == enc.replace('x-', '')
    recs = []
    for bname, body in bodies.items():
        big = bname.endswith('_big')
        if big and (not interesting or damage not in ('none', 'trunc', 'flip') or path == 'get'):
            continue
        key = (enc, bname)
        if key not in coded_cache:
            coded_cache[key] = CompressionHandler.compress_payload(enc, body)
        coded = coded_cache[key]
        limit = 3 if big else (ctx.run.pick(10, 40) if interesting else 2)
        for descr, payload in damage_variants(ctx, damage, coded, body, big, limit):
            chunk = (65536 if big else (7, 512, 1)[idx % 3])
            framed = mk_chunks(payload, chunk) if framing == 'chunked' else payload
            fh = ('Transfer-Encoding', 'chunked') if framing == 'chunked' else ('Content-Length', str(len(payload)))
            hdrs = [('Content-Type', 'application/soap+xml; charset=utf-8'), ('Content-Encoding', label), fh]
            if path == 'request':
                s = H.serve(H.mk_request('POST', '/svc/x', hdrs, framed), [], 0, b'')
                if s.res == 'ok':
                    actual = 'reject' if s.delivered is None else ('same' if s.delivered == body else 'other')
                else:
                    actual = s.res
                    if s.exc:
                        ctx.exc('coding/request', s.exc)
            else:
                raw = H.mk_response(hdrs, framed)
                client = H.mk_sync_client(None, None, 0)
                H.attach(client, lambda _req, raw=raw: raw)
                res, val = H.sync_post(client, '/svc/x', b'<a/>') if path == 'response' else H.sync_get(client, '/x')
                actual = _outcome(res, val, body)
                if res == 'reject':
                    ctx.exc(f'coding/{path}', val)
            recs.append({'kind': 'coding', 'enc': enc, 'label': label, 'damage': damage, 'framing': framing,
                         'path': path, 'actual': actual, 'x': f'{bname} ({len(body)} bytes): {descr}',
                         'hex': payload.hex() if len(payload) <= 80 else ''})
    return recs


# ---- negotiation
Q_TEXT = {'zero': ['0', '0.0', '0.000', '0.'], 'half': ['0.5', '0.001', '0.9', '.5'], 'one': ['1', '1.0', '1.000', '1.']}
ENABLED = [[], ['gzip'], ['lz4'], ['gzip', 'lz4'], ['lz4', 'gzip'], ['gzip', 'x-lz4', 'lz4']]
N_STYLES = 4


MALFORMED_Q = ['abc', '', None, '1x', '1.0.0', '.', '0.5.5', '1..0', '1e0']   # None: the bare parameter name


def header_text(hdr: list[dict], style: int, salt: int = 0):
    """Concrete Accept-Encoding value for an abstract header; None = header absent."""
    if not hdr:
        return [None, '', ' ', ''][style]
    sep, semi, eq = [(',', ';', '='), (', ', '; ', '='), (' , ', ' ; ', ' = '), (',', ';', '=')][style]
    parts = []
    for e in hdr:
        tok = e['tok'].upper() if style == 3 and e['tok'] not in ('*',) else e['tok']
        q = e['q']
        if q == 'absent':
            parts.append(tok)
        elif q == 'malformed':
            bad = MALFORMED_Q[(style + salt) % len(MALFORMED_Q)]
            parts.append(tok + semi + ('q' if bad is None else 'q' + eq + bad))
        else:
            parts.append(tok + semi + 'q' + eq + Q_TEXT[q][style])
    return sep.join(parts)


def conc_nego(ctx, case, idx, body, reply):
    hdr = case['hdr']
    full = len(hdr) <= 2
    recs = []
    usable = [e for e in ENABLED if all(x in ctx.registered for x in e)]

    def rec(path, enabled, text, chosen, same):
        recs.append({'kind': 'nego', 'hdr': hdr, 'enabled': enabled, 'path': path, 'chosen': chosen, 'same': same,
                     'x': repr(text)})

    # the server answers a request that carries the header
    if full and not ctx.run.quick:
        combos = [(s, e) for s in range(N_STYLES) for e in usable]
    elif full:
        combos = [(s, e) for k, e in enumerate(usable) for s in ((idx + k) % N_STYLES, (idx + k + 2) % N_STYLES)]
    else:
        combos = [((idx + k) % N_STYLES, e) for k, e in enumerate(usable)]
    for style, enabled in combos:
        if style == 3 and not any(e['tok'] not in ('*',) for e in hdr):
            continue
        text = header_text(hdr, style, idx)
        hl = [('Content-Length', str(len(body)))] + ([('Accept-Encoding', text)] if text is not None else [])
        s = H.serve(H.mk_request('POST', '/svc/x', hl, body), list(enabled), (0, 5)[idx % 2], reply)
        res, val, rh = H.read_response(s.raw_response)
        rec('server', enabled, text, rh.get('content-encoding', 'none'), s.res == 'ok' and res == 'body' and val == reply)
    # the same, as SECOND request of a keep-alive connection whose first request accepted every coding the server offers:
    # what is acceptable is decided per request, not per connection
    for style, enabled in [c for c in combos if c[1]][:2]:
        if (style == 3 and not any(e['tok'] not in ('*',) for e in hdr)):
            continue
        text = header_text(hdr, style)
        first = H.mk_request('POST', '/svc/x', [('Content-Length', str(len(body))),
                                                 ('Accept-Encoding', ', '.join(enabled))], body)
        hl = [('Content-Length', str(len(body)))] + ([('Accept-Encoding', text)] if text is not None else [])
        s = H.serve(first + H.mk_request('POST', '/svc/x', hl, body), list(enabled), (0, 5)[idx % 2], reply)
        try:
            second = H.rest_after_first_response(s.raw_response)
        except Exception as ex:  # noqa: BLE001
            raise MachineryError(f'cannot split the responses of a keep-alive connection: {ex!r}') from ex
        res, val, rh = H.read_response(second)
        rec('server_keepalive', enabled, text, rh.get('content-encoding', 'none'),
            s.res == 'ok' and res == 'body' and val == reply)
    # the provider sends a notification to a subscriber that sent the header with its Subscribe request
    combos = [((idx + k) % N_STYLES, e) for k, e in enumerate(usable) if full or (idx + k) % 2 == 0 or not e]
    for style, enabled in combos:
        text = header_text(hdr, style)
        seen = {}

        def peer(raw, seen=seen):
            seen['s'] = H.serve(raw, ctx.registered, 0, b'')
            return seen['s'].raw_response

        client = H.notification_client(text, list(enabled), (3, 0)[idx % 2], False)
        H.attach(client, peer)
        res, _val = H.sync_post(client, '/notify', body)
        s = seen.get('s')
        chosen = 'none' if s is None or s.delivered_headers is None else s.delivered_headers.get('content-encoding', 'none')
        rec('notify_sync', enabled, text, chosen, res == 'body' and s is not None and s.delivered == body)
    if ctx.async_wire is not None:
        style, enabled = idx % N_STYLES, usable[-1 - (idx % 2)]
        text = header_text(hdr, style)
        client = H.notification_client(text, list(enabled), (0, 3)[idx % 2], True)
        client._netloc = ctx.async_wire.netloc  # noqa: SLF001  (the subscriber's address -> our capture server)
        res, raw = ctx.async_wire.post(client, '/notify', XML_PROLOG + body)
        if res == 'body':
            s = H.serve(raw, ctx.registered, 0, b'')
            chosen = 'none' if s.delivered_headers is None else s.delivered_headers.get('content-encoding', 'none')
            rec('notify_async', enabled, text, chosen, s.delivered == XML_PROLOG + body)
        else:
            ctx.exc('nego/async', raw)
            rec('notify_async', enabled, text, 'none', False)
    return recs


def session_reconfigured(ctx):
    """A running provider whose application changes the set of enabled codings (set_used_compression) while a consumer
    is connected and subscribed: what is 'enabled locally' is what was configured last.  Real provider and consumer on
    the full-stack transport (real SoapClient, real request handler); the http server of the provider shares the
    provider's list of codings, as the provider's own server does."""
    from decimal import Decimal
    from verif.pair import Pair
    recs = []
    hdr_of = lambda text: [{'tok': t.strip(), 'q': 'absent'} for t in text.split(',') if t.strip()]   # noqa: E731
    for after in ([], ['gzip'], [c for c in ctx.registered if c != 'gzip'][:1]):
        pair = Pair(transport='fullstack', role_provider='example')
        try:
            prov = pair.provider
            pair.pserver.supported_encodings = prov._compression_methods   # noqa: SLF001  (same list object as in real use)
            prov.set_used_compression(*after)
            pos = len(pair.net.log)
            pair.consumer.get_service_client.get_md_state([])
            with pair.mdib.metric_state_transaction() as mgr:
                mgr.get_state('numeric.ch0.vmd0').MetricValue.Value = Decimal(5)
            from verif.fullstack import parse_request
            for w in pair.net.log[pos:]:
                raw = getattr(w, 'raw', None)
                if raw is None:
                    continue
                _m, _p, req_hdr, _b = parse_request(raw)
                if w.src == 'consumer':     # response of the provider's server to a request of the consumer
                    rhead = getattr(w, 'raw_response', b'').split(b'\r\n\r\n')[0].decode('latin-1').lower()
                    chosen = 'none'
                    for line in rhead.split('\r\n'):
                        if line.startswith('content-encoding:'):
                            chosen = line.split(':', 1)[1].strip()
                    recs.append({'kind': 'nego', 'hdr': hdr_of(req_hdr.get('accept-encoding', '')), 'enabled': list(after),
                                 'path': 'reconfigured:response', 'chosen': chosen, 'same': (w.status or 0) == 200,
                                 'x': repr(req_hdr.get('accept-encoding'))})
                elif w.src == 'provider':   # notification: the subscriber declared its codings with the Subscribe request
                    sub_hdr = next((parse_request(x.raw)[2].get('accept-encoding', '') for x in pair.net.log
                                    if getattr(x, 'raw', None) and x.src == 'consumer' and b'Subscribe' in x.data), '')
                    recs.append({'kind': 'nego', 'hdr': hdr_of(sub_hdr), 'enabled': list(after),
                                 'path': 'reconfigured:notification', 'chosen': req_hdr.get('content-encoding', 'none'),
                                 'same': True, 'x': repr(sub_hdr)})
        finally:
            pair.stop()
    if not any(r['path'].endswith('response') for r in recs) or not any(r['path'].endswith('notification') for r in recs):
        raise MachineryError('reconfigured session: no response / notification observed')
    return recs


def conc_big(ctx, case):
    from sdc11073.httpserver.httpreader import mk_chunks
    n, c, pat = case['n'], case['c'], case['pat']
    body = H.pattern_body(n, pat)
    stream = mk_chunks(body, c)
    ok, parsed, used, _cnt = H.py_parse_chunked(stream)
    recs = [{'kind': 'big', 'what': 'mk_chunks', 'n': n, 'c': c, 'pat': pat, 'res': 'ok',
             'valid': bool(ok and used == len(stream)), 'same': parsed == body, 'framed': len(stream),
             'is_reference_len': len(stream) == case['framed']}]
    res, val = H.dechunk_direct(stream)
    recs.append({'kind': 'big', 'what': '_read_dechunk', 'n': n, 'c': c, 'pat': pat, 'res': res, 'valid': True,
                 'same': res == 'body' and val == body})
    res, val, _ = H.read_response(H.mk_response([('Transfer-Encoding', 'chunked')], stream))
    recs.append({'kind': 'big', 'what': 'read_response_body', 'n': n, 'c': c, 'pat': pat, 'res': res, 'valid': True,
                 'same': res == 'body' and val == body})
    if c >= 64:
        for coding in ['none', *ctx.registered]:
            r = _exchange(ctx, body, body[::-1], coding, c, 'sync', {'n': n, 'c': c, 'pat': pat})
            pv = r['req_pyvalid'] and r['resp_pyvalid']
            recs.append({'kind': 'big', 'what': f'exchange/{coding}', 'n': n, 'c': c, 'pat': pat, 'res': r['res'],
                         'valid': pv and not (r['req_te'] and r['req_cl']) and not (r['resp_te'] and r['resp_cl']),
                         'same': r['delivered'] == 'same' and r['returned'] == 'same'})
    return recs


# --------------------------------------------------------------------------------------------- async wire capture
class AsyncWire:
    """In-process TCP server that captures the bytes a real aiohttp session puts on the wire."""

    def __init__(self):
        import asyncio
        self.captured = None
        self.server = H.run_coro(asyncio.start_server(self._handle, '127.0.0.1', 0))
        self.netloc = '127.0.0.1:%d' % self.server.sockets[0].getsockname()[1]

    async def _handle(self, reader, writer):
        buf = b''
        while True:
            part = await reader.read(1 << 20)
            if not part:
                break
            buf += part
            if b'\r\n\r\n' not in buf:
                continue
            hdr, rest = H.split_head(buf)
            if 'chunked' in hdr.get('transfer-encoding', '').lower():
                if H.py_parse_chunked(rest)[0]:
                    break
            elif len(rest) >= int(hdr.get('content-length', '0')):
                break
        self.captured = buf
        writer.write(b'HTTP/1.1 200 OK\r\nContent-Length: 0\r\n\r\n')
        await writer.drain()
        writer.close()

    def post(self, client, path, body):
        """-> ('body', raw request bytes) | ('reject', exception name)."""
        msg = types.SimpleNamespace(p_msg=None, serialize=lambda request_manipulator=None: body)  # noqa: ARG005
        self.captured = None

        async def go():
            try:
                await client.async_post_message_to(path, msg)
            finally:
                await client.async_close()

        res, val = H.guarded(lambda: H.run_coro(go()))
        if res != 'body':
            return res, val
        if self.captured is None:
            return 'reject', 'nothing_captured'
        return 'body', self.captured

    def close(self):
        self.server.close()
        H.run_coro(self.server.wait_closed())
        H.close_loop()


# --------------------------------------------------------------------------------------------- verdicts
def _size_key(rec):
    for k in ('stream', 'x', 'req_stream'):
        if k in rec:
            return len(rec[k])
    return 0


def _descr_and_what(rec, clause):
    head, _, cls = clause.partition(':')
    kind = rec['kind']
    if kind == 'dechunk':
        reader = 'http.client' if rec['via'] == 'response' else 'sdc11073'
        return ({'check': 'dechunk', 'clause': head, 'class': cls or 'valid', 'reader': reader},
                f'de-chunking ({rec["via"]}) of {bytes(rec["stream"])!r}: result {rec["res"]} '
                f'{bytes(rec["body"])!r} violates {clause}')
    if kind == 'mkchunks':
        return ({'check': 'mkchunks', 'clause': head},
                f'mk_chunks(Body({rec["n"]},{rec["pat"]}), {rec["c"]}) violates {clause}')
    if kind == 'exchange':
        return ({'check': 'exchange', 'clause': head, 'client': rec['client']},
                f'{rec["client"]} client, body n={rec["n"]} pattern={rec["pat"]}, chunk_size={rec["chunk"]}, '
                f'coding={rec["coding"]}: {clause} (res={rec["res"]}, delivered={rec["delivered"]}, '
                f'returned={rec["returned"]}, request TE/CL={rec["req_te"]}/{rec["req_cl"]})')
    if kind == 'coding':
        fam = 'lz4' if 'lz4' in rec['enc'] else rec['enc']
        parts = clause.split(':')
        return ({'check': 'coding', 'clause': 'corrupt_or_unsupported_rejected' if rec['damage'] != 'none' or
                 parts[2] == 'reject' else 'lossless', 'damage': rec['damage'], 'expected': parts[2],
                 'actual': rec['actual'], 'family': fam},
                f'{rec["path"]} path, body coded with {rec["enc"]}, Content-Encoding: {rec["label"]}, '
                f'{rec["framing"]} framing, {rec["x"]}: outcome {rec["actual"]}, expected {parts[2]}')
    if kind == 'nego':
        return ({'check': 'nego', 'clause': head, 'class': cls, 'path': rec['path']},
                f'{rec["path"]}: Accept-Encoding {rec["x"]} with locally enabled {rec["enabled"]}: '
                f'coding sent = {rec["chosen"]}, round trip ok = {rec["same"]}; violates {clause}')
    if kind == 'big':
        return ({'check': 'big', 'clause': head, 'what': rec['what']},
                f'{rec["what"]} n={rec["n"]} c={rec["c"]} pattern={rec["pat"]}: {clause} fails (res={rec["res"]})')
    raise MachineryError(f'no verdict mapping for record kind {kind}')


def _validate(run, name, traces, registered, chunk):
    """TLC judges the traces of one part; returns (trace, record, clause) of every failing clause."""
    sub = types.SimpleNamespace(tmp=os.path.join(run.tmp, name), tlc=[], traces_validated=0)
    os.makedirs(sub.tmp, exist_ok=True)
    rejects = tracecheck.validate(sub, 'HttpFramingTrace', 'HttpFramingTrace.cfg', traces,
                                  extra={'registered': registered}, chunk=chunk, timeout=1700)
    return sub, rejects


def check(run, replay_path=None):  # noqa: ARG001
    try:
        _check(run)
    finally:
        for name in os.listdir(SPEC_DIR):
            if name.startswith('_gen_c17_'):
                os.remove(os.path.join(SPEC_DIR, name))


def _check(run):  # noqa: C901, PLR0912, PLR0915
    import sdc11073.definitions_sdc  # noqa: F401
    from sdc11073.httpserver.compression import CompressionHandler
    registered = list(CompressionHandler.available_encodings)
    consts = _consts(run, registered)
    run.note('registered_codings', registered)
    run.note('model_constants', {k: v for k, v in consts.items() if k != 'Registered'})

    # 1. the model: laws on every enumerated case, reader machine (safety + liveness); TLC emits the cases
    parts = ['chunk', 'mutant', 'short', 'coding', 'nego', 'big']
    misc = ['mutant', 'short', 'coding', 'big']   # quick tier: one TLC run for the small domains (fewer JVM starts)
    emit_parts = ['chunk', 'nego', 'misc'] if run.quick else parts
    reader_doms = ['both'] if run.quick else ['short', 'mutant']
    with ThreadPoolExecutor(max_workers=8) as pool:
        futs = {p: pool.submit(_emit, run, consts, p) for p in emit_parts}
        rfuts = {d: pool.submit(_reader_mc, run, consts, d) for d in reader_doms}
        cov = pool.submit(_reader_mc, run, consts, 'tiny', True)
        cases = {}
        for p in emit_parts:
            res, cs = futs[p].result()
            run.add_tlc(res)
            if p == 'misc':
                for m in misc:
                    cases[m] = [c for c in cs if c['kind'] == m]
            else:
                cases[p] = cs
        for f in rfuts.values():
            run.add_tlc(f.result())
        run.add_tlc(cov.result(), ['ReadSizeByte', 'ReadData', 'ReadCrLf'])
    if any(not cases[p] for p in parts):
        raise MachineryError(f'empty domain: { {p: len(cases[p]) for p in parts} }')
    run.note('cases', {p: len(c) for p, c in cases.items()})
    run.note('exhaustive', True)

    # 2. spec -> code: concretise every case on the real code
    import time
    t_model = time.time() - run.t0
    ctx = Ctx(run, registered)
    try:
        ctx.async_wire = AsyncWire()
    except OSError as ex:
        run.assumptions.append(f'no loop-back TCP socket available ({ex}): SoapClientAsync wire capture skipped')
    traces = {}
    try:
        t_conc = {}
        tt = time.time()
        traces['chunk'] = [conc_chunk(ctx, c, i) for i, c in enumerate(cases['chunk'])]
        t_conc['chunk'], tt = round(time.time() - tt, 1), time.time()
        traces['mutant'] = [conc_stream(ctx, c, i) for i, c in enumerate(cases['mutant'])]
        t_conc['mutant'], tt = round(time.time() - tt, 1), time.time()
        traces['short'] = [conc_stream(ctx, c, i) for i, c in enumerate(cases['short'])]
        t_conc['short'], tt = round(time.time() - tt, 1), time.time()
        bodies, cache = coding_bodies(ctx), {}
        traces['coding'] = [conc_coding(ctx, c, i, bodies, cache) for i, c in enumerate(cases['coding'])]
        t_conc['coding'], tt = round(time.time() - tt, 1), time.time()
        nbody = _xmlish(400, random.Random(run.seed + 2))
        traces['nego'] = [conc_nego(ctx, c, i, nbody, nbody[::-1]) for i, c in enumerate(cases['nego'])]
        traces['nego'].append(session_reconfigured(ctx))
        t_conc['nego'], tt = round(time.time() - tt, 1), time.time()
        traces['big'] = [conc_big(ctx, c) for c in cases['big']]
        t_conc['big'] = round(time.time() - tt, 1)
        run.note('wall_s_model_phase', round(t_model, 1))
        run.note('wall_s_real_calls', t_conc)
    finally:
        if ctx.async_wire is not None:
            ctx.async_wire.close()
    for p in parts:
        if any(not t for t in traces[p]):
            # a case without a single real call would silently shrink the domain
            empty = sum(1 for t in traces[p] if not t)
            if p != 'coding':
                raise MachineryError(f'part {p}: {empty} cases were not concretised')
            run.note('coding_cases_without_variant', empty)
            traces[p] = [t for t in traces[p] if t]
    run.evaluations = sum(len(t) for p in parts for t in traces[p])
    run.note('real_calls_judged', {p: sum(len(t) for t in traces[p]) for p in parts})
    run.note('exceptions_seen_as_rejection', dict(sorted(ctx.exc_kinds.items())))
    for rec in traces['big'][0][:1] + traces['nego'][len(traces['nego']) // 2][:1]:
        run.sample({k: v for k, v in rec.items() if k not in ('stream',)})

    # 3. code -> spec: TLC judges every recorded call
    slice_of = {'chunk': 400, 'mutant': 100000, 'short': 50000, 'coding': 100000, 'nego': 4000, 'big': 1000}
    if run.quick:
        jobs = [[('chunk', i) for i in range(len(traces['chunk']))], [('nego', i) for i in range(len(traces['nego']))],
                [(p, i) for p in misc for i in range(len(traces[p]))]]
    else:
        jobs = [[(p, i) for i in range(off, min(off + slice_of[p], len(traces[p])))]
                for p in parts for off in range(0, len(traces[p]), slice_of[p])]
    with ThreadPoolExecutor(max_workers=6) as pool:
        futs = [pool.submit(_validate, run, f'job{j}', [traces[p][i] for p, i in refs], registered, len(refs))
                for j, refs in enumerate(jobs)]
        results = [f.result() for f in futs]
    found = []
    for refs, (sub, rejects) in zip(jobs, results):
        run.tlc += sub.tlc
        run.traces_validated += sub.traces_validated
        for ti, li, clause in rejects:
            p, i = refs[ti]
            rec = traces[p][i][li]
            if clause == 'harness_parser_agrees':
                raise MachineryError(f'python mirror py_parse_chunked disagrees with HttpFraming!Parse on {rec}')
            found.append((_size_key(rec), p, i, li, clause))
    found.sort(key=lambda f: (f[0], f[1], f[2], f[3]))
    for _sz, p, ti, li, clause in found:
        rec = traces[p][ti][li]
        descr, what = _descr_and_what(rec, clause)
        replay = {'part': p, 'abstract_case': cases[p][ti] if p != 'coding' and ti < len(cases[p]) else None, 'record': rec, 'clause': clause}
        run.violation(descr, what, replay)

    # 4. vacuity
    for p in parts:
        for t in traces[p]:
            for rec in t:
                k = rec['kind']
                if k == 'dechunk':
                    run.distinct_traces.add((k, rec['via'], rec['res'], len(rec['stream'])))
                elif k == 'nego':
                    run.distinct_traces.add((k, rec['path'], rec['chosen'], tuple(rec['enabled']), len(rec['hdr'])))
                elif k == 'coding':
                    run.distinct_traces.add((k, rec['enc'], rec['label'], rec['damage'], rec['path'], rec['actual']))
                elif k == 'exchange':
                    run.distinct_traces.add((k, rec['client'], rec['coding'], rec['chunk'], rec['n']))
                else:
                    run.distinct_traces.add((k, rec['n'], rec['c']))
    outcomes = {}
    for p in ('chunk', 'mutant', 'short'):
        for t in traces[p]:
            for rec in t:
                if rec['kind'] == 'dechunk':
                    key = f'{rec["via"]}:{rec["res"]}'
                    outcomes[key] = outcomes.get(key, 0) + 1
    run.note('dechunk_outcomes', outcomes)
    chosen = {}
    for t in traces['nego']:
        for rec in t:
            key = f'{rec["path"]}:{rec["chosen"]}'
            chosen[key] = chosen.get(key, 0) + 1
    run.note('negotiated_codings', chosen)
    if not any(k.endswith(':gzip') for k in chosen) or 'direct:body' not in outcomes or 'direct:reject' not in outcomes:
        raise MachineryError('vacuous run: no coding ever negotiated or no stream ever decoded / rejected')
    run.assumptions += [
        'chunk trailers (fields after the last chunk) are not produced by the code under test and not enumerated',
        'chunk-size lines stay below the 16 byte limit of HTTPReader._read_until (sizes < 16^6, extension ";a=1")',
        'sloppy size spellings with one sensible reading (surrounding white space, "0x" prefix, "-0") and a stream that '
        'ends inside the terminator after the last "0" may be rejected or read in that sense',
        'an Accept-Encoding entry with a malformed q value may be read either way; duplicates: any listed q counts',
        'no Accept-Encoding header / an empty one: nothing was declared acceptable, so only "no coding" is allowed',
        'a coding that is registered but disabled in the local configuration may still be DEcoded (no misinterpretation)',
        'bit flips and trailing bytes: returning the original body is accepted (the damage hit insignificant bits)',
        'Content-Length framing is driven with well-formed values only (malformed Content-Length belongs to C13)',
        'mk_chunks is quadratic in len/chunk_size: chunk size 1 is driven up to 256 KiB, 4 MiB with chunk sizes >= 512',
        'SoapClientAsync: request direction only (the response is read by aiohttp, not by sdc11073 code)',
    ]
