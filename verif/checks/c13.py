"""C13 - request handling is total: any input gets a response; no hang, crash or XXE.

spec:    specs/Pipeline.tla       pipeline state machine Read -> Decode -> Route -> Parse -> Validate -> Dispatch ->
                                  Handle -> Respond over a finite product of abstract input classes (path, framing,
                                  content coding, XML form incl. DOCTYPE / entities, envelope structure, request type);
                                  TLC checks Total (termination under weak fairness), Outcome, RejectIsNoop, the
                                  never-set flags (escape, spin, unbounded read, entity expansion, external fetch) and
                                  that the operational pipeline agrees with the functional definition AllowedKinds.
         specs/PipelineTrace.tla  maps the recorded final state of the real code onto the variables of Pipeline and
                                  evaluates the same state predicates on it.

binding: spec -> code: TLC (EmitSpec) prints every abstract request of the domain; verif/c13_helpers.py concretises
           each into bytes (1-3 concretisations) and feeds it
             (a) to the real DispatchingRequestHandler constructed on an in-memory connection (read side counts calls
                 and raises a watchdog exception after 40 reads at EOF: a spin is observed, never suffered) whose
                 server object carries the real PathElementRegistry of a real provider / consumer (verif.pair), and
             (b) to MessageConverterMiddleware.do_post of the real provider and the real consumer event sink
                 (consumer with the synchronous RequestDispatcher and, for odd concretisation numbers, with its
                 default DispatchKeyRegistryDeferred),
           each in a thread with a hard timeout, under a socket guard and an lxml resolver spy.
           quick: the model is checked for one request type per class of request types, 2000 abstract requests
           (stratified sample, one concretisation each) are executed; thorough: all request types are model-checked,
           every abstract request is executed with three concretisations (in worker processes, one real
           provider/consumer pair per process).
         code -> spec: status, body class (proper response / well-formed SOAP fault / empty / text), escaped exception,
           spin, unbounded read, entity text in a parsed value, resolver / socket use, MDIB + subscription table
           projection before/after are judged by TLC (PipelineTrace).
         Computed in python: the body class of the response (XML parsing) and the comparison of the projections.
"""
from __future__ import annotations

import base64
import json
import os
import random
import time
import multiprocessing
from concurrent.futures import ProcessPoolExecutor, ThreadPoolExecutor

from verif import c13_helpers as H
from verif import tracecheck
from verif.tlc import SPEC_DIR, MachineryError, json_lines, printed_values, run_tlc

ACTIONS = ['ReadTok', 'Decode', 'Route', 'Parse', 'Validate', 'Dispatch', 'Handle', 'Respond']
INVARIANTS = ['TypeOK', 'ReadProgress', 'Outcome', 'FoldAgrees', 'NoEscape', 'NoSpin', 'BoundedRead', 'NoExpansion',
              'NoFetch', 'RejectIsNoop', 'ValidatedFirst', 'HandledOnlyIfAdmissible', 'AcceptOnlyHandled']
FIELDS = ('via', 'method', 'target', 'path', 'framing', 'coding', 'xml', 'envelope')
TLC_FIELDS = ('status', 'body', 'escaped', 'spin', 'timeout', 'unbounded_read', 'expanded', 'resolver_calls',
              'socket_attempts', 'state_same', 'handled', 'validated', 'extra_response')


# --------------------------------------------------------------------------------------------- TLC side
def _set(names):
    return '{' + ', '.join(f'"{n}"' for n in sorted(names)) + '}'


def _constants(templates, targets):
    tp = [t for t in targets if t in H.PROVIDER_TARGETS]
    tc = [t for t in targets if t in H.CONSUMER_TARGETS]
    tg = [t for t in targets if t in H.GET_TARGETS]
    post = tp + tc
    return {
        'ProviderTargets': _set(tp), 'ConsumerTargets': _set(tc), 'GetTargets': _set(tg),
        'NumTargets': _set(t for t in post if templates[t].has_number),
        'ReqTargets': _set(t for t in post if templates[t].has_required),
        'EmptyBodyTargets': _set(t for t in post if templates[t].empty_body),
        'UnimplTargets': _set(t for t in post if not templates[t].implemented),
        'MutatingTargets': _set(t for t in targets if t in H.MUTATING),
    }


def _write_cfg(name, spec, consts, tail=''):
    txt = f'SPECIFICATION {spec}\nCONSTANTS\n' + ''.join(f'  {k} = {v}\n' for k, v in consts.items()) + tail
    with open(os.path.join(SPEC_DIR, name), 'w') as f:
        f.write(txt)
    return name


def _class_vector(tpl):
    return (tpl.endpoint, tpl.method, tpl.has_number, tpl.has_required, tpl.empty_body, tpl.implemented,
            tpl.target in H.MUTATING)


def _representatives(templates):
    """One request type per combination of the properties the model distinguishes."""
    seen = {}
    for name, tpl in templates.items():
        seen.setdefault(_class_vector(tpl), name)
    return sorted(seen.values())


# --------------------------------------------------------------------------------------------- execution
_WORKER = {}


def _worker_init():
    ex = H.Executor()
    templates = H.capture_templates(ex.sysm)
    ex.baseline(templates)
    _WORKER['ex'] = ex
    _WORKER['templates'] = templates


def _run_batch(args):
    batch, seed = args
    if 'ex' not in _WORKER:
        _worker_init()
    ex, templates = _WORKER['ex'], _WORKER['templates']
    out = []
    for idx, case, v in batch:
        tpl = templates[case['target']]
        conc = H.concretise(tpl, case, v, seed)
        out.append((idx, v, ex.execute(tpl, case, conc, v)))
    return out, ex.rebuilds


def _batches(jobs, size):
    """Jobs of one request type stay together (system state), split into batches of `size`."""
    by_target = {}
    for j in jobs:
        by_target.setdefault(j[1]['target'], []).append(j)
    out = []
    for _t, js in sorted(by_target.items()):
        for i in range(0, len(js), size):
            out.append(js[i:i + size])
    return out


BENIGN = {'method': 'POST', 'path': 'valid', 'framing': 'cl_exact', 'coding': 'none', 'xml': 'wf', 'envelope': 'valid'}


def _keys(r):
    """Cover keys of one abstract request.  A pair (request type, envelope class) / (request type, XML class) counts
    only for a request whose OTHER dimensions are all benign - otherwise the request dies in an earlier stage and the
    pair was never really exercised."""
    keys = {(r['via'], f, r[f]) for f in FIELDS} | {('fc', r['framing'], r['coding']), ('mp', r['method'], r['path'])}
    if all(r[f] == v for f, v in BENIGN.items() if f != 'envelope') and not r.get('lenient'):
        keys.add(('te', r['via'], r['target'], r['envelope']))
    if all(r[f] == v for f, v in BENIGN.items() if f != 'xml'):
        keys.add(('tx', r['target'], r['xml']))
    return keys


def _sample(cases, n, rng):
    """Stratified sample: every value of every class field, every request type x envelope class (through both entry
    points) and x XML class with everything else benign, then random."""
    order = list(range(len(cases)))
    rng.shuffle(order)
    need = set()
    for c in cases:
        need |= _keys(c['req'])
    chosen = []
    rest = []
    for i in order:
        keys = _keys(cases[i]['req'])
        if keys & need:
            need -= keys
            chosen.append(i)
        else:
            rest.append(i)
    chosen += rest[:max(0, n - len(chosen))]
    return [cases[i] for i in sorted(chosen)]


def _culprit(req, clause, stage, actual):
    """The input class to name in the description of a violation (labelling only; the verdict is TLC's).

    By the place where an escaped exception came from, by clause, else by the deciding stage of the model.
    """
    post = req['method'] == 'POST'
    wire = req['via'] == 'handler' and post
    where = actual.get('where', '')
    if clause == 'NoEscape' and wire:
        if where.startswith('compression.') or actual['escaped'] == 'DecompressError':
            if req['coding'] in ('none', 'supported'):   # a sound coding spoilt by the framing (cut / no body)
                return 'framing', req['framing']
            return 'coding', req['coding']
        if where in ('httpreader._read_dechunk', 'httpreader._read_until', 'httpreader.read_request_body'):
            return 'framing', req['framing']
    if clause == 'NoEscape' and where in ('httprequesthandler.get_first_path_element',
                                          'pathelementregistry.get_instance', 'httprequesthandler.do_GET'):
        return 'path', req['path']
    if clause in ('NoExpansion', 'NoFetch') and req['xml'] not in ('wf', 'na'):
        return 'xml', req['xml']
    if clause in ('Total', 'BoundedRead') and wire and req['framing'] not in ('cl_exact', 'chunked_ok'):
        return 'framing', req['framing']
    if stage == 'Read':
        return 'framing', req['framing']
    if stage == 'Decode':
        return ('coding', req['coding']) if req['coding'] not in ('none', 'supported') else ('framing', req['framing'])
    if stage == 'Route':
        return 'path', req['path']
    if stage == 'Parse':
        return ('xml', req['xml']) if req['xml'] != 'wf' else ('framing', req['framing'])
    if stage in ('Validate', 'Dispatch', 'Handle'):
        if post and req['envelope'] != 'valid':
            return 'envelope', req['envelope']
        if req['path'] != 'valid':
            return 'path', req['path']
        if wire and req['framing'] not in ('cl_exact', 'chunked_ok'):
            return 'framing', req['framing']
        return 'target', req['target']
    return 'none', 'valid'


NEUTRAL = {'path': ('valid',), 'framing': ('cl_exact', 'na'), 'coding': ('none', 'na'), 'xml': ('wf', 'na'),
           'envelope': ('valid', 'na')}


def _single_fault_stats(chosen, results):
    """Outcome kinds of the requests that deviate from the valid request in exactly one class."""
    stats = {}
    for (idx, _v, actual) in results:
        req = chosen[idx]['req']
        off = [f for f, ok in NEUTRAL.items() if req[f] not in ok]
        if len(off) > 1:
            continue
        key = f'{req["via"]}/{req["method"]}:' + (f'{off[0]}={req[off[0]]}' if off else 'valid')
        kind = ('escape:' + actual['escaped'] if actual['escaped'] != 'none' else
                'spin' if actual['spin'] or actual['timeout'] else f'{actual["status"]}/{actual["body"]}')
        d = stats.setdefault(key, {})
        d[kind] = d.get(kind, 0) + 1
    return {k: dict(sorted(v.items())) for k, v in sorted(stats.items())}


def _replay_obj(templates, case, v, seed, actual):
    tpl = templates[case['target']]
    conc = H.concretise(tpl, case, v, seed)
    return {'case': case, 'variant': v, 'seed': seed, 'endpoint': tpl.endpoint, 'method': conc.method,
            'path': conc.path, 'headers': conc.headers,
            'raw_request_b64': base64.b64encode(conc.raw).decode(),
            'xml_b64': base64.b64encode(conc.xml).decode(), 'actual': actual,
            'how': 'handler: feed raw_request to DispatchingRequestHandler(FakeSock(raw), addr, server) with '
                   'server.dispatcher = the PathElementRegistry of a verif.pair.Pair; dopost: '
                   'MessageConverterMiddleware.do_post(headers, path, peer, xml)'}


def _judge(run, templates, chosen, results):
    """code -> spec: TLC (PipelineTrace) judges the recorded final states; violations go to run.violation."""
    all_targets = H.PROVIDER_TARGETS + H.CONSUMER_TARGETS + H.GET_TARGETS
    traces = []
    for idx, _v, actual in results:
        rec = {'case': chosen[idx]['req'], 'actual': {k: actual[k] for k in TLC_FIELDS}}
        traces.append([rec])
    consts = dict(_constants(templates, all_targets), Part='"trace"', EmitOnly='FALSE')
    cfg = _write_cfg('_gen_c13_trace.cfg', 'TraceSpec', consts, 'POSTCONDITION AllConsumed\n')
    n_tlc = len(run.tlc)
    chunk = run.pick(4000, 12000)
    rejects = tracecheck.validate(run, 'PipelineTrace', cfg, traces, chunk=chunk, timeout=1500)
    notes, note_examples = {}, {}
    for k, r in enumerate(run.tlc[n_tlc:]):
        for val in printed_values(r.stdout, 'NOTE'):
            notes[val[3]] = notes.get(val[3], 0) + 1
            idx, v, actual = results[k * chunk + val[1] - 1]
            note_examples.setdefault(val[3], {'case': chosen[idx]['req'], 'variant': v,
                                              'status': actual['status'], 'body': actual['body']})
    run.note('informational_clauses_not_holding', notes)
    run.note('informational_examples', note_examples)
    def simplicity(rj):   # report each kind of violation with the request that deviates least from a valid one
        req = chosen[results[rj[0]][0]]['req']
        return (sum(1 for f, ok in NEUTRAL.items() if req[f] not in ok), rj[0])

    for (ti, _li, clause_stage) in sorted(tracecheck.first_rejects(rejects), key=simplicity):
        idx, v, actual = results[ti]
        req = chosen[idx]['req']
        clause, _, stage = clause_stage.partition('@')
        field, cls = _culprit(req, clause, stage, actual)
        endpoint = templates[req['target']].endpoint
        descr = {'check': 'pipeline', 'clause': clause, 'method': req['method'], 'field': field, 'class': cls}
        if field not in ('xml', 'envelope'):
            descr['via'] = req['via']         # parsing / validation / dispatch are the same code for both entries
        if clause == 'NoEscape':
            descr['exc'] = actual['escaped']
            descr['where'] = actual['where']
        if clause in ('Outcome', 'OutcomeAllowed'):
            descr['got'] = f'{actual["status"] // 100}xx/{actual["body"]}'
            descr['allowed'] = '|'.join(sorted(chosen[idx]['allowed']))
        if field in ('envelope', 'target', 'none') or \
                (field == 'path' and cls in ('valid', 'unknown_service', 'extra_segments')):
            descr['endpoint'] = endpoint      # behind the HTTP handler the two endpoints run different code
        if field in ('envelope', 'target', 'none') or clause == 'RejectIsNoop':
            descr['target'] = req['target']
        what = (f'{req["via"]} {endpoint} {req["target"]}: {field}={cls} -> clause {clause} fails: status='
                f'{actual["status"]} body={actual["body"]} escaped={actual["escaped"]} at {actual["where"]} '
                f'spin={actual["spin"]} timeout={actual["timeout"]} unbounded_read={actual["unbounded_read"]} '
                f'expanded={actual["expanded"]} state_same={actual["state_same"]} ({actual["detail"][:160]})')
        run.violation(descr, what, _replay_obj(templates, req, v, run.seed, actual))
    return rejects


def _replay(run, replay_path):
    """Re-run the concretisation stored in a replay file and let TLC judge it again."""
    with open(replay_path) as f:
        obj = json.load(f)['replay']
    ex = H.Executor()
    try:
        templates = H.capture_templates(ex.sysm)
        ex.baseline(templates)
        case, v = obj['case'], obj['variant']
        tpl = templates[case['target']]
        conc = H.concretise(tpl, case, v, obj['seed'])
        actual = ex.execute(tpl, case, conc, v)
    finally:
        ex.close()
    print('REPLAY', json.dumps({'case': case, 'variant': v, 'actual': actual}, indent=1))
    run.seed = obj['seed']
    consts = dict(_constants(templates, [case['target']]), Part='"all"', EmitOnly='TRUE')
    cfg = _write_cfg('_gen_c13_emit.cfg', 'EmitSpec', consts)
    res = run_tlc('Pipeline', cfg, workers=1, timeout=600)
    run.add_tlc(res)
    allowed = [c['allowed'] for c in json_lines(res.stdout, 'CASE') if c['req'] == case]
    chosen = [{'req': case, 'allowed': allowed[0] if allowed else []}]
    _judge(run, templates, chosen, [(0, v, actual)])
    run.evaluations += 1
    _cleanup()


def _cleanup():
    for name in os.listdir(SPEC_DIR):
        if name.startswith('_gen_c13_'):
            os.remove(os.path.join(SPEC_DIR, name))


def check(run, replay_path=None):
    t_start = time.time()
    if replay_path:
        _replay(run, replay_path)
        return
    # ---- 0. the real system, one valid request per request type, baseline responses
    ex = H.Executor()
    try:
        templates = H.capture_templates(ex.sysm)
        ex.baseline(templates)
        all_targets = H.PROVIDER_TARGETS + H.CONSUMER_TARGETS + H.GET_TARGETS
        unimpl = [t for t in all_targets if not templates[t].implemented]
        run.note('request_types', {'provider': len(H.PROVIDER_TARGETS), 'consumer': len(H.CONSUMER_TARGETS),
                                   'get': len(H.GET_TARGETS), 'not_implemented_by_provider': unimpl})

        # ---- 1. design: model-check the pipeline (liveness + invariants); runs while the requests are executed
        mc_targets = run.pick(_representatives(templates), all_targets)
        inv = ''.join(f'INVARIANT {i}\n' for i in INVARIANTS) + 'PROPERTY Total\n'
        consts = dict(_constants(templates, mc_targets), Part='"all"', EmitOnly='FALSE')
        mc_cfg = _write_cfg('_gen_c13_mc.cfg', 'Spec', consts, inv)
        mc_pool = ThreadPoolExecutor(max_workers=1)
        mc_future = mc_pool.submit(run_tlc, 'Pipeline', mc_cfg, workers=1, coverage=True, timeout=1500)
        run.note('model_checked_request_types', len(mc_targets))

        # ---- 2. spec -> code: enumerate the abstract requests
        consts = dict(_constants(templates, all_targets), Part='"all"', EmitOnly='TRUE')
        cfg = _write_cfg('_gen_c13_emit.cfg', 'EmitSpec', consts)
        res = run_tlc('Pipeline', cfg, workers=1, timeout=1500)
        cases = json_lines(res.stdout, 'CASE')
        if not cases or len(cases) != res.distinct:
            raise MachineryError(f'TLC enumerated {res.distinct} requests but printed {len(cases)}')
        run.add_tlc(res)
        run.note('abstract_requests', len(cases))
        rng = random.Random(run.seed)
        chosen = cases if not run.quick else _sample(cases, 2000, rng)
        jobs = []
        for idx, c in enumerate(chosen):
            variants = (rng.randrange(3),) if run.quick else (0, 1, 2)
            for v in variants:
                jobs.append((idx, c['req'], v))
        run.note('concretisations', len(jobs))

        # ---- 3. run them on the real code
        results = []
        nproc = run.pick(4, min(10, max(1, (os.cpu_count() or 2) - 2)))
        rebuilds = 0
        if nproc > 1 and len(jobs) > 1500:
            ex.close()
            ex = None
            batches = _batches(jobs, run.pick(150, 400))
            batches.sort(key=len, reverse=True)
            ctx = multiprocessing.get_context('spawn')
            with ProcessPoolExecutor(max_workers=nproc, mp_context=ctx) as pool:
                for out, rb in pool.map(_run_batch, [(b, run.seed) for b in batches]):
                    results += out
                    rebuilds = max(rebuilds, rb)
        else:
            _WORKER['ex'], _WORKER['templates'] = ex, templates
            for b in _batches(jobs, 1000):
                out, rebuilds = _run_batch((b, run.seed))
                results += out
        run.note('system_rebuilds_max_per_worker', rebuilds)
        run.evaluations += len(results)
    finally:
        if ex is not None:
            ex.close()
        _WORKER.clear()

    run.add_tlc(mc_future.result(), ACTIONS)     # a counterexample of the model alone is a machinery failure
    mc_pool.shutdown()

    # ---- 4. code -> spec: TLC judges the recorded final states
    results.sort(key=lambda r: (r[0], r[1]))
    _judge(run, templates, chosen, results)

    # ---- 5. verdicts, statistics
    outcome_stats = {}
    for (idx, v, actual) in results:
        req = chosen[idx]['req']
        kind = ('proper' if actual['body'] == 'proper' and 200 <= actual['status'] < 300 else
                'fault' if actual['body'] == 'fault' else
                'escape' if actual['escaped'] != 'none' else
                'spin' if actual['spin'] or actual['timeout'] else
                f'{actual["status"]}/{actual["body"]}')
        key = f'{req["via"]}:{kind}'
        outcome_stats[key] = outcome_stats.get(key, 0) + 1
        run.distinct_traces.add((tuple(req[f] for f in FIELDS), kind))
    run.note('outcomes', dict(sorted(outcome_stats.items())))
    run.note('outcomes_of_single_fault_requests', _single_fault_stats(chosen, results))
    # samples: one accepted, one faulted, one HTTP-level request
    for want in ('proper', 'fault'):
        for (idx, v, actual) in results:
            if actual['body'] == want:
                run.sample({'case': chosen[idx]['req'], 'variant': v,
                            'actual': {k: actual[k] for k in TLC_FIELDS}})
                break
    dispatch = {}
    for (_idx, _v, actual) in results:
        dispatch[actual['dispatch']] = dispatch.get(actual['dispatch'], 0) + 1
    run.note('consumer_dispatch_variants', dispatch)
    _cleanup()
    run.note('wall_execution_s', round(time.time() - t_start, 1))
    run.assumptions += [
        'arbitrary bytes are represented by the enumerated classes only (no byte-level fuzzing)',
        'only the first response on a connection is judged; bytes left over after a short Content-Length are not '
        'followed as a second request',
        'a rejection decided before any SOAP envelope is read (framing, content coding, unknown path prefix) may be '
        'answered by a bare HTTP error status without SOAP body; every later rejection must carry a well-formed '
        'SOAP fault',
        'combinations in which an HTTP-level class makes the body unreachable are enumerated with the valid document '
        'only',
        'autonomous activity is switched off while requests are judged: housekeeping threads of the subscription '
        'managers, the periodic alert-system self check and the invocation-timeout follow-up of the tutorial role '
        'provider; operations are awaited (operation queue idle, deferred consumer queue flushed) before the state '
        'is projected',
        'truncation is modelled as end of stream (peer closed its sending side); a silent peer that keeps the '
        'connection open is outside the model (the server sets no socket timeout)',
        'SystemErrorReport and the periodic reports other than PeriodicMetricReport are not driven',
        'GetContainmentTree/GetDescriptor are answered "not implemented" by the provider: only GetContainmentTree is '
        'driven, its proper outcome is that fault',
    ]
