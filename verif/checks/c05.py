"""C05 - BICEPS / WS-* data types round-trip losslessly through schema-valid XML.

spec:    specs/XmlStructure.tla models the descriptor algebra of sdc11073/xml_types/xml_structure.py: a member of a data
         type is declared by a descriptor (kind x is_optional x default/implied x min_length x "is the node itself" x
         string) and holds a value of an abstract value class (init / absent / empty / one / two / many / boundary /
         equal-to-default / xsi-substituted / stripped-from-the-XML).  Write / Read over an abstract XML part, the
         getter view Get and the canonical value Canon are the reference semantics; the laws RT1 (read(write(v)) =
         canon(v)), RT2 (write(read(write(v))) = write(v)), Absent (a missing part reads as the declared implied /
         default value) and Idem are INVARIANTs.  TLC enumerates every (descriptor x value class) case and prints it.
binding: spec -> code: the harness discovers by reflection every class with declared members in pm_types, msg_types,
         eventing_types, wsd_types, addressing_types, dpws_types, mex_types, descriptorcontainers, statecontainers,
         maps every member to its abstract descriptor (a property class without abstract kind, or a concrete descriptor
         that TLC did not enumerate, is a machinery failure) and instantiates every abstract case of that descriptor
         on it: a schema-valid base instance of the class (verif/c05_helpers.py learns from the XSD verdicts which
         members the schema requires) with the member set to a concrete value of the value class, then the real
         as_etree_node / mk_node -> etree.tostring -> etree.fromstring -> from_node -> second write.
         code -> spec: canonical values (verif.mdibharness.canon, numbers by value) and canonical XML (c14n) become
         tokens; specs/XmlStructureTrace.tla (TLC) decides with Canon / Val of the specification which token the value
         read back has to equal and judges every record clause by clause (write_ok, valid, read_ok, rt1_value,
         rt1_rest, rt1_eq, fresh, rt2_write, rt2_xml, absent_value).
oracle:  the bundled XSD through the repository's schema_resolver.mk_schema_validator (plus one probe element of
         xsd:anyType that hosts a value of a named schema type via xsi:type; classes of anonymous schema types are
         validated inside a base instance of a class that holds them).  An XSD complaint is a violation only if the
         document has a shape the schema forbids ("struct"); complaints about a value outside the schema value space
         (missing required part, facet) only take the case out of the "valid" and "absent" clauses.
compared in python: canonical forms are compared for equality by tokenisation only (equal form = equal token).
not judged: the shape of the XML itself (attribute vs element, order) other than through the XSD; repository __eq__
         for objects that hold raw lxml elements in plain lists (python compares those by identity).
"""
from __future__ import annotations

import copy
import json
import os
import threading
import time

from lxml import etree

from verif import tracecheck
from verif.mdibharness import EXTRA_MEMBERS
from verif.c05_helpers import (EMPTY, FIXED_NOW, LIST_ITEM_CATALOGUE, NOTSET, STR_CATALOGUE, Builder, Tok, Uninstantiable, World, Xml, cobj,
                               cval, short_exc)
from verif.tlc import MachineryError, json_lines, run_tlc

BATCH = 250
JUDGE_WORKERS = 4
WHOLE = {'k': 'sub', 'opt': False, 'df': 'none', 'ml': 0, 'slf': False, 'st': False}   # descriptor of whole-object records


class Env:
    def __init__(self, run):
        self.w = World()
        self.b = Builder(self.w, run.seed)
        self.x = Xml(self.w, self.b)
        self.tok = Tok()
        self.tnone = self.tok(EMPTY)
        self.testr = self.tok('')
        self.tnow = self.tok(cval(FIXED_NOW))


# ------------------------------------------------------------------------------------------ the real round trip
def _c14n(data: bytes) -> bytes:
    return etree.tostring(etree.fromstring(data), method='c14n')


def _holds_raw_elements(env: Env, obj, depth=0) -> bool:
    """Does obj hold lxml elements in plain lists or containers (python equality of those is identity)?"""
    cls = type(obj)
    if cls not in env.w.props or depth > 6:
        return False
    for pi in env.w.props[cls]:
        val = pi.prop.get_actual_value(obj)
        if val is None:
            continue
        if pi.kind in ('anylist', 'anynode') and len(val) > 0:
            return True
        if pi.kind == 'container' or (pi.kind == 'containerlist' and len(val) > 0):
            return True     # ContainerBase defines no __eq__
        if pi.kind in ('sub', 'container', 'subwithlist') and _holds_raw_elements(env, val, depth + 1):
            return True
        if pi.kind in ('sublist', 'containerlist') and any(_holds_raw_elements(env, v, depth + 1) for v in val):
            return True
    return False


def _shared(env: Env, cls, obj, doc_bytes, only=None) -> str:
    """Name of a member whose value in obj (read from doc) is an object that is not obj's own, or ''."""
    w = env.w
    # a second instance read from the same document: walked in parallel, no mutable member may be the same object
    again = env.x.read(cls, etree.fromstring(doc_bytes))
    stack = [(obj, again, 0)]
    first = True
    while stack:
        cur, other, depth = stack.pop()
        c = type(cur)
        if c not in w.props or depth > 6:
            continue
        for pi in w.props[c]:
            if first and only is not None and pi.name != only:
                continue
            val = pi.prop.get_actual_value(cur)
            if val is None or not isinstance(val, (w.basetypes.XMLTypeBase, w.containerbase.ContainerBase, list)):
                continue
            if val is pi.prop._default_py_value or val is pi.prop._implied_py_value:  # noqa: SLF001
                return f'{c.__name__}.{pi.name} is the default object of the declaration'
            oval = pi.prop.get_actual_value(other) if type(other) is c else None
            if oval is val:
                where = '' if first else ' (nested)'
                return f'{c.__name__}.{pi.name} is the same object in two instances read from the same XML{where}'
            if isinstance(val, list):
                for i, v in enumerate(val):
                    if type(v) in w.props:
                        ov = oval[i] if isinstance(oval, list) and i < len(oval) else None
                        if ov is v:
                            return f'{c.__name__}.{pi.name}[{i}] is the same object in two instances read from the same XML'
                        stack.append((v, ov, depth + 1))
            else:
                stack.append((val, oval, depth + 1))
        first = False
    return ''


def _strip(pi):
    def strip(elem):
        if pi.attr is not None:
            if pi.attr in elem.attrib:
                del elem.attrib[pi.attr]
        elif pi.sub is not None:
            for ch in elem.findall(pi.sub):
                elem.remove(ch)
        else:
            for ch in list(elem):
                elem.remove(ch)
            if pi.kind not in ('anylist', 'anynode'):
                elem.text = None
    return strip


def _no_clock(c):
    """Canonical value without timestamps that the writer itself sets (CurrentTimestampAttributeProperty)."""
    if isinstance(c, dict):
        return {k: _no_clock(v) for k, v in c.items() if not (isinstance(v, str) and v.startswith('T:'))}
    if isinstance(c, list):
        return [_no_clock(v) for v in c]
    return c


def _donor_untouched(env: Env, cls, obj):
    """A value whose element list is handed to another object (the library builds a header block from the reference
    parameters of an endpoint reference it received): writing the second object must leave the first one, the XML
    it writes and the documents written before untouched."""
    x = env.x
    name = EXTRA_MEMBERS[cls.__name__][0]
    donor_cls = next(c for c in env.w.tested if c.__name__ == 'EndpointReferenceType')
    donor = env.b.full(donor_cls)
    donor.ReferenceParameters = list(getattr(env.b.full(cls), name))
    strict = lambda o_: [etree.tostring(e, method='c14n') for e in o_.ReferenceParameters]   # noqa: E731
    donor_xml = etree.tostring(x.write_root(donor))
    donor_val = strict(donor)
    setattr(obj, name, donor.ReferenceParameters)     # the very same element objects
    first = x.write_root(obj)
    first_xml = etree.tostring(first)
    x.write_root(obj)
    if etree.tostring(first) != first_xml:
        return False, 'a second write of the header changed the header document written first'
    if strict(donor) != donor_val:
        return False, 'writing the header changed the elements of the endpoint reference they were taken from'
    if etree.tostring(x.write_root(donor)) != donor_xml:
        return False, 'the endpoint reference writes different XML after a header was written from its parameters'
    return True, ''


def _run(env: Env, cls, obj, pi, vc) -> dict:
    """Write obj, read it back, write again; return the observation record o (+ private fields with '_')."""
    w, x, tok = env.w, env.x, env.tok
    whole = pi is None
    o = {'w': 'ok', 'r': 'na', 'w2': 'na', 'tin': -1, 'tout': -2, 'tnone': env.tnone, 'testr': env.testr,
         'tdflt': -3, 'timpl': -4, 'tnow': env.tnow, 'rest': True, 'eq': 'na', 'x12': 'na', 'valid': 'na',
         'shared': False, 'pure': True}
    if not whole:
        prop = pi.prop
        if prop._default_py_value is not None:  # noqa: SLF001
            o['tdflt'] = tok(cval(prop._default_py_value))  # noqa: SLF001
        if prop._implied_py_value is not None:  # noqa: SLF001
            o['timpl'] = tok(cval(prop._implied_py_value))  # noqa: SLF001
    try:
        v_before = cobj(obj) if whole else None
        node = x.write_root(obj)
        xml1 = etree.tostring(node)
        if whole:
            # writing is an observation: the value is what it was, and a second write of the same object says the same
            # (the clock member is set while writing: dropped from the comparison by cobj of the same object twice)
            again = etree.tostring(x.write_root(obj))
            o['pure'] = bool(again == xml1 and _no_clock(v_before) == _no_clock(cobj(obj)))
            if not o['pure']:
                o['_impure'] = 'second write differs' if again != xml1 else 'value changed by writing'
            elif vc == 'full' and cls.__name__ in EXTRA_MEMBERS:
                o['pure'], why = _donor_untouched(env, cls, obj)
                if not o['pure']:
                    o['_impure'] = why
    except MachineryError:
        raise
    except Exception as ex:  # noqa: BLE001
        o['w'] = 'raise'
        o['_exc'] = short_exc(ex)
        return o
    # canonical forms of what was written (the clock member gets its value while writing)
    if whole:
        v_in = cobj(obj)
        o['tin'] = tok(v_in)
    else:
        v_in = cval(getattr(obj, pi.name))
        o['tin'] = tok(v_in)
        rest_in = cobj(obj, {pi.name})
    o['_in'] = v_in
    strip = None
    if vc == 'stripped':
        strip = _strip(pi)
        doc = etree.fromstring(xml1)
        strip(doc)
        xml1 = etree.tostring(doc)
    o['_xml'] = xml1.decode('utf-8', 'replace')
    # XSD verdict
    if w.direct_context(cls) is not None:
        verdict, errors = x.verdict(obj, pi, vc, strip, xml1=xml1)
        o['valid'] = verdict
        if errors:
            o['_xsd'] = [f'[{k}] {p}: {m}' for p, m, k in errors[:4]]
    elif env.b.base_state.get(cls) == 'valid':
        verdict, errors = x.verdict(obj, pi, vc, strip)
        o['valid'] = verdict
        if errors:
            o['_xsd'] = [f'[{k}] {p}: {m}' for p, m, k in errors[:4]]
        if any(p.kind in ('anylist', 'anynode') for p in w.props[cls]):
            # the hosted document was written from obj a second time and any-node members MOVE their elements
            try:
                xml_again = etree.tostring(x.write_root(obj))
                if strip is None:
                    xml1 = xml_again
                    o['_xml'] = xml1.decode('utf-8', 'replace')
            except Exception:  # noqa: BLE001
                pass
    # read
    try:
        r = x.read(cls, etree.fromstring(xml1))
        o['r'] = 'ok'
    except MachineryError:
        raise
    except Exception as ex:  # noqa: BLE001
        o['r'] = 'raise'
        o['_exc'] = short_exc(ex)
        return o
    if whole:
        v_out = cobj(r)
        o['tout'] = tok(v_out)
    else:
        v_out = cval(getattr(r, pi.name))
        o['tout'] = tok(v_out)
        rest_out = cobj(r, {pi.name})
        o['rest'] = rest_in == rest_out
        if not o['rest']:
            o['_rest'] = _diff(rest_in, rest_out)
    o['_out'] = v_out
    if isinstance(obj, w.basetypes.XMLTypeBase) and vc != 'stripped' and not _holds_raw_elements(env, obj):
        try:
            o['eq'] = 'true' if obj == r else 'false'
        except RuntimeError:
            o['eq'] = 'na'     # CodedValue / Translation refuse the default equality operator by design
    sh = _shared(env, cls, r, xml1, None if whole else pi.name)
    o['shared'] = bool(sh)
    if sh:
        o['_shared'] = sh
    if vc == 'stripped':
        return o
    # second write
    try:
        xml2 = etree.tostring(x.write_root(r))
        o['w2'] = 'ok'
    except MachineryError:
        raise
    except Exception as ex:  # noqa: BLE001
        o['w2'] = 'raise'
        o['_exc'] = short_exc(ex)
        return o
    same = xml1 == xml2 or _c14n(xml1) == _c14n(xml2)
    o['x12'] = 'same' if same else 'diff'
    if not same:
        o['_xml2'] = xml2.decode('utf-8', 'replace')
    return o


def _diff(a, b, path=''):
    if isinstance(a, dict) and isinstance(b, dict):
        for k in sorted(set(a) | set(b)):
            if a.get(k) != b.get(k):
                return _diff(a.get(k), b.get(k), f'{path}.{k}')
    return f'{path or "."}: {json.dumps(a, default=str)[:120]} -> {json.dumps(b, default=str)[:120]}'


def member_record(env: Env, cls, pi, vc: str, variant: int = 0):
    """One abstract case on one concrete member; None if the case has no concrete counterpart there."""
    b = env.b
    try:
        obj = b.base(cls)
        b.set_value(obj, pi, vc, variant=variant)
    except Uninstantiable:
        return None
    o = _run(env, cls, obj, pi, vc)
    return {'c': {'p': pi.sig, 'vc': vc}, 'o': o, 'cls': cls.__name__, 'prop': pi.name, 'variant': variant,
            'decl': pi.decl.__name__, 'site': type(pi.prop).__name__}


def whole_record(env: Env, cls, mode: str, members=()):
    """Whole-object record: 'base' (minimal valid instance), 'full' (every member holds a value), 'pair'."""
    b = env.b
    props = env.w.props[cls]
    if mode == 'base':
        obj = b.base(cls)
    elif mode == 'full':
        obj = b.full(cls)
    elif mode == 'fullminus':      # every member holds a value but one (judged like a pair record)
        obj = b.full(cls, skip=members)
        mode = 'pair'
        members = tuple('-' + m for m in members)
    else:
        obj = b.base(cls)
        for name in members:
            pi = next(p for p in props if p.name == name)
            try:
                b.set_value(obj, pi, 'one', depth=1)
            except Uninstantiable:
                return None
    o = _run(env, cls, obj, None, mode)
    return {'c': {'p': WHOLE, 'vc': mode}, 'o': o, 'cls': cls.__name__, 'prop': '+'.join(members) or '*',
            'variant': 0, 'decl': cls.__name__, 'site': 'class'}


def broken_record(env: Env, name: str, text: str):
    """A class whose declaration is inconsistent (sorted_container_properties raises): it cannot even be instantiated."""
    o = {'w': 'raise', 'r': 'na', 'w2': 'na', 'tin': -1, 'tout': -2, 'tnone': env.tnone, 'testr': env.testr,
         'tdflt': -3, 'timpl': -4, 'tnow': env.tnow, 'rest': True, 'eq': 'na', 'x12': 'na', 'valid': 'na',
         'shared': False, 'pure': True, '_exc': f'{name}() cannot be instantiated: {text}'}
    return {'c': {'p': WHOLE, 'vc': 'base'}, 'o': o, 'cls': name, 'prop': '*', 'variant': 0, 'decl': name,
            'site': 'class'}


# ------------------------------------------------------------------------------------------ TLC
def emit_cases(run) -> dict[str, list[str]]:
    res = run_tlc('XmlStructure', 'XmlStructure.cfg', workers=1)
    run.add_tlc(res)
    cases = json_lines(res.stdout, 'CASE')
    if len(cases) != res.distinct or not cases:
        raise MachineryError(f'TLC visited {res.distinct} cases but printed {len(cases)}')
    by_sig: dict[str, list[str]] = {}
    for c in cases:
        by_sig.setdefault(json.dumps(c['p'], sort_keys=True), []).append(c['vc'])
    return by_sig


class _Slice:
    def __init__(self, run, i: int):
        self.tmp = os.path.join(run.tmp, f'judge{i}')
        os.makedirs(self.tmp, exist_ok=True)
        self.tlc: list = []
        self.traces_validated = 0


def judge(run, records: list[dict]) -> dict[int, list[str]]:
    """Let TLC judge all records (XmlStructureTrace.tla); return {record index: failing clauses in order}."""
    hdr = {'c': {'p': WHOLE, 'vc': 'hdr'}, 'o': {'w': 'ok'}}
    slim = [{'c': r['c'], 'o': {k: v for k, v in r['o'].items() if not k.startswith('_')}} for r in records]
    traces = [[hdr] + slim[s:s + BATCH] for s in range(0, len(slim), BATCH)]
    chunk = 40
    workers = max(1, min(JUDGE_WORKERS, -(-len(traces) // chunk)))
    per = -(-len(traces) // workers)
    slices = [_Slice(run, i) for i in range(workers)]
    out: list = [None] * workers
    errors: list = []

    def one(i):
        try:
            out[i] = tracecheck.validate(slices[i], 'XmlStructureTrace', 'XmlStructureTrace.cfg',
                                         traces[i * per:(i + 1) * per], chunk=chunk, timeout=800)
        except Exception as ex:  # noqa: BLE001
            errors.append(ex)

    threads = [threading.Thread(target=one, args=(i,)) for i in range(workers)]
    for t in threads:
        t.start()
    for t in threads:
        t.join()
    if errors:
        raise errors[0] if isinstance(errors[0], MachineryError) else MachineryError(repr(errors[0]))
    failing: dict[int, list[str]] = {}
    for i in range(workers):
        run.tlc.extend(slices[i].tlc)
        for ti, li, clause in out[i] or []:
            idx = (i * per + ti) * BATCH + li - 1
            if li < 1 or idx >= len(records):
                raise MachineryError(f'REJECT for a record that does not exist: trace {i * per + ti} record {li}')
            failing.setdefault(idx, [])
            if clause not in failing[idx]:
                failing[idx].append(clause)
    run.traces_validated += len(records)
    return failing


# ------------------------------------------------------------------------------------------ canaries
def _canaries(env: Env) -> list[tuple[dict, str | None]]:
    """Hand-made records (good and bad twins per clause): guards against a judge that accepts everything."""
    t = {'tnone': 0, 'testr': 1, 'tdflt': 2, 'timpl': 3, 'tnow': 4}
    good = {'w': 'ok', 'r': 'ok', 'w2': 'ok', 'tin': 7, 'tout': 7, 'rest': True, 'eq': 'true', 'x12': 'same',
            'valid': 'valid', 'shared': False, 'pure': True, **t}

    def mk(p, vc, **kw):
        return {'c': {'p': p, 'vc': vc}, 'o': {**good, **kw}}
    attr_opt = {'k': 'attr', 'opt': True, 'df': 'none', 'ml': 0, 'slf': False, 'st': True}
    attr_imp = {**attr_opt, 'df': 'implied'}
    sub_dfl = {'k': 'sub', 'opt': True, 'df': 'default', 'ml': 0, 'slf': False, 'st': False}
    sub_man_dfl = {**sub_dfl, 'opt': False}
    lst = {'k': 'sublist', 'opt': True, 'df': 'none', 'ml': 0, 'slf': False, 'st': False}
    txt_self = {'k': 'nodetext', 'opt': False, 'df': 'none', 'ml': 0, 'slf': True, 'st': True}
    return [
        (mk(attr_opt, 'one'), None),
        (mk(attr_opt, 'one', tout=8), 'rt1_value'),
        (mk(attr_opt, 'one', rest=False), 'rt1_rest'),
        (mk(attr_opt, 'one', eq='false'), 'rt1_eq'),
        (mk(attr_opt, 'one', x12='diff'), 'rt2_xml'),
        (mk(attr_opt, 'one', w2='raise', x12='na'), 'rt2_write'),
        (mk(attr_opt, 'one', valid='struct'), 'valid'),
        (mk(attr_opt, 'one', valid='value'), None),
        (mk(attr_opt, 'one', w='raise'), 'write_ok'),
        (mk(attr_opt, 'one', r='raise'), 'read_ok'),
        (mk(attr_opt, 'absent', tin=0, tout=0), None),
        (mk(attr_opt, 'absent', tin=0, tout=7), 'rt1_value'),
        (mk(attr_imp, 'absent', tin=3, tout=3), None),
        (mk(attr_imp, 'absent', tin=3, tout=0), 'rt1_value'),
        (mk(attr_imp, 'stripped', tin=7, tout=3, eq='na', w2='na', x12='na'), None),
        (mk(attr_imp, 'stripped', tin=7, tout=0, eq='na', w2='na', x12='na'), 'absent_value'),
        (mk(attr_imp, 'stripped', tin=7, tout=0, eq='na', w2='na', x12='na', valid='value'), None),
        (mk(attr_imp, 'eqd', tin=3, tout=3), None),
        (mk(sub_dfl, 'absent', tin=0, tout=2), None),
        (mk(sub_dfl, 'absent', tin=0, tout=0), 'rt1_value'),
        (mk(sub_dfl, 'absent', tin=0, tout=2, x12='diff'), None),   # accepted: None on optional+default member
        (mk(sub_dfl, 'stripped', tin=7, tout=2, shared=True, eq='na', w2='na', x12='na'), 'fresh'),
        (mk(sub_man_dfl, 'stripped', tin=7, tout=2, shared=True, eq='na', w2='na', x12='na', valid='value'), None),
        (mk(sub_man_dfl, 'stripped', tin=7, tout=2, shared=True, eq='na', w2='na', x12='na', valid='valid'), 'fresh'),
        (mk(lst, 'empty', tin=0, tout=0), None),
        (mk(lst, 'absent', tin=0, tout=0), None),
        (mk(lst, 'many', tin=7, tout=0), 'rt1_value'),
        (mk(txt_self, 'init' if False else 'one'), None),
        (mk(txt_self, 'bound', tin=1, tout=1), None),
        (mk(WHOLE, 'base'), None),
        (mk(WHOLE, 'full', tout=9), 'rt1_value'),
        (mk(WHOLE, 'pair', valid='struct'), 'valid'),
        (mk({**attr_opt, 'k': 'nonsense'}, 'one'), 'unknown_case'),
    ]


def check_canaries(can, failing: dict[int, list[str]], offset: int):
    bad = []
    for i, (_, want) in enumerate(can):
        got = failing.get(offset + i, [None])[0]
        if got != want:
            bad.append((i, want, failing.get(offset + i)))
    if bad:
        raise MachineryError(f'XmlStructureTrace does not judge the canary records as intended (index, expected, got): {bad}')


# ------------------------------------------------------------------------------------------ reporting
EXC_CLAUSES = ('write_ok', 'read_ok', 'rt2_write')


def _effective(clauses: list[str]) -> list[str]:
    """Drop clauses that fail as a consequence of another failing clause of the same record."""
    if 'write_ok' in clauses:
        return ['write_ok']
    out = list(clauses)
    if 'read_ok' in out:
        return [c for c in out if c in ('valid', 'read_ok')]
    changed = {'rt1_value', 'absent_value', 'rt1_rest'} & set(out)
    if changed:
        out = [c for c in out if c not in ('rt1_eq', 'rt2_xml')]
    return out


def _home(records, idxs) -> str:
    """The class a group of failing records is filed under (the same in both tiers)."""
    whole = sorted((len(records[i]['o'].get('_xml', '')), records[i]['cls']) for i in idxs
                   if records[i]['site'] == 'class' and records[i]['c']['vc'] in ('base', 'full'))
    return whole[0][1] if whole else sorted(records[i]['decl'] for i in idxs)[0]


def _core(text: str) -> str:
    return (text or '').split(' [at ')[0][:200]


def _xsd_key(o: dict) -> str:
    import re
    for line in o.get('_xsd', []):
        if line.startswith('[struct]') or line.startswith('[order]'):
            msg = line.split(': ', 1)[1] if ': ' in line else line
            msg = re.sub(r"The type definition '[^']+', specified by xsi:type", "The type definition '*', specified by xsi:type", msg)
            msg = msg.split(' Expected is')[0]
            return line.split(']')[0][1:] + ': ' + msg[:260]
    return 'unclassified'


def report(run, records: list[dict], failing: dict[int, list[str]], keep_replay: bool = True):
    """Turn the failing clauses into violations: one per root cause as far as the records tell."""
    fails: list[tuple[int, str]] = []
    for idx in sorted(failing):
        for clause in _effective(failing[idx]):
            fails.append((idx, clause))
    stats: dict[str, int] = {}
    # 1. exceptions: one violation per (clause, innermost message)
    groups: dict[tuple, list[int]] = {}
    for idx, clause in fails:
        if clause in EXC_CLAUSES:
            groups.setdefault((clause, _core(records[idx]['o'].get('_exc'))), []).append(idx)
    for (clause, msg), idxs in sorted(groups.items()):
        idxs.sort(key=lambda i: (records[i]['site'] != 'class', len(records[i]['o'].get('_xml', '')), records[i]['cls']))
        _violation(run, {'check': 'xmlstructure', 'clause': clause, 'class': _home(records, idxs), 'error': msg}, records,
                   idxs, keep_replay)
        stats[f'{clause}/{msg[:80]}'] = len(idxs)
    # 2. XSD: one violation per complaint about the shape of the document
    groups = {}
    for idx, clause in fails:
        if clause == 'valid':
            groups.setdefault(_xsd_key(records[idx]['o']), []).append(idx)
    for key, idxs in sorted(groups.items()):
        idxs.sort(key=lambda i: (len(records[i]['o'].get('_xml', '')), records[i]['cls']))
        _violation(run, {'check': 'xmlstructure', 'clause': 'valid', 'class': _home(records, idxs), 'xsd': key}, records,
                   idxs, keep_replay)
        stats[f'valid/{key[:80]}'] = len(idxs)
    # 3. value clauses: per declaration if all its members fail (systemic), else per member
    totals: dict[tuple, set] = {}
    for r in records:
        totals.setdefault((r['site'], json.dumps(r['c']['p'], sort_keys=True)), set()).add((r['decl'], r['prop']))
    groups = {}
    for idx, clause in fails:
        if clause == 'fresh':
            groups.setdefault(records[idx]['o'].get('_shared', '?'), []).append(idx)
    for shared, idxs in sorted(groups.items()):
        idxs.sort(key=lambda i: (records[i]['site'] == 'class', len(records[i]['o'].get('_xml', '')), records[i]['cls']))
        _violation(run, {'check': 'xmlstructure', 'clause': 'fresh', 'object': shared.split(' is ')[0]}, records, idxs, keep_replay)
        stats[f'fresh/{shared[:80]}'] = len(idxs)
    groups = {}
    for idx, clause in fails:
        if clause not in EXC_CLAUSES and clause not in ('valid', 'fresh'):
            r = records[idx]
            groups.setdefault((r['site'], json.dumps(r['c']['p'], sort_keys=True), clause), []).append(idx)
    member_level = {records[i]['cls'] for i, c in fails if records[i]['site'] != 'class'
                    and c not in EXC_CLAUSES and c not in ('valid', 'fresh')}
    for (site, sigkey, clause), idxs in sorted(groups.items()):
        if site == 'class':    # whole-object records only repeat what a record of one member of the class shows
            idxs = [i for i in idxs if records[i]['cls'] not in member_level]
            if not idxs:
                continue
        members = {(records[i]['decl'], records[i]['prop']) for i in idxs}
        total = totals[(site, sigkey)]
        sig = json.loads(sigkey)
        base = {'check': 'xmlstructure', 'clause': clause, 'site': site, 'kind': sig['k'], 'opt': sig['opt'],
                'df': sig['df']}
        if site != 'class' and len(total) >= 2 and members == total:
            _violation(run, {**base, 'scope': 'every member declared this way'}, records, idxs, keep_replay)
            stats[f'{clause}/{site}/all {len(members)} members'] = len(idxs)
        else:
            by_member: dict[tuple, list[int]] = {}
            for i in idxs:
                by_member.setdefault((records[i]['decl'], records[i]['prop']), []).append(i)
            for (decl, prop), ii in sorted(by_member.items()):
                _violation(run, {**base, 'class': decl, 'member': prop}, records, ii, keep_replay)
                stats[f'{clause}/{decl}.{prop}'] = len(ii)
    run.note('failing_records', stats)


def _violation(run, descr, records, idxs, keep_replay=True):
    r = records[idxs[0]]
    o = r['o']
    clause = descr['clause']
    vcs = sorted({records[i]['c']['vc'] for i in idxs})
    alike = sorted({f"{records[i]['cls']}.{records[i]['prop']}" for i in idxs})
    what = (f"{r['cls']}.{r['prop']} ({r['site']}, value class {r['c']['vc']}; failing value classes {vcs}, "
            f"{len(alike)} member(s)): clause {clause} fails: ")
    if clause in EXC_CLAUSES:
        what += o.get('_exc', '')
    elif clause in ('rt1_value', 'absent_value'):
        what += f"wrote {json.dumps(o.get('_in'), default=str)[:160]}, read {json.dumps(o.get('_out'), default=str)[:160]}"
    elif clause == 'rt1_rest':
        what += f"other member changed: {o.get('_rest')}"
    elif clause == 'rt1_eq':
        what += 'original != read back (repository __eq__), canonical forms equal'
    elif clause == 'fresh':
        what += o.get('_shared', '')
    elif clause == 'rt2_xml':
        what += f"first XML {o.get('_xml', '')[:300]} / second XML {o.get('_xml2', '')[:300]}"
    elif clause == 'valid':
        what += '; '.join(o.get('_xsd', []))[:500]
    replay = {'class': r['cls'], 'member': r['prop'], 'value_class': r['c']['vc'], 'variant': r['variant'],
              'descriptor': r['c']['p'], 'xml': o.get('_xml'), 'xml_second_write': o.get('_xml2'),
              'written': o.get('_in'), 'read': o.get('_out'), 'xsd': o.get('_xsd'), 'exception': o.get('_exc'),
              'observation': {k: v for k, v in o.items() if not k.startswith('_')},
              'members_alike': alike[:60], 'how': './check C05 --replay <this file>'}
    run.violation(descr, what, replay if keep_replay else None)


# ------------------------------------------------------------------------------------------ plan
def build_records(run, env: Env, by_sig: dict[str, list[str]]):
    w = env.w
    records: list[dict] = []
    skipped_cases = 0
    used_sigs = set()
    thorough = not run.quick
    t_learn = time.time()
    for cls in w.tested:
        env.x.learn(cls)
    for cls in w.tested:
        env.x.learn_strings(cls)
    run.note('learn_s', round(time.time() - t_learn, 2))
    run.note('string_members_without_schema_valid_catalogue_value', env.b.no_lexical)
    for cls in w.tested:
        for mode in ('base', 'full'):
            rec = whole_record(env, cls, mode)
            if rec is not None:
                records.append(rec)
        for pi in w.props[cls]:
            if pi.sigkey not in by_sig:
                raise MachineryError(f'{pi!r}: descriptor {pi.sigkey} is not in the domain that TLC enumerated')
            used_sigs.add(pi.sigkey)
            for vc in by_sig[pi.sigkey]:
                variants = [0]
                n_bound = {'str': len(LIST_ITEM_CATALOGUE) if pi.kind in ('attrlist', 'textlist') else len(STR_CATALOGUE),
                           'enum': len(list(pi.enum)) if (pi.stype == 'enum' and pi.enum) else 1, 'int': 3, 'uint': 3, 'ulong': 3, 'dec': 7, 'ts': 3,
                           'dur': 3, 'qname': 2, 'dob': 3}.get(pi.stype, 1)
                if thorough:
                    if vc == 'bound':
                        variants = list(range(n_bound))
                    elif vc == 'xsi' and pi.kind in ('sub', 'container', 'sublist', 'containerlist'):
                        try:
                            n = len(env.b.xsi_classes(pi)) if pi.kind in ('sub', 'sublist') \
                                else len(env.b.obj_classes(pi)) - 1
                        except Uninstantiable:
                            n = 1
                        variants = list(range(max(1, n)))
                elif vc == 'bound' and pi.stype == 'str':
                    variants = [(len(records) * 7 + 3) % len(STR_CATALOGUE)]   # rotate through the catalogue
                    if pi.kind in ('attrlist', 'textlist'):
                        variants = [len(records) % 5, 5]
                elif vc == 'bound':
                    variants = [len(records) % n_bound]   # quick tier: rotate through the boundary values of the type
                for variant in variants:
                    rec = member_record(env, cls, pi, vc, variant)
                    if rec is None:
                        skipped_cases += 1
                    else:
                        records.append(rec)
        if thorough:
            opt = [pi.name for pi in w.props[cls] if pi.prop.is_optional and pi.kind != 'curtime']
            for i in range(len(opt)):
                rec = whole_record(env, cls, 'fullminus', (opt[i],))
                if rec is not None:
                    records.append(rec)
                for j in range(i + 1, len(opt)):
                    rec = whole_record(env, cls, 'pair', (opt[i], opt[j]))
                    if rec is not None:
                        records.append(rec)
    for name, text in w.broken.items():
        records.append(broken_record(env, name, text))
    run.note('cases_without_concrete_counterpart_on_the_member', skipped_cases)
    run.note('descriptors_enumerated_by_tlc', len(by_sig))
    run.note('descriptors_used_by_the_library', len(used_sigs))
    return records


def check(run, replay_path=None):
    by_sig = emit_cases(run)
    env = Env(run)
    w = env.w
    if replay_path:
        with open(replay_path) as f:
            rep = json.load(f)['replay']
        for cls in w.tested:
            env.x.learn(cls)
        for cls in w.tested:
            env.x.learn_strings(cls)
        cls = w.classes[rep['class']]
        if rep['class'] in w.broken:
            rec = broken_record(env, rep['class'], w.broken[rep['class']])
        elif rep['value_class'] in ('base', 'full', 'pair'):
            members = () if rep['member'] == '*' else tuple(rep['member'].split('+'))
            if members and members[0].startswith('-'):
                rec = whole_record(env, cls, 'fullminus', (members[0][1:],))
            else:
                rec = whole_record(env, cls, rep['value_class'], members)
        else:
            pi = next(p for p in w.props[cls] if p.name == rep['member'])
            rec = member_record(env, cls, pi, rep['value_class'], rep.get('variant', 0))
        failing = judge(run, [rec])
        print(f'replay {replay_path}: xml={rec["o"].get("_xml")} read={rec["o"].get("_out")} '
              f'failing clauses={failing.get(0)}')
        report(run, [rec], failing, keep_replay=False)
        return
    records = build_records(run, env, by_sig)
    run.evaluations = len(records)
    per_kind: dict[str, int] = {}
    verdicts: dict[str, int] = {}
    for r in records:
        k = r['c']['p']['k'] if r['site'] != 'class' else 'whole:' + r['c']['vc']
        per_kind[k] = per_kind.get(k, 0) + 1
        verdicts[r['o']['valid']] = verdicts.get(r['o']['valid'], 0) + 1
        run.distinct_traces.add((r['cls'], r['prop'], r['c']['vc'], r['variant']))
    run.note('records_per_kind', per_kind)
    run.note('xsd_verdicts', verdicts)
    run.note('classes_tested', len(w.tested))
    run.note('members_tested', sum(len(w.props[c]) for c in w.tested))
    run.note('classes_skipped', w.skipped)
    run.note('classes_without_schema_valid_base', {c.__name__: s for c, s in env.b.base_state.items() if s != 'valid'})
    run.note('members_the_schema_requires_beyond_the_declaration',
             {c.__name__: v for c, v in env.b.required.items() if v})
    for r in records:
        if r['site'] != 'class' and r['c']['vc'] in ('xsi', 'stripped') and r['o']['r'] == 'ok':
            run.sample({'class': r['cls'], 'member': r['prop'], 'case': r['c'], 'xml': r['o'].get('_xml', '')[:400],
                        'observation': {k: v for k, v in r['o'].items() if not k.startswith('_')}})
    can = _canaries(env)
    failing = judge(run, records + [c for c, _ in can])
    check_canaries(can, failing, len(records))
    run.note('canary_records', len(can))
    failing = {i: cl for i, cl in failing.items() if i < len(records)}
    report(run, records, failing)
    run.assumptions += [
        'value classes are representatives (one / two / boundary values per scalar type, lists of 0, 1, 2 items, one '
        'derived class per xsi substitution in the quick tier), not all values of the simple types (C18 covers scalars)',
        'a value is inside the schema value space iff the bundled XSD accepts the document; XSD complaints about '
        'missing required parts and facets take the case out of the clauses valid / absent, complaints about the '
        'shape of the document are violations',
        'Canon: None and the empty list are the same value; None of a member with a declared default is the default '
        '(documented: default_py_value applies "if the xml element does not exist"); None of the text of an element '
        'that is the node itself is the empty string (documented in NodeStringProperty)',
        'abstract base classes and UnsubscribeResponse (no body by design) are not instantiated; their members are '
        'exercised on every derived class',
        'the clock of CurrentTimestampAttributeProperty is frozen (module global time of xml_structure, harness side)',
        'canonical values are taken after the first write (ClockState.DateAndTime is set by writing)',
        'mandatory members without value (write raises ValueError by design) are outside the domain',
    ]
