"""C06 - consumer MDIB never regresses under lost, duplicated or reordered reports.

spec:    specs/Mirror.tla (provider report log, channel with arbitrary delivery, consumer update rules written like
         consumermdib.py, restart, load with snapshot + buffer replay); TLC checks NoRegress, StaleIsNoop, DupIsNoop,
         Published, Frozen, LoadNotOlder, Mirror (in-order special case) exhaustively
binding: TLC behaviours are executed on a real provider/consumer pair whose notifications are HELD by the loop-back
         network and delivered in the order the behaviour says (incl. during reload_all, inside the GetMdib
         exchange); the consumer projection after every step is judged by TLC (specs/MirrorFaultTrace.tla)
"""
from __future__ import annotations

import copy
import uuid

from verif import tracecheck
from verif.mdibharness import MdibReplayer, Projector, apply_tok, make_descriptor
from verif.mirrorharness import install_clock
from verif.pair import Pair
from verif.tlc import MachineryError, json_lines, run_tlc

HANDLES = ['ch', 'm1', 'm2', 'dB']
CTX = []
ABS = {'a': 'm1', 'b': 'm2', 'd': 'dB'}
MC_ACTIONS = ['CommitState', 'CommitDescrUpdate', 'CommitDelete', 'CommitCreate', 'Restart', 'Deliver', 'DeliverRace', 'BeginLoad',
              'Snapshot', 'ArriveDuringReplay', 'EndLoad']


def _is_getmdib(wire):
    return b'GetService/GetMdib<' in wire.data or b'GetService/GetMdib"' in wire.data \
        or (b'/GetMdib' in wire.data and b'GetMdibResponse' not in wire.data)


class HandoverLock:
    """Wraps the consumer MDIB's buffer lock during a load: when the loader releases it while a receiver thread is waiting
    for it, the receiver runs first (the loader waits until the receiver has been through its locked section).  That is
    one of the schedules the real lock admits - the one in which a notification arrives at the very moment the replay
    of the buffer ends - chosen deterministically instead of left to the OS scheduler."""

    def __init__(self, real):
        import threading
        self._real = real
        self._cv = threading.Condition()
        self._waiting = 0
        self._passed = 0
        self._owner = None
        self.handovers = 0

    def acquire(self, *a, **kw):
        import threading
        with self._cv:
            self._waiting += 1
        ok = self._real.acquire(*a, **kw)
        with self._cv:
            self._waiting -= 1
            self._owner = threading.get_ident()
        return ok

    def release(self):
        import threading
        me = threading.get_ident()
        with self._cv:
            waiters = self._waiting
            passed0 = self._passed
            self._owner = None
            self._passed += 1
            self._cv.notify_all()
        self._real.release()
        if waiters and threading.current_thread().name != 'late-receiver':
            with self._cv:
                if self._cv.wait_for(lambda: self._passed > passed0 + 1, timeout=2.0):
                    self.handovers += 1
        del me

    def __enter__(self):
        self.acquire()
        return self

    def __exit__(self, *a):
        self.release()
        return False


class RaceLock:
    """Wraps the consumer MDIB's re-entrant lock.  When armed, the next thread that comes to acquire it first lets
    `armed()` run to completion - another receiver thread that got the lock first - and then acquires it."""

    def __init__(self, real):
        self._real = real
        self.armed = None

    def acquire(self, *a, **kw):
        if self.armed is not None:
            fn, self.armed = self.armed, None
            fn()
        return self._real.acquire(*a, **kw)

    def release(self):
        return self._real.release()

    def __enter__(self):
        self.acquire()
        return self

    def __exit__(self, *a):
        self.release()
        return False


class FaultSession:
    def __init__(self, **pair_kw):
        install_clock()
        self.pair = Pair(**pair_kw)
        self.mdib = self.pair.mdib
        self.cm = self.pair.cmdib
        self.proj = Projector(HANDLES, CTX)
        self.net = self.pair.net
        self.groups = []          # per commit: list of wires
        self.current_group = None
        self.net.on_post = self._on_post
        self.delivered_since_load = []
        self.next_expected = 0
        self.clean = True
        self.tok_n = 0
        self.pubs = {'S': {h: [] for h in HANDLES}, 'C': {}, 'D': {h: [] for h in HANDLES}}
        self.phist = {}           # (seq, mver) -> provider projection
        self.load_script = None
        self.trace = []
        self.race_lock = RaceLock(self.cm.mdib_lock)
        self.cm.mdib_lock = self.race_lock

    # ------------------------------------------------------------ network hook
    def _on_post(self, wire):
        if wire.src == 'provider':
            if self.current_group is not None:
                self.current_group.append(wire)
            return 'hold'
        if wire.src == 'consumer' and self.load_script is not None and _is_getmdib(wire):
            # GetMdib request in flight: run the scripted pre-snapshot actions, take the snapshot (by letting the
            # request through), then the post-snapshot actions happen after delivery (see _load)
            script, self.load_script = self.load_script, None
            for rec in script['pre']:
                self._inner(rec)
            script['snap'] = self._psnap()
            self._post_script = script['post']
        return None

    def _inner(self, rec):
        act = rec['act']
        if act == 'Deliver':
            self._deliver(rec['i'] - 1, in_load=True)
        elif act.startswith('Commit') or act == 'Restart':
            self._provider_action(rec)

    # ------------------------------------------------------------ projections
    def _psnap(self):
        p = self.proj.project(self.mdib)
        p['seq'] = self.proj.tokens.tok(['seq', self.mdib.sequence_id])
        p['inst'] = -1 if self.mdib.instance_id is None else int(self.mdib.instance_id)
        return p

    def _csnap(self):
        if self.cm.mdib_version is None:
            raise MachineryError('consumer mdib projected in the middle of a load')
        p = self.proj.project(self.cm)
        p['seq'] = self.proj.tokens.tok(['seq', self.cm.sequence_id])
        p['inst'] = -1 if self.cm.instance_id is None else int(self.cm.instance_id)
        return p

    def _remember_published(self, p):
        for h in HANDLES:
            if p['S'][h]['present']:
                t = [p['S'][h]['sver'], p['S'][h]['dver'], p['S'][h]['tok']]
                if t not in self.pubs['S'][h]:
                    self.pubs['S'][h].append(t)
            if p['D'][h]['present']:
                t = [p['D'][h]['ver'], p['D'][h]['tok']]
                if t not in self.pubs['D'][h]:
                    self.pubs['D'][h].append(t)
        self.phist[(p['seq'], p['inst'], p['mver'])] = p

    def _phase(self):
        return self.cm._state.name  # noqa: SLF001

    # ------------------------------------------------------------ provider actions
    def _provider_action(self, rec):
        act = rec['act']
        self.tok_n += 1
        t = self.tok_n
        self.current_group = []
        try:
            if act == 'CommitState':
                with self.mdib.metric_state_transaction() as mgr:
                    for a in rec['hs']:
                        apply_tok(mgr.get_state(self.conc(a)), t)
            elif act == 'CommitDescrUpdate':
                with self.mdib.descriptor_transaction() as mgr:
                    apply_tok(mgr.get_descriptor(self.conc(rec['h'])), t)
            elif act == 'CommitDelete':
                with self.mdib.descriptor_transaction() as mgr:
                    mgr.remove_descriptor(self.conc(rec['h']))
            elif act == 'CommitCreate':
                with self.mdib.descriptor_transaction() as mgr:
                    if rec.get('w'):
                        # an alert condition descriptor is updated in the same transaction: its Source list (an indexed
                        # attribute) changes, the report gets an Upt part in front of the Crt part
                        apply_tok(mgr.get_descriptor('ac0.vmd0.mds0'), t)
                    d = make_descriptor(self.mdib, ABS[rec['h']], self.proj.map_d['ch'])
                    mgr.add_descriptor(d, state_container=self.mdib.data_model.mk_state_container(d))
            elif act == 'Restart':
                # a restarted provider: new SequenceId, MdibVersion starts again
                if rec.get('k', 'seq') == 'seq':
                    self.mdib.sequence_id = uuid.uuid4().urn
                else:
                    self.mdib.instance_id = (self.mdib.instance_id or 0) + 1
                self.mdib.mdib_version = 0
                for a in ABS.values():   # the restarted provider has its initial (static) MDIB again
                    if a == 'dB':
                        self.mdib.rm_descriptor_by_handle(self.proj.map_d[a])
                self.current_group = None
                self.clean = False   # groups still pending belong to the old epoch
                self._remember_published(self._psnap())
                return
        finally:
            grp, self.current_group = self.current_group, None
        self.groups.append(grp)
        self._remember_published(self._psnap())

    def conc(self, a):
        return self.proj.map_d[ABS[a]]

    # ------------------------------------------------------------ delivery
    def _deliver(self, gi, in_load=False):
        grp = self.groups[gi]
        res = 'ok'
        for w in grp:
            dup = self.net.redeliver(w) if w.outcome != 'held' else None
            if dup is None:
                w.outcome = 'delivered'
                self.net.held.remove(w) if w in self.net.held else None
                status, _reason, _resp = self.net.deliver(w)
            else:
                status = dup[0]
            if status != 200:
                res = f'status:{status}'
        return res

    def _group_triple(self, gi):
        w = self.groups[gi][0]
        md = self.pair.consumer.msg_reader.read_received_message(w.data)
        vg = md.mdib_version_group
        return vg.mdib_version, self.proj.tokens.tok(['seq', vg.sequence_id]), \
            -1 if vg.instance_id is None else int(vg.instance_id)

    # ------------------------------------------------------------ stepping
    def start(self):
        p = self._psnap()
        self._remember_published(p)
        self.trace = [self._rec({'act': 'Init'}, 'ok')]
        return self.trace

    def _rec(self, rec, res, **extra):
        out = dict(rec)
        out['res'] = res
        out['post'] = self._psnap()
        out['cpost'] = self._csnap()
        out['phase'] = self._phase()
        out['pubs'] = copy.deepcopy(self.pubs)
        out.update(extra)
        return out

    def run(self, beh):
        self.start()
        i = 0
        while i < len(beh):
            rec = beh[i]
            act = rec['act']
            if act == 'BeginLoad':
                j = i + 1
                pre, post, late, seen_snap = [], [], [], False
                while j < len(beh) and beh[j]['act'] != 'EndLoad':
                    if beh[j]['act'] == 'Snapshot':
                        seen_snap = True
                    elif beh[j]['act'] == 'ArriveDuringReplay':
                        late.append(beh[j])
                    elif beh[j]['act'] != 'BeginLoad':
                        (post if seen_snap else pre).append(beh[j])
                    j += 1
                self.trace.append(self._load(pre, post, late))
                i = j + 1
                continue
            if act in ('Snapshot', 'EndLoad', 'ArriveDuringReplay'):
                i += 1
                continue
            if act == 'Deliver':
                self._do_deliver(rec)
            elif act == 'DeliverRace':
                # report i has passed the pre-check and waits for the MDIB lock while report j is received and applied
                self._do_deliver({'act': 'Deliver', 'i': rec['i'], 'sit': rec.get('sit', [])},
                                 inner={'act': 'Deliver', 'i': rec['j']})
            else:
                self._provider_action(rec)
                self.trace.append(self._rec(rec, 'ok'))
            i += 1
        return self.trace

    def _do_deliver(self, rec, inner=None):
        gi = rec['i'] - 1
        if gi >= len(self.groups):
            if inner is not None:
                self._do_deliver(inner)
            return
        pre = {}

        def capture():
            rmver, rseq, rinst = self._group_triple(gi)
            cpre = self.trace[-1]['cpost']
            pre.update(rmver=rmver, same_epoch=(rseq == cpre['seq'] and rinst == cpre['inst']),
                       dup=gi in self.delivered_since_load)
            self.clean = self.clean and gi == self.next_expected
            self.next_expected = gi + 1 if gi >= self.next_expected else self.next_expected

        def other_thread_first():
            self._do_deliver(inner)
            capture()
            self.races = getattr(self, 'races', 0) + 1
        if inner is None:
            capture()
        else:
            self.race_lock.armed = other_thread_first
        try:
            res = self._deliver(gi)
        except Exception as ex:  # noqa: BLE001
            res = 'exc:' + type(ex).__name__
        late_inner = False
        if inner is not None and self.race_lock.armed is not None:
            # report i never came to the lock (rejected by the pre-check): the other report simply arrives after it
            self.race_lock.armed = None
            capture()
            late_inner = True
        self.delivered_since_load.append(gi)
        clean_now = self.clean and self.next_expected == len(self.groups) and self._phase() == 'initialized'
        self.trace.append(self._rec(rec, res, clean=clean_now, **pre))
        if late_inner:
            self._do_deliver(inner)

    def _load(self, pre, post, late=()):
        """reload_all with scripted traffic while GetMdib is in flight and while the buffered reports are replayed."""
        import threading
        from sdc11073 import observableproperties as op
        self.load_script = {'pre': pre, 'post': post}
        late = [r for r in late if r['i'] - 1 < len(self.groups) + sum(1 for x in pre + post if x['act'].startswith('Commit'))]
        late_state = {'thread': None, 'done': False}

        def late_body():
            # the receiver thread: delivers while the loader replays its buffer (it has to wait for the loader)
            for rec in late:
                gi = rec['i'] - 1
                if gi < len(self.groups):
                    try:
                        self._deliver(gi, in_load=True)
                    except Exception:  # noqa: BLE001
                        pass
            late_state['done'] = True

        def trigger(_value):
            if not _value or 'snap' not in script:
                return      # cleared observables at the start of the load, not the replay of a buffered report
            if late and late_state['thread'] is None and self.cm._state.name == 'initializing':  # noqa: SLF001
                th = threading.Thread(target=late_body, name='late-receiver', daemon=True)
                late_state['thread'] = th
                th.start()
                th.join(timeout=0.25)     # original code: the receiver blocks on the buffer lock until the load is over
        watch = {name: trigger for name in ('metrics_by_handle', 'description_modifications', 'component_by_handle')}
        op.bind(self.cm, **watch)
        real_buffer_lock = self.cm._buffered_notifications_lock   # noqa: SLF001
        handover = HandoverLock(real_buffer_lock)
        self.cm._buffered_notifications_lock = handover   # noqa: SLF001
        self._post_script = []
        self.loaded_groups = []
        net = self.net
        orig_deliver = net.deliver
        session = self

        def deliver_hook(wire):
            out = orig_deliver(wire)
            if wire.src == 'consumer' and session._post_script and _is_getmdib(wire):
                script, session._post_script = session._post_script, []
                for rec in script:
                    session._inner(rec)
            return out
        net.deliver = deliver_hook
        script = self.load_script
        res = 'ok'
        n_before = len(self.groups)
        delivered_in_load = []
        orig_inner_deliver = self._deliver

        def tracking_deliver(gi, in_load=False):
            delivered_in_load.append((gi, 'snap' in script))
            return orig_inner_deliver(gi, in_load)
        self._deliver = tracking_deliver
        try:
            self.cm.reload_all()
        except Exception as ex:  # noqa: BLE001
            res = 'exc:' + type(ex).__name__
        finally:
            op.unbind(self.cm, **watch)
            self.cm._buffered_notifications_lock = real_buffer_lock   # noqa: SLF001
            self.handovers = getattr(self, 'handovers', 0) + handover.handovers
            if late and late_state['thread'] is None:
                late_body()                   # nothing was replayed: the late reports simply arrive after the load
            elif late_state['thread'] is not None:
                late_state['thread'].join(timeout=10)
                if not late_state['done']:
                    raise MachineryError('late receiver thread is stuck')
            net.deliver = orig_deliver
            self._deliver = orig_inner_deliver
            self.load_script = None
        snap = script.get('snap') or self._psnap()
        # which provider version must the consumer mirror?  snapshot + the reports of later commits, when exactly
        # those were delivered after the snapshot, in order, once
        groups_after_snap = [gi for gi in range(len(self.groups))
                             if self._group_triple(gi)[0] > snap['mver'] and self._group_triple(gi)[1] == snap['seq']]
        after = [gi for gi, after_snap in delivered_in_load]
        relevant = [gi for gi in after if gi in groups_after_snap]
        k = len(relevant)
        clean_load = relevant == groups_after_snap[:k] and all(
            (self._group_triple(gi)[1] == snap['seq'] and self._group_triple(gi)[2] == snap['inst']) for gi in after)
        if k == 0:
            expect = snap
        else:
            mv, sq, ins = self._group_triple(relevant[-1])
            expect = self.phist.get((sq, ins, mv), snap)
        # a provider restart inside the load window: what "in order", "exactly once" and "already delivered" mean
        # afterwards depends on which instance each group and the snapshot belong to - the harness makes no such claims
        # for these histories (in_order_mirror, duplicate_is_noop, load_exact are not judged; every other clause is)
        restarted = any(r['act'] == 'Restart' for r in list(script['pre']) + list(script['post']))
        cur = self._psnap()
        if restarted or (cur['seq'], cur['inst']) != (snap['seq'], snap['inst']):
            clean_load = False
            relevant = []
        self.delivered_since_load = list(relevant)
        self.clean = clean_load
        self.next_expected = (relevant[-1] + 1) if relevant else (groups_after_snap[0] if groups_after_snap
                                                                 else len(self.groups))
        arrived = [self._group_triple(gi) for gi in after]
        same = [t[0] for t in arrived if t[1] == snap['seq'] and t[2] == snap['inst']]
        return self._rec({'act': 'Load'}, res, snap=snap, expect=expect, clean_load=clean_load,
                         max_arrived_mver=max(same) if same else -1,
                         n_pre=len(script['pre']), n_post=len(script['post']), n_late=len(late),
                         late_in_replay=late_state['thread'] is not None)

    def close(self):
        self.net.on_post = None
        self.pair.stop()


def strip(trace):
    return trace


def check(run, replay_path=None):
    fault_family(run)


def fault_family(run, family=None, num=None, prefixes=('R:', 'L:', 'Q:', 'B:'), with_model=True, seed_offset=0):
    """The fault-delivery sessions; `family`: only these clauses are reported (C11 reuses the sessions for lookups_agree
    with a cover of the deliveries whose description report has a part that is rejected after another was applied)."""
    if with_model:
        res = run_tlc('MirrorMC', 'Mirror_mc.cfg', coverage=True, timeout=3000)
        run.add_tlc(res, MC_ACTIONS)
        if not run.quick:
            run.add_tlc(run_tlc('MirrorMC', 'Mirror_mc_thorough.cfg', timeout=7200))
    num = num or run.pick(120, 4000)
    pool = run.pick(3000, 12000)
    res = run_tlc('MirrorMC', 'Mirror_sim.cfg', workers=1, simulate=f'num={pool}', depth=23, seed=run.seed + seed_offset)
    run.add_tlc(res)
    behs = json_lines(res.stdout, 'BEH')
    if len(behs) < pool // 2:
        raise MachineryError(f'expected about {pool} behaviours, got {len(behs)}')
    # replayed: a cover of the delivery situations TLC attached to every Deliver (duplicate / stale / gap / other
    # epoch x kind of report x create of an existing handle ...) plus a random fill
    from verif.checks.mdibcommon import select_covering
    behs, stats = select_covering(behs, num, run.seed, k=run.pick(1, 2), prefixes=prefixes)
    run.note('situation_coverage', stats)
    # test purpose (breadth-first TLC run over tiny bounds): the shortest histories in which the consumer rejects a
    # later part of a description report after an earlier part was applied
    res = run_tlc('MirrorMC', 'Mirror_purpose.cfg', workers=1, timeout=1800)
    run.add_tlc(res)
    purpose = json_lines(res.stdout, 'BEH')
    if not purpose:
        raise MachineryError('test purpose part-rejected-after-update-part is not reachable in Mirror.tla')
    purpose.sort(key=lambda b: (len(b), str(b)))
    # test purposes for loads: a shortest history for every situation of a load (what was buffered / arrived late,
    # relative to the snapshot: old, news, other epoch - also with a higher MdibVersion than the snapshot).  Random
    # simulation reaches a complete load with traffic in it far too rarely.
    res = run_tlc('MirrorMC', 'Mirror_loadpurpose.cfg', workers=1, timeout=3000)
    run.add_tlc(res)
    loads = json_lines(res.stdout, 'BEH')
    need = {'B:buffered:state:otherepoch-higher-version', 'B:buffered:state:news', 'B:buffered:descr:news',
            'L:late:state:news:0'}
    got = {lab for b in loads for r in b for lab in r.get('sit', [])}
    if not need <= got:
        raise MachineryError(f'load purposes not reached in Mirror.tla: {sorted(need - got)}')
    run.note('load_purposes', {'histories': len(loads), 'situations': len({x for x in got if x[:2] in ('B:', 'L:')})})
    behs = purpose[:run.pick(6, 60)] + loads + behs
    variants = [dict(), dict(async_mgr=True)]
    traces = []
    handovers = 0
    races = 0
    for i, beh in enumerate(behs):
        ses = FaultSession(**variants[i % len(variants)])
        try:
            traces.append(ses.run(beh))
        finally:
            handovers += getattr(ses, 'handovers', 0)
            races += getattr(ses, 'races', 0)
            ses.close()
    rejects = tracecheck.validate(run, 'MirrorFaultTrace', 'MirrorFaultTrace.cfg', [strip(t) for t in traces],
                                  chunk=500)
    run.count('deliveries', sum(1 for t in traces for r in t if r['act'] == 'Deliver'))
    run.count('duplicate_deliveries', sum(1 for t in traces for r in t if r.get('dup')))
    run.count('stale_deliveries', sum(1 for t in traces for r in t if r['act'] == 'Deliver'
                                      and r['same_epoch'] and r['rmver'] < t[t.index(r) - 1]['cpost']['mver']))
    run.count('loads', sum(1 for t in traces for r in t if r['act'] == 'Load'))
    run.count('deliveries_overtaken_at_the_mdib_lock', races)
    run.count('loads_with_arrival_during_replay', sum(1 for t in traces for r in t if r['act'] == 'Load'
                                                      and r.get('late_in_replay')))
    run.count('load_handovers_of_the_buffer_lock_to_a_waiting_receiver', handovers)
    run.count('loads_with_traffic', sum(1 for t in traces for r in t if r['act'] == 'Load'
                                        and (r['n_pre'] or r['n_post'])))
    run.count('epoch_changes', sum(1 for t in traces for r in t if r['act'] == 'Restart'))
    for t in traces:
        run.distinct_traces.add(tuple((r['act'], r.get('i'), r.get('h'), tuple(r.get('hs', ())), r['res']) for r in t))
    run.sample([{k: v for k, v in r.items() if k not in ('post', 'cpost', 'pubs', 'snap', 'expect')}
                for r in traces[0][:10]])
    by_trace = {}
    for r in sorted(rejects, key=lambda x: (x[0], x[1])):
        by_trace.setdefault(r[0], []).append(r)
    for ti, rs in by_trace.items():
        for (_, li, clause) in rs:
            rec = traces[ti][li]
            descr = {'check': 'faults', 'clause': clause, 'act': rec['act']}
            if family is not None and clause not in family:
                continue
            if run.is_known(descr):
                continue
            run.violation(descr, f'{clause} fails at {rec["act"]} (record {li})',
                          {'behaviour': behs[ti], 'trace': traces[ti], 'failing_record': li})
            break
    run.assumptions += ['delivery unit = all notifications of one commit (in emission order)',
                        'provider restart = new SequenceId and MdibVersion 0 on the same provider object',
                        'regress judged within one SequenceId/InstanceId epoch; gaps in MdibVersion are accepted']
