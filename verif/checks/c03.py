"""C03 - transactions are atomic and the data they hand out is isolated from the MDIB.

spec:    specs/Mdib.tla: Abort after every prefix, Rejected calls, MutateCopy; properties AbortNoop, OnlyCommitChanges
binding: same recorded traces as C02, clauses atomic_abort / atomic_commit_failed / isolated_in_tx / isolated_copy /
         published_unchanged of specs/MdibTrace.tla
"""
from verif.checks import mdibcommon


def check(run, replay_path=None):
    mdibcommon.run_family(run, 'C03')
    run.assumptions += ['commit failure is exercised only through inputs that make the real commit raise',
                        'published = the TransactionResult objects handed to observers (last 3 kept)']
